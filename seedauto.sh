#!/bin/bash
# seedauto.sh <out-dir> <check...>: guesses the demo placement (from meta.json's how_to_run_demo) and runs seedcheck + seedrun
out=$1; shift
demo=$(ls $out/*_test.go | head -1)
how=$(python3 -c "import json;print(json.load(open('$out/meta.json')).get('how_to_run_demo',''))")
dest=$(echo "$how" | grep -oE '(testscript/[a-z0-9]+|cmd/txtar-c|txtar|par|cache|imports|lockedfile|goproxytest|diff|testscript)/?' | head -1 | sed 's|/$||')
[ -z "$dest" ] && dest=$(grep -m1 '^package ' $demo | awk '{print $2}' | sed 's/_test$//')
tests=$(grep -oE '^func (Test[A-Za-z0-9_]+)' $demo | awk '{print $2}' | paste -sd'|')
r=$(./seedcheck.sh $out $dest -run "^($tests)\$" ./$dest 2>&1 | tail -1)
c=""
for chk in "$@"; do c="$c $(./seedrunw.sh $out/patch.diff $chk 2>&1 | grep -E '^== |HARNESS' | head -2 | cut -c1-140 | tr '\n' ' ')"; done
echo "$out [$dest]: $r |$c"
