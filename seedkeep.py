#!/usr/bin/env python3
"""seedkeep.py <out-dir> <seed-name> <demo-cmd> <caught-by-checks,comma> [note]
Copies a confirmed seeded change into /verif/seeded/<seed-name>/ with meta.json."""
import json, os, shutil, sys
out, name, democmd, caught = sys.argv[1:5]
note = sys.argv[5] if len(sys.argv) > 5 else ""
dst = os.path.join('/verif/seeded', name)
os.makedirs(dst, exist_ok=True)
for f in os.listdir(out):
    if f.endswith('.txt') and f.startswith('demo_'): continue
    src = os.path.join(out, f)
    if os.path.isdir(src):
        shutil.copytree(src, os.path.join(dst, f), dirs_exist_ok=True)
    elif f.endswith('.go'):
        # keep demos out of the verif module's package tree
        shutil.copy(src, os.path.join(dst, f + '.txt'))
    else:
        shutil.copy(src, dst)
m = json.load(open(os.path.join(out, 'meta.json')))
m2 = {
    "property": m.get("property"),
    "breaks": m.get("summary"),
    "needs_to_manifest": m.get("needs_to_manifest"),
    "files_changed": m.get("files_changed"),
    "demo_files": [f + '.txt' for f in m.get("demo_files", []) if f.endswith('.go')] or m.get("demo_files"),
    "origin": "independent sub-agent given only the property text and a scratch worktree",
    "what_i_ran": [
        "seedcheck.sh in a fresh scratch worktree of /repo HEAD: git apply patch.diff; go build ./...; go test -vet=off -count=1 ./... (only the two baseline-failing tests fail); demo: " + democmd + " -> FAIL with the change, PASS after git apply -R",
        "seedrun.sh: git -C /repo apply patch.diff; ./check <id> --tier quick for the listed checks; git -C /repo checkout -- .",
    ],
    "caught_by": [c for c in caught.split(',') if c],
    "note": note,
}
json.dump(m2, open(os.path.join(dst, 'meta.json'), 'w'), indent=1)
print("kept", dst)
