// C11 — concurrent cache users never observe corrupt or foreign data
// (DESIGN.md §6 C11). Engine S on the real cache package with os redirected:
// every schedule within a preemption bound of 2-3 users (each with its own
// Cache value on one directory = processes; one scenario shares a Cache value =
// goroutines) at file-operation granularity.
package main

import (
	"bytes"
	"crypto/sha256"
	"encoding/json"
	"flag"
	"fmt"
	"os"
	"path/filepath"
	"sort"
	"strings"

	"github.com/rogpeppe/go-internal/cache"

	"verif/fsched"
	"verif/kit"
	"verif/pmode"
	"verif/sched"
	"verif/virt/vos"
	"verif/virt/vsync"
)

var contents = map[string][]byte{"X": []byte("x1x1\n"), "Y": []byte("yyy22222\n"), "Z": []byte("z9z9\n"), "E": {}}
var ids = map[string]cache.ActionID{}

func init() {
	var a, b, c cache.ActionID
	for i := range a {
		a[i] = 0xa0 + byte(i%7)
		b[i] = 0xb0 + byte(i%5)
		c[i] = 0xc0 + byte(i%3)
	}
	ids["A"], ids["B"], ids["C"] = a, b, c
}

type op struct {
	Kind    string `json:"kind"` // put | getbytes | getfile
	ID      string `json:"id"`
	Content string `json:"content,omitempty"`
}

func (o op) String() string {
	if o.Kind == "put" {
		return fmt.Sprintf("Put(%s,%s)", o.ID, o.Content)
	}
	return fmt.Sprintf("%s(%s)", o.Kind, o.ID)
}

type scenario struct {
	Name      string      `json:"name"`
	Pre       [][2]string `json:"pre"` // entries stored before the users start
	Threads   [][]op      `json:"threads"`
	SameCache []int       `json:"same_cache"` // thread indexes sharing one *Cache (goroutines of one process)
	MustHit   []string    `json:"must_hit"`   // ids whose lookups must never miss (pre-stored, only re-stored identically)
	Bound     int         `json:"bound"`
	// PreTrimmed: contents whose output files are taken away after the entries
	// of Pre were stored (what Trim does to an output whose index entry is still
	// being looked up): those ids are unreadable at the start, and readable
	// again once a Put for them has succeeded
	PreTrimmed []string `json:"pre_trimmed,omitempty"`
}

func (s scenario) String() string {
	var ts []string
	for _, t := range s.Threads {
		var os []string
		for _, o := range t {
			os = append(os, o.String())
		}
		ts = append(ts, strings.Join(os, ";"))
	}
	b := "all schedules"
	if s.Bound >= 0 {
		b = fmt.Sprintf("preemptions<=%d", s.Bound)
	}
	pre := ""
	for _, p := range s.Pre {
		pre += fmt.Sprintf(" %s->%s", p[0], p[1])
	}
	return fmt.Sprintf("%s pre:%s [%s] %s", s.Name, pre, strings.Join(ts, " || "), b)
}

type instance struct {
	sc      scenario
	root    string
	dir     string
	tmpl    *cache.Cache
	invoked map[string]map[string]bool // id -> contents for which a Put was invoked
	putOK   map[string]bool            // id -> some Put returned nil
	dynMust map[int]bool               // thread -> its lookup in progress must hit (see checkLookupR)
	viol    string
	hits    int
	misses  int
	done    int
}

func (in *instance) fail(format string, args ...any) {
	if in.viol == "" {
		in.viol = fmt.Sprintf(format, args...)
	}
}

const pmodeTag = " [one process per user]"

func (s scenario) pmode() bool { return strings.HasSuffix(s.Name, pmodeTag) }

type pchildSpec struct {
	Dir  string `json:"dir"`
	Prog []op   `json:"prog"`
}

type lookupMsg struct {
	Op       op     `json:"op"`
	Data     []byte `json:"data"`
	File     string `json:"file"`
	Out      []byte `json:"out"` // OutputID
	Size     int64  `json:"size"`
	Err      string `json:"err"`
	NotFound bool   `json:"not_found"`
}

// pchildMain: one cache user as its own OS process.
func pchildMain(spec pchildSpec) {
	tmpl, err := cache.Open(spec.Dir) // before the hooks are installed: not part of the schedule
	if err != nil {
		os.Exit(9)
	}
	r := pmode.Child()
	for _, o := range spec.Prog {
		switch o.Kind {
		case "put":
			js, _ := json.Marshal(o)
			r.Send("I %s", js)
			_, _, err := tmpl.Put(ids[o.ID], bytes.NewReader(contents[o.Content]))
			m := lookupMsg{Op: o}
			if err != nil {
				m.Err = err.Error()
			}
			js, _ = json.Marshal(m)
			r.Send("W %s", js)
		case "getbytes":
			data, ent, err := tmpl.GetBytes(ids[o.ID])
			m := lookupMsg{Op: o, Data: data, Out: ent.OutputID[:], Size: ent.Size}
			if err != nil {
				m.Err, m.NotFound = err.Error(), notFound(err)
			}
			js, _ := json.Marshal(m)
			r.Send("L %s", js)
		case "getfile":
			file, ent, err := tmpl.GetFile(ids[o.ID])
			m := lookupMsg{Op: o, File: file, Out: ent.OutputID[:], Size: ent.Size}
			if err != nil {
				m.Err, m.NotFound = err.Error(), notFound(err)
			}
			js, _ := json.Marshal(m)
			r.Send("L %s", js)
		}
	}
	r.Finish()
}

func notFound(err error) bool {
	return err != nil && strings.HasPrefix(err.Error(), "cache entry not found")
}

func (in *instance) checkLookup(th int, o op, data []byte, file string, ent cache.Entry, err error) {
	if err != nil {
		in.checkLookupR(th, o, data, file, ent, err.Error(), notFound(err))
		return
	}
	in.checkLookupR(th, o, data, file, ent, "", false)
}

func (in *instance) checkLookupR(th int, o op, data []byte, file string, ent cache.Entry, errText string, nf bool) {
	if errText != "" {
		err := errText
		if !nf {
			in.fail("T%d %s failed with something other than not-found: %v", th, o, err)
			return
		}
		in.misses++
		if in.dynMust[th] && len(in.invoked[o.ID]) == 1 {
			in.fail("T%d %s missed (%v) although a Put of the only content ever stored for this id had returned before the lookup began (identical re-stores in flight must not make it miss)", th, o, err)
		}
		for _, m := range in.sc.MustHit {
			if m == o.ID {
				in.fail("T%d %s missed (%v) although the id was stored before and is only re-stored with identical content", th, o, err)
			}
		}
		return
	}
	in.hits++
	if o.Kind == "getfile" {
		// the named file's current content (no scheduling point since GetFile returned)
		var rerr error
		data, rerr = os.ReadFile(file)
		if rerr != nil {
			in.fail("T%d %s names %s which cannot be read: %v", th, o, filepath.Base(file), rerr)
			return
		}
	}
	if int64(len(data)) != ent.Size {
		in.fail("T%d %s: %d bytes but reported size %d", th, o, len(data), ent.Size)
		return
	}
	if sha256.Sum256(data) != ent.OutputID {
		in.fail("T%d %s returned bytes %q that do not hash to the reported OutputID", th, o, data)
		return
	}
	ok := false
	for c := range in.invoked[o.ID] {
		if bytes.Equal(contents[c], data) {
			ok = true
		}
	}
	if !ok {
		in.fail("T%d %s returned %q, which no Put stored for this id (Puts invoked for it: %v)", th, o, data, keys(in.invoked[o.ID]))
	}
}

func keys(m map[string]bool) []string {
	var k []string
	for s := range m {
		k = append(k, s)
	}
	sort.Strings(k)
	return k
}

var dirSeq int

func (in *instance) body() {
	vsync.ResetNames()
	fsched.EINTROnce = false
	fsched.Invisible = map[string]bool{"chtimes": true}
	pmode.Invisible = fsched.Invisible
	pmode.Gen = 0
	fsched.Install()
	// a directory name never used before: nothing keyed by path leaks between executions
	dirSeq++
	nd := filepath.Join(in.root, fmt.Sprintf("c%d-%d", os.Getpid(), dirSeq))
	if in.dir == "" {
		os.MkdirAll(nd, 0o777)
		vos.Hook = nil
		c, err := cache.Open(nd)
		if err != nil {
			kit.UnderTestFailed("cache.Open of a fresh directory fails: %v", err)
		}
		in.tmpl = c
		fsched.Install()
	} else {
		if err := os.Rename(in.dir, nd); err != nil {
			kit.Harness("rename: %v", err)
		}
		for _, sd := range []string{"a0", "b0", "c0"} {
			clearDir(filepath.Join(nd, sd))
		}
		for _, c := range contents {
			h := sha256.Sum256(c)
			clearDir(filepath.Join(nd, fmt.Sprintf("%02x", h[0])))
		}
	}
	in.dir = nd
	in.invoked = map[string]map[string]bool{"A": {}, "B": {}, "C": {}}
	in.putOK = map[string]bool{}
	in.dynMust = map[int]bool{}
	in.viol = ""
	in.hits, in.misses, in.done = 0, 0, 0
	// pre-stored entries (not under the scheduler's eyes: main thread, before the users start)
	pre := cache.WithDirVerif(in.tmpl, nd)
	save := vos.Hook
	vos.Hook = nil
	for _, p := range in.sc.Pre {
		if err := pre.PutBytes(ids[p[0]], contents[p[1]]); err != nil {
			kit.UnderTestFailed("PutBytes into a fresh cache (start state, no other user yet) fails: %v", err)
		}
		in.invoked[p[0]][p[1]] = true
		in.putOK[p[0]] = true
	}
	for _, x := range in.sc.PreTrimmed {
		h := sha256.Sum256(contents[x])
		if err := os.Remove(filepath.Join(nd, fmt.Sprintf("%02x", h[0]), fmt.Sprintf("%x-d", h))); err != nil {
			kit.Harness("take the output of %s away: %v", x, err)
		}
		for _, p := range in.sc.Pre {
			if p[1] == x {
				in.putOK[p[0]] = false // unreadable until stored again
			}
		}
	}
	vos.Hook = save
	shared := cache.WithDirVerif(in.tmpl, nd)
	for ti, prog := range in.sc.Threads {
		ti, prog := ti, prog
		c := cache.WithDirVerif(in.tmpl, nd)
		for _, s := range in.sc.SameCache {
			if s == ti {
				c = shared
			}
		}
		if in.sc.pmode() {
			sched.Go(fmt.Sprintf("P%d", ti+1), func() {
				spec, _ := json.Marshal(pchildSpec{nd, prog})
				msg := pmode.Proxy([]string{"-pchild", string(spec)}, func(kind, rest string) {
					var m lookupMsg
					json.Unmarshal([]byte(rest), &m)
					switch kind {
					case "I":
						var o op
						json.Unmarshal([]byte(rest), &o)
						in.invoked[o.ID][o.Content] = true
					case "W":
						if m.Err != "" {
							in.fail("U%d %s failed: %v", ti+1, m.Op, m.Err)
						} else {
							in.putOK[m.Op.ID] = true
						}
					case "L":
						var ent cache.Entry
						copy(ent.OutputID[:], m.Out)
						ent.Size = m.Size
						in.checkLookupR(ti+1, m.Op, m.Data, m.File, ent, m.Err, m.NotFound)
					}
				})
				if msg != "" {
					in.fail("U%d: %s", ti+1, msg)
				}
				in.done++
			})
			continue
		}
		sched.Go(fmt.Sprintf("U%d", ti+1), func() {
			for _, o := range prog {
				switch o.Kind {
				case "put":
					in.invoked[o.ID][o.Content] = true
					_, _, err := c.Put(ids[o.ID], bytes.NewReader(contents[o.Content]))
					if err != nil {
						in.fail("U%d %s failed: %v", ti+1, o, err)
					} else {
						in.putOK[o.ID] = true
					}
				case "getbytes":
					in.dynMust[ti+1] = in.putOK[o.ID] && len(in.invoked[o.ID]) == 1
					data, ent, err := c.GetBytes(ids[o.ID])
					in.checkLookup(ti+1, o, data, "", ent, err)
				case "getfile":
					in.dynMust[ti+1] = in.putOK[o.ID] && len(in.invoked[o.ID]) == 1
					file, ent, err := c.GetFile(ids[o.ID])
					in.checkLookup(ti+1, o, nil, file, ent, err)
				}
			}
			in.done++
		})
	}
}

func clearDir(d string) {
	ents, _ := os.ReadDir(d)
	for _, e := range ents {
		os.Remove(filepath.Join(d, e.Name()))
	}
}

// final: once every user has returned, every id with a successful Put is readable.
func (in *instance) final() {
	vos.Reset()
	if in.viol != "" {
		return
	}
	c := cache.WithDirVerif(in.tmpl, in.dir)
	for id, ok := range in.putOK {
		if !ok {
			continue
		}
		o := op{Kind: "getbytes", ID: id}
		data, ent, err := c.GetBytes(ids[id])
		if err != nil {
			in.fail("after all users finished, GetBytes(%s) = %v although a Put for it succeeded", id, err)
			return
		}
		in.checkLookup(0, o, data, "", ent, err)
		file, ent, err := c.GetFile(ids[id])
		if err != nil {
			in.fail("after all users finished, GetFile(%s) = %v although a Put for it succeeded", id, err)
			return
		}
		in.checkLookup(0, op{Kind: "getfile", ID: id}, nil, file, ent, err)
	}
}

func judge(in *instance, e *sched.Exec) (string, string) {
	switch {
	case e.PanicVal != nil:
		return "panic", fmt.Sprintf("panic: %v\n%s", e.PanicVal, e.PanicStack)
	case e.Deadlock:
		return "deadlock", "deadlock: " + e.DeadlockAt
	case e.Livelock:
		return "livelock", e.LivelockWhy()
	}
	in.final()
	if in.viol != "" {
		class := "bad-lookup"
		switch {
		case strings.Contains(in.viol, "missed"):
			class = "restore-made-lookup-miss"
		case strings.Contains(in.viol, "after all users finished"):
			class = "not-readable-at-quiescence"
		case strings.Contains(in.viol, "failed"):
			class = "operation-failed"
		}
		return class, in.viol
	}
	return "", ""
}

type kase struct {
	Scenario scenario `json:"scenario"`
	Choices  []int    `json:"choices"`
	Trace    []string `json:"trace,omitempty"`
}

type shardResult struct {
	Executions int64   `json:"executions"`
	Steps      int64   `json:"steps"`
	MaxDepth   int     `json:"max_depth"`
	Capped     bool    `json:"capped"`
	Outcomes   int     `json:"outcomes"`
	Hits       int64   `json:"hits"`
	Misses     int64   `json:"misses"`
	Violations []kit.V `json:"violations"`
	Sample     []int   `json:"sample"`
	ReplayOK   bool    `json:"replay_ok"`
	ReplayDiff string  `json:"replay_diff,omitempty"`
}

func runOnce(root string, sc scenario, choices []int, trace bool) (*instance, *sched.Exec) {
	in := &instance{sc: sc, root: root}
	e := sched.Run(in.body, sched.Options{Prefix: choices, Trace: trace, Horizon: 5000})
	vos.Reset()
	return in, e
}

func explore(r *kit.Run, root string, sc scenario, prefix []int) shardResult {
	var res shardResult
	in := &instance{sc: sc, root: root}
	outcomes := map[string]bool{}
	x := &sched.Explorer{Body: func() { in.body() }, Bound: sc.Bound, Horizon: 5000, Stop: r.Expired}
	x.Check = func(e *sched.Exec) bool {
		vos.Reset()
		res.Steps += int64(e.Steps)
		class, what := judge(in, e)
		if class != "" {
			_, te := runOnce(root, sc, e.Choices, true)
			res.Violations = append(res.Violations, kit.V{
				Key:  fmt.Sprintf("%s scenario=%q", class, sc.String()),
				What: fmt.Sprintf("%s: %s\nschedule: %s", sc, what, strings.Join(te.Trace, " | ")),
				Case: kase{sc, e.Choices, te.Trace},
			})
			return false
		}
		res.Hits += int64(in.hits)
		res.Misses += int64(in.misses)
		outcomes[fmt.Sprint(in.hits, in.misses)] = true
		if res.Sample == nil && len(e.Choices) > 3 {
			res.Sample = append([]int(nil), e.Choices...)
		}
		return true
	}
	if prefix == nil {
		// the same schedule twice must give the same trace; a mismatch is tried again
		// (up to three times) before the scenario is called nondeterministic, and the
		// two traces are reported
		for attempt := 0; attempt < 3 && !res.ReplayOK; attempt++ {
			_, e1 := runOnce(root, sc, nil, true)
			_, e2 := runOnce(root, sc, e1.Choices, true)
			res.ReplayOK = e1.NoYield != "" || strings.Join(e1.Trace, "|") == strings.Join(e2.Trace, "|")
			if !res.ReplayOK {
				res.ReplayDiff = fmt.Sprintf("attempt %d\nfirst run:  %s\nsecond run: %s", attempt+1, strings.Join(e1.Trace, " | "), strings.Join(e2.Trace, " | "))
			}
		}
		x.Run()
	} else {
		res.ReplayOK = true
		x.RunFrom(prefix)
	}
	res.Executions, res.MaxDepth, res.Capped, res.Outcomes = x.Executions, x.MaxDepth, x.Capped, len(outcomes)
	return res
}

func scenarios(th bool) []scenario {
	put := func(id, c string) op { return op{"put", id, c} }
	gb := func(id string) op { return op{"getbytes", id, ""} }
	gf := func(id string) op { return op{"getfile", id, ""} }
	// preemption bounds: three users / two users
	b3, b2 := 3, 4
	if th {
		b3, b2 = 4, 6
	}
	return []scenario{
		{Name: "1 same id same content", Threads: [][]op{{put("A", "X")}, {put("A", "X")}, {gb("A"), gf("A")}}, Bound: b3},
		{Name: "2 same id different content", Threads: [][]op{{put("A", "X")}, {put("A", "Y")}, {gb("A"), gf("A")}}, Bound: b3},
		{Name: "3 different ids shared output", Threads: [][]op{{put("A", "X")}, {put("B", "X")}, {gf("A"), gb("B")}}, Bound: b3},
		{Name: "4 identical re-store", Pre: [][2]string{{"A", "X"}}, Threads: [][]op{{put("A", "X")}, {gb("A"), gf("A")}, {gf("A")}}, MustHit: []string{"A"}, Bound: b3},
		{Name: "5 overwrite same length", Pre: [][2]string{{"A", "X"}}, Threads: [][]op{{put("A", "Z")}, {gb("A"), gf("A")}}, Bound: b2},
		{Name: "13 identical re-store after the output was trimmed away", Pre: [][2]string{{"A", "X"}}, PreTrimmed: []string{"X"}, Threads: [][]op{{put("A", "X")}, {put("A", "X")}, {gb("A"), gf("A")}}, Bound: b3},
		{Name: "13b re-store under another id after the output was trimmed away", Pre: [][2]string{{"A", "X"}}, PreTrimmed: []string{"X"}, Threads: [][]op{{put("B", "X")}, {gb("A"), gf("A")}}, Bound: b2},
		{Name: "5b overwrite longer", Pre: [][2]string{{"A", "X"}}, Threads: [][]op{{put("A", "Y")}, {gf("A"), gb("A")}}, Bound: b2},
		{Name: "6 two goroutines of one process + another process", Threads: [][]op{{put("A", "X")}, {put("A", "X"), gb("A")}, {gf("A")}}, SameCache: []int{0, 1}, Bound: b3},
		{Name: "1r two writers, fresh", Threads: [][]op{{put("A", "X")}, {put("A", "X")}}, Bound: b2},
		{Name: "2r writer and reader, fresh", Threads: [][]op{{put("A", "Y")}, {gb("A"), gf("A")}}, Bound: b2},
		{Name: "4r identical re-store, one reader", Pre: [][2]string{{"A", "X"}}, Threads: [][]op{{put("A", "X")}, {gb("A"), gf("A")}}, MustHit: []string{"A"}, Bound: b2},
		{Name: "7 empty content", Threads: [][]op{{put("A", "E")}, {put("A", "E")}, {gb("A"), gf("A")}}, Bound: b3},
		{Name: "9 two goroutines sharing one Cache value look up different ids", Pre: [][2]string{{"A", "X"}, {"B", "Y"}}, Threads: [][]op{{gb("A"), gf("A")}, {gb("B"), gf("B")}}, SameCache: []int{0, 1}, MustHit: []string{"A", "B"}, Bound: b2},
		{Name: "10 goroutines sharing one Cache value: writer of B, reader of A", Pre: [][2]string{{"A", "X"}}, Threads: [][]op{{put("B", "Y"), gb("B")}, {gb("A"), gf("A")}}, SameCache: []int{0, 1}, MustHit: []string{"A"}, Bound: b2},
		{Name: "1r two writers, fresh" + pmodeTag, Threads: [][]op{{put("A", "X")}, {put("A", "X")}}, Bound: 2},
		{Name: "2r writer and reader, fresh" + pmodeTag, Threads: [][]op{{put("A", "Y")}, {gb("A"), gf("A")}}, Bound: 2},
		{Name: "4r identical re-store, one reader" + pmodeTag, Pre: [][2]string{{"A", "X"}}, Threads: [][]op{{put("A", "X")}, {gb("A"), gf("A")}}, MustHit: []string{"A"}, Bound: 2},
		{Name: "5 overwrite same length" + pmodeTag, Pre: [][2]string{{"A", "X"}}, Threads: [][]op{{put("A", "Z")}, {gb("A"), gf("A")}}, Bound: 2},
		{Name: "1 same id same content" + pmodeTag, Threads: [][]op{{put("A", "X")}, {put("A", "X")}, {gb("A"), gf("A")}}, Bound: 1},
		{Name: "8 re-store while another id shares the output", Pre: [][2]string{{"A", "X"}, {"B", "X"}}, Threads: [][]op{{put("A", "X")}, {gb("B"), gf("B")}}, MustHit: []string{"A", "B"}, Bound: b2},
		{Name: "13 re-store by a second writer while the first writer looks its entry up", Threads: [][]op{{put("A", "X"), gb("A"), gf("A")}, {put("A", "X")}}, Bound: b2},
		{Name: "14 three writers of identical content, each looks up afterwards", Threads: [][]op{{put("A", "X"), gf("A")}, {put("A", "X"), gb("A")}, {put("A", "X")}}, Bound: b3},
		{Name: "11 overwrite while another id shares the superseded output", Pre: [][2]string{{"A", "X"}, {"B", "X"}}, Threads: [][]op{{put("A", "Y")}, {gb("B"), gf("B")}}, MustHit: []string{"B"}, Bound: b2},
		{Name: "12 two ids swap away from a shared output", Pre: [][2]string{{"A", "X"}, {"B", "X"}, {"C", "X"}}, Threads: [][]op{{put("A", "Z")}, {put("B", "Y")}, {gf("C"), gb("C")}}, MustHit: []string{"C"}, Bound: b3},
	}
}

type job struct {
	sc     int
	prefix []int
}

var pchildFlag = flag.String("pchild", "", "internal: run one cache user as a P-mode child process")

func main() {
	r := kit.Start("C11", "model_checking")
	if *pchildFlag != "" {
		var spec pchildSpec
		if err := json.Unmarshal([]byte(*pchildFlag), &spec); err != nil {
			os.Exit(8)
		}
		pchildMain(spec)
		return
	}
	root, err := os.MkdirTemp(os.Getenv("VERIF_SCRATCH"), "c11")
	if err != nil {
		kit.Harness("mkdtemp: %v", err)
	}
	defer func() {
		if !kit.IsWorker() {
			os.RemoveAll(root)
		}
	}()
	r.Replayer = func(raw json.RawMessage) []kit.V {
		var c kase
		if err := json.Unmarshal(raw, &c); err != nil {
			kit.Harness("bad case: %v", err)
		}
		in, e := runOnce(root, c.Scenario, c.Choices, true)
		class, what := judge(in, e)
		if class == "" {
			return nil
		}
		return []kit.V{{Key: fmt.Sprintf("%s scenario=%q", class, c.Scenario.String()), What: what + "\nschedule: " + strings.Join(e.Trace, " | "), Case: c}}
	}
	r.MaybeReplay()
	scs := scenarios(r.Thorough())
	var tot shardResult
	var pmodeExecs int64
	per := map[int]*shardResult{}
	r.JobName = func(j int) string { return fmt.Sprintf("scenario %v", scs[j]) }
	r.Sharded(len(scs), func(j int) any { return explore(r, root, scs[j], nil) }, func(j int, raw json.RawMessage) {
		var sr shardResult
		if err := json.Unmarshal(raw, &sr); err != nil {
			kit.Harness("shard result: %v", err)
		}
		if !sr.ReplayOK {
			kit.Harness("nondeterministic replay in scenario %s\n%s", scs[j], sr.ReplayDiff)
		}
		per[j] = &sr
		tot.Executions += sr.Executions
		if scs[j].pmode() {
			pmodeExecs += sr.Executions
		}
		tot.Steps += sr.Steps
		tot.Hits += sr.Hits
		tot.Misses += sr.Misses
		tot.Capped = tot.Capped || sr.Capped
		if sr.MaxDepth > tot.MaxDepth {
			tot.MaxDepth = sr.MaxDepth
		}
		for _, v := range sr.Violations {
			r.Violation(v.Key, v.What, v.Case)
		}
		if sr.Sample != nil && j%3 == 0 {
			r.Sample(map[string]any{"scenario": scs[j].String(), "choices": sr.Sample})
		}
	})
	if kit.IsWorker() {
		os.RemoveAll(root)
		return
	}
	var lines []string
	for j, sr := range per {
		lines = append(lines, fmt.Sprintf("%s: executions=%d lookups hit/miss=%d/%d", scs[j], sr.Executions, sr.Hits, sr.Misses))
	}
	sort.Strings(lines)
	r.Set("states", tot.Steps)
	r.Set("transitions", tot.Steps)
	r.Set("traces_validated_against_impl", tot.Executions)
	r.Set("executions", tot.Executions)
	r.Set("executions_with_one_os_process_per_user", pmodeExecs)
	r.Set("lookup_hits", tot.Hits)
	r.Set("lookup_misses", tot.Misses)
	r.Set("scenarios", lines)
	r.Set("max_decisions_in_one_execution", tot.MaxDepth)
	r.Set("exhaustive", !tot.Capped && !r.Capped())
	r.Set("explanation", "stateless exploration of every schedule (2 users) or every schedule within the preemption bound (3 users) at the granularity of the os calls of cache.go (stat, open, read, write, truncate, close, remove; chtimes invisible: it only touches mtimes, which C11 does not observe). states = scheduling steps visited. Both hits and misses are observed in the racing scenarios (vacuity guard)")
	r.Assume("file operations are atomic at system-call granularity; in most scenarios users with their own Cache value stand for processes (the package has no shared mutable state besides read-only debug flags); the scenarios tagged [one process per user] explore with every user in its own OS process driven over pipes by the same scheduler")
	r.Finish()
}
