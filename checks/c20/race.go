package main

import (
	"bytes"
	"context"
	"flag"
	"fmt"
	"os"
	"os/exec"
	"path/filepath"
	"runtime"
	"strings"
	"syscall"
	"time"

	"verif/kit"
)

// The free-running pass: the scenarios of part (b) on real goroutines in a
// -race build (the controlled scheduler only interleaves at synchronisation
// operations, and its hand-overs hide plain data races from the detector).
// Sampling, not enumeration; it complements the exploration.

var racePass = flag.Bool("racepass", false, "free-running pass (build with -race)")

// raceMods: the standard directory plus a module whose archive is large and not
// in name order, so that work done on it by one request overlaps the others.
func raceMods() []modVer {
	big := modVer{"a.com/big", "v1.0.0", "txt", nil}
	for i := 200; i > 0; i-- {
		big.Files = append(big.Files, fmt.Sprintf("p%03d/f.go", i))
	}
	return append(append([]modVer(nil), concMods...), big)
}

func raceScenarios() []scenario {
	scs := concScenarios(false)
	b := func(ext string) creq { return creq{Path: "a.com/big", Vers: "v1.0.0", Ext: ext} }
	return append(scs,
		scenario{"zip||info||mod large module", []creq{b("zip"), b("info"), b("mod")}, 0},
		scenario{"zip||zip||info large module", []creq{b("zip"), b("zip"), b("info")}, 0},
		scenario{"info x4||zip large module", []creq{b("info"), b("mod"), b("info"), b("mod"), b("zip")}, 0})
}

func raceMain() {
	root, err := os.MkdirTemp(os.Getenv("VERIF_SCRATCH"), "c20race")
	if err != nil {
		kit.Harness("mkdtemp: %v", err)
	}
	defer os.RemoveAll(root)
	dir := filepath.Join(root, "d")
	writeDir(dir, raceMods())
	scs := raceScenarios()
	solos := make([][]response, len(scs))
	for i, sc := range scs {
		s, v := soloResponsesV(dir, sc)
		if v != "" {
			fmt.Printf("RACEPASS-ORACLE solo-request: %s (%s)\n", v, sc.Name)
			os.RemoveAll(root)
			os.Exit(3)
		}
		solos[i] = s
	}
	for it := 0; it < 12; it++ {
		for i, sc := range scs {
			in := &instance{sc: sc, dir: dir, solo: solos[i]}
			in.body() // free-running: waits for its requests
			for k, rq := range sc.Reqs {
				if in.pan[k] != nil {
					fmt.Printf("RACEPASS-ORACLE handler-panic: GET %s panics under concurrency: %v (%s)\n", rq, in.pan[k], sc.Name)
					os.RemoveAll(root)
					os.Exit(3)
				}
				if in.resp[k].Status != in.solo[k].Status || !bytes.Equal(in.resp[k].Body, in.solo[k].Body) {
					fmt.Printf("RACEPASS-ORACLE response-differs: GET %s answered %d (%d bytes) under concurrency, %d (%d bytes) when issued alone (%s)\n", rq, in.resp[k].Status, len(in.resp[k].Body), in.solo[k].Status, len(in.solo[k].Body), sc.Name)
					os.RemoveAll(root)
					os.Exit(3)
				}
			}
		}
	}
	fmt.Println("racepass done")
}

func raceCheck() []kit.V {
	bin := os.Getenv("VERIF_RACE_BIN")
	if bin == "" {
		return nil
	}
	ctx, cancel := context.WithTimeout(context.Background(), 3*time.Minute)
	defer cancel()
	cmd := exec.CommandContext(ctx, bin, "-racepass")
	// the pass must not outlive this process (which may end early); the signal is
	// tied to the thread that starts the child, so this goroutine keeps its thread
	runtime.LockOSThread()
	defer runtime.UnlockOSThread()
	cmd.SysProcAttr = &syscall.SysProcAttr{Pdeathsig: syscall.SIGKILL}
	cmd.Env = append(os.Environ(), "GORACE=halt_on_error=1 exitcode=66")
	out, err := cmd.CombinedOutput()
	if err == nil {
		return nil
	}
	s := string(out)
	race := kase{Kind: "race"}
	if ctx.Err() != nil {
		return []kit.V{{Key: "free-running-hang proxy", What: "the free-running pass did not finish within 3 minutes (a request never returned):\n" + firstLines(s, 5), Case: race, NoConfirm: true}}
	}
	if strings.Contains(s, "WARNING: DATA RACE") {
		return []kit.V{{Key: "data-race proxy", What: "race detector report in the free-running pass (concurrent first requests on a fresh server):\n" + firstLines(s, 40), Case: race, NoConfirm: true}}
	}
	if strings.Contains(s, "RACEPASS-ORACLE") {
		return []kit.V{{Key: "free-running-oracle proxy", What: firstLines(s, 5), Case: race, NoConfirm: true}}
	}
	if strings.Contains(s, "panic: ") || strings.Contains(s, "fatal error: ") {
		return []kit.V{{Key: "free-running-crash proxy", What: "the free-running pass crashed:\n" + firstLines(s, 12), Case: race, NoConfirm: true}}
	}
	kit.Harness("race pass failed: %v\n%s", err, firstLines(s, 20))
	return nil
}

func firstLines(s string, n int) string {
	l := strings.Split(s, "\n")
	if len(l) > n {
		l = l[:n]
	}
	return strings.Join(l, "\n")
}
