// C20 — goproxytest serves exactly the modules stored in its directory
// (DESIGN.md §6 C20). (a) Engine E: generated module directories, every stored
// module version and a set of near-misses requested through the real handler
// (and a real Server over loopback for a sample). (b) Engine S: concurrent first
// requests on a fresh server with par.Cache on the controlled scheduler; every
// response must equal the response of the same request issued alone.
package main

import (
	"archive/zip"
	"bytes"
	"context"
	"encoding/json"
	"fmt"
	"io"
	"net/http"
	"net/http/httptest"
	"os"
	"path/filepath"
	"sort"
	"strings"
	"sync"
	"sync/atomic"

	"golang.org/x/mod/module"

	"github.com/rogpeppe/go-internal/goproxytest"
	"github.com/rogpeppe/go-internal/txtar"

	"verif/kit"
	"verif/sched"
	"verif/virt/vsync"
)

type modVer struct {
	Path   string   `json:"path"`
	Vers   string   `json:"version"`
	Layout string   `json:"layout"` // txt | txtar | dir
	Files  []string `json:"files"`
}

func (m modVer) String() string {
	return fmt.Sprintf("%s@%s(%s;%s)", m.Path, m.Vers, m.Layout, strings.Join(m.Files, ","))
}

func infoOf(m modVer) string { return fmt.Sprintf("{\"Version\":%q}\n", m.Vers) }
func modOf(m modVer) string {
	s := "module " + m.Path + "\n"
	if m.Layout == "dir" {
		// a directory can hold a file without final newline; txtar cannot
		return strings.TrimSuffix(s, "\n")
	}
	return s
}
func fileData(m modVer, name string) string {
	return fmt.Sprintf("// %s of %s@%s\n", name, m.Path, m.Vers)
}

func storedName(m modVer) string {
	ep, err := module.EscapePath(m.Path)
	if err != nil {
		kit.Harness("escape %q: %v", m.Path, err)
	}
	ev, err := module.EscapeVersion(m.Vers)
	if err != nil {
		kit.Harness("escape %q: %v", m.Vers, err)
	}
	return strings.ReplaceAll(ep, "/", "_") + "_" + ev
}

func writeDir(dir string, mods []modVer) {
	os.RemoveAll(dir)
	os.RemoveAll(dir + ".targets")
	os.MkdirAll(dir, 0o777)
	// something that is not a module
	os.WriteFile(filepath.Join(dir, "README"), []byte("not a module\n"), 0o666)
	for _, m := range mods {
		name := filepath.Join(dir, storedName(m))
		if m.Layout == "dir" {
			os.MkdirAll(name, 0o777)
			os.WriteFile(filepath.Join(name, ".info"), []byte(infoOf(m)), 0o666)
			os.WriteFile(filepath.Join(name, ".mod"), []byte(modOf(m)), 0o666)
			for _, f := range m.Files {
				p := filepath.Join(name, f)
				os.MkdirAll(filepath.Dir(p), 0o777)
				if filepath.Base(f) == "ln.go" {
					// stored as a symbolic link to a file kept outside the served directory
					t := filepath.Join(dir+".targets", storedName(m), "ln.go")
					os.MkdirAll(filepath.Dir(t), 0o777)
					os.WriteFile(t, []byte(fileData(m, f)), 0o666)
					os.Remove(p)
					if err := os.Symlink(t, p); err != nil {
						kit.Harness("symlink: %v", err)
					}
					continue
				}
				os.WriteFile(p, []byte(fileData(m, f)), 0o666)
			}
			continue
		}
		a := &txtar.Archive{Comment: []byte("module " + m.Path + "@" + m.Vers + "\n\n")}
		a.Files = append(a.Files, txtar.File{Name: ".mod", Data: []byte(modOf(m))}, txtar.File{Name: ".info", Data: []byte(infoOf(m))})
		for _, f := range m.Files {
			a.Files = append(a.Files, txtar.File{Name: f, Data: []byte(fileData(m, f))})
		}
		os.WriteFile(name+"."+m.Layout, txtar.Format(a), 0o666)
	}
}

type response struct {
	Status int
	Body   []byte
}

func get(h http.Handler, url string) (r response, pan any) {
	defer func() { pan = recover() }()
	rec := httptest.NewRecorder()
	req := httptest.NewRequest("GET", url, nil)
	h.ServeHTTP(rec, req)
	return response{rec.Code, rec.Body.Bytes()}, nil
}

// getGone: the same request from a client that has gone away already (its
// context is cancelled before the handler is called).
func getGone(h http.Handler, url string) (r response, pan any) {
	defer func() { pan = recover() }()
	rec := httptest.NewRecorder()
	ctx, cancel := context.WithCancel(context.Background())
	cancel()
	req := httptest.NewRequest("GET", url, nil).WithContext(ctx)
	h.ServeHTTP(rec, req)
	return response{rec.Code, rec.Body.Bytes()}, nil
}

func reqURL(path, vers, ext string) string {
	ep, err := module.EscapePath(path)
	if err != nil {
		ep = path
	}
	if ext == "list" {
		return "/mod/" + ep + "/@v/list"
	}
	ev, err := module.EscapeVersion(vers)
	if err != nil {
		ev = vers
	}
	return "/mod/" + ep + "/@v/" + ev + "." + ext
}

var schedMu sync.Mutex

func isPseudo(v string) bool { return module.IsPseudoVersion(v) }

// checkDirectory serves mods and checks every stored version and the near-misses:
// once on a fresh server, and once on a fresh server that has first answered
// commit-hash style requests (whose own answers the statement does not define,
// but which must not change what is served for stored versions afterwards).
func checkDirectory(dir string, mods []modVer, st *stats) string {
	if v := checkDirectoryOnce(dir, dir, mods, st, false); v != "" {
		return v
	}
	if v := checkDirectoryOnce(dir, dir, mods, nil, true); v != "" {
		return "after commit-hash requests: " + v
	}
	// the same directory named in a way that is not lexically clean
	n := len(mods)
	for _, m := range mods {
		n += len(m.Files)
	}
	spelled := []string{dir + "/", filepath.Dir(dir) + "/./" + filepath.Base(dir), dir + "/sub/..", filepath.Dir(dir) + "//" + filepath.Base(dir) + "/."}[n%4]
	os.MkdirAll(filepath.Join(dir, "sub"), 0o777)
	if v := checkDirectoryOnce(dir, spelled, mods, nil, false); v != "" {
		return fmt.Sprintf("served as %q: %s", strings.Replace(spelled, filepath.Dir(dir), "<root>", 1), v)
	}
	return ""
}

// checkDirectoryOnce writes mods into dir and serves it under the name serveDir
// (the same directory, possibly spelled differently).
func checkDirectoryOnce(dir, serveDir string, mods []modVer, st *stats, hashFirst bool) string {
	writeDir(dir, mods)
	if serveDir != dir {
		os.MkdirAll(filepath.Join(dir, "sub"), 0o777)
	}
	srv, err := goproxytest.NewUnstartedVerif(serveDir, func(string, ...any) {})
	if err != nil {
		return fmt.Sprintf("server does not start: %v", err)
	}
	h := srv.HandlerVerif()
	if hashFirst {
		for _, m := range mods {
			for _, hash := range []string{"abcdef123456", "abcdef", "0123456789ab"} {
				for _, ext := range []string{"zip", "info", "mod"} {
					if _, pan := get(h, reqURL(m.Path, hash, ext)); pan != nil {
						return fmt.Sprintf("GET %s panics: %v", reqURL(m.Path, hash, ext), pan)
					}
				}
			}
		}
	}
	stored := map[string]modVer{}
	paths := map[string]bool{}
	for _, m := range mods {
		stored[m.Path+"@"+m.Vers] = m
		paths[m.Path] = true
	}
	first := map[string]response{}
	var firstOrder []string
	do := func(url string) (response, string) {
		r, pan := get(h, url)
		if st != nil {
			atomic.AddInt64(&st.requests, 1)
		}
		if pan != nil {
			return r, fmt.Sprintf("GET %s panics: %v", url, pan)
		}
		if _, ok := first[url]; !ok {
			// keep a private copy: the server must not change bytes it has handed out
			first[url] = response{Status: r.Status, Body: append([]byte(nil), r.Body...)}
			firstOrder = append(firstOrder, url)
		}
		return r, ""
	}
	for _, m := range mods {
		for _, ext := range []string{"info", "mod"} {
			url := reqURL(m.Path, m.Vers, ext)
			r, v := do(url)
			if v != "" {
				return v
			}
			want := infoOf(m)
			if ext == "mod" {
				want = modOf(m)
			}
			if r.Status != 200 || string(r.Body) != want {
				return fmt.Sprintf("GET %s = %d %q, stored .%s is %q", url, r.Status, r.Body, ext, want)
			}
		}
		url := reqURL(m.Path, m.Vers, "zip")
		r, v := do(url)
		if v != "" {
			return v
		}
		if r.Status != 200 {
			return fmt.Sprintf("GET %s = %d %q", url, r.Status, r.Body)
		}
		zr, err := zip.NewReader(bytes.NewReader(r.Body), int64(len(r.Body)))
		if err != nil {
			return fmt.Sprintf("GET %s: not a valid zip: %v", url, err)
		}
		want := map[string]string{}
		for _, f := range m.Files {
			if !strings.HasPrefix(f, ".") {
				want[m.Path+"@"+m.Vers+"/"+f] = fileData(m, f)
			}
		}
		got := map[string]string{}
		for _, zf := range zr.File {
			rc, err := zf.Open()
			if err != nil {
				return fmt.Sprintf("GET %s: zip entry %s: %v", url, zf.Name, err)
			}
			data, _ := io.ReadAll(rc)
			rc.Close()
			if _, dup := got[zf.Name]; dup {
				return fmt.Sprintf("GET %s: zip entry %s twice", url, zf.Name)
			}
			got[zf.Name] = string(data)
		}
		if fmt.Sprint(sortedKV(got)) != fmt.Sprint(sortedKV(want)) {
			return fmt.Sprintf("GET %s: zip holds %v, stored files (names not starting with a dot) are %v", url, sortedKV(got), sortedKV(want))
		}
		if st != nil {
			atomic.AddInt64(&st.zips, 1)
		}
	}
	// list
	allPaths := []string{}
	for p := range paths {
		allPaths = append(allPaths, p)
	}
	sort.Strings(allPaths)
	for _, p := range allPaths {
		var want []string
		for _, m := range mods {
			if m.Path == p && !isPseudo(m.Vers) && module.Check(m.Path, m.Vers) == nil {
				want = append(want, m.Vers)
			}
		}
		sort.Strings(want)
		url := reqURL(p, "", "list")
		r, v := do(url)
		if v != "" {
			return v
		}
		if len(want) == 0 {
			if r.Status != 404 && !(r.Status == 200 && len(bytes.TrimSpace(r.Body)) == 0) {
				return fmt.Sprintf("GET %s = %d %q, but no valid non-pseudo version is stored", url, r.Status, r.Body)
			}
			continue
		}
		var got []string
		if len(r.Body) > 0 {
			if !bytes.HasSuffix(r.Body, []byte("\n")) {
				return fmt.Sprintf("GET %s: body %q is not newline-terminated lines", url, r.Body)
			}
			got = strings.Split(strings.TrimSuffix(string(r.Body), "\n"), "\n")
		}
		sort.Strings(got)
		if r.Status != 200 || fmt.Sprint(got) != fmt.Sprint(want) {
			return fmt.Sprintf("GET %s = %d %q, the stored valid non-pseudo versions are %v", url, r.Status, r.Body, want)
		}
		if st != nil {
			atomic.AddInt64(&st.lists, 1)
		}
	}
	// near-misses: everything not stored is 404
	type miss struct{ path, vers, ext string }
	var misses []miss
	for _, m := range mods {
		for _, ext := range []string{"info", "mod", "zip"} {
			misses = append(misses,
				miss{m.Path, "v9.9.9", ext},
				miss{m.Path, m.Vers + "x", ext},
				miss{"a.com/other", m.Vers, ext},
				miss{"a.com", m.Vers, ext},
				miss{strings.ToLower(m.Path) + "x", m.Vers, ext},
				miss{m.Path + "/sub", m.Vers, ext},
			)
			if strings.ToLower(m.Path) != m.Path {
				misses = append(misses, miss{strings.ToLower(m.Path), m.Vers, ext})
			}
		}
		misses = append(misses, miss{m.Path, m.Vers, "foo"}, miss{m.Path, m.Vers, "infox"}, miss{m.Path + "x", "", "list"}, miss{"a.com/other", "", "list"})
	}
	for _, ms := range misses {
		if _, ok := stored[ms.path+"@"+ms.vers]; ok && (ms.ext == "info" || ms.ext == "mod" || ms.ext == "zip") {
			continue
		}
		if ms.ext == "list" && paths[ms.path] {
			continue
		}
		url := reqURL(ms.path, ms.vers, ms.ext)
		r, v := do(url)
		if v != "" {
			return v
		}
		if r.Status != 404 {
			return fmt.Sprintf("GET %s = %d %q, but nothing of that name is stored (want 404)", url, r.Status, head(r.Body))
		}
		if st != nil {
			atomic.AddInt64(&st.notFound, 1)
		}
	}
	// spellings the escaping rules forbid: a raw upper-case letter, a dangling or
	// doubled escape mark, in the path and in the version
	var rawURLs []string
	for _, m := range mods {
		ep, _ := module.EscapePath(m.Path)
		ev, _ := module.EscapeVersion(m.Vers)
		for _, ext := range []string{"info", "mod", "zip"} {
			rawURLs = append(rawURLs,
				"/mod/"+strings.ToUpper(ep[:1])+ep[1:]+"/@v/"+ev+"."+ext,
				"/mod/"+ep+"!/@v/"+ev+"."+ext,
				"/mod/"+ep+"/!!x/@v/"+ev+"."+ext,
				"/mod/"+ep+"/@v/"+strings.ToUpper(ev)+"."+ext,
				"/mod/"+ep+"/@v/"+ev+"!."+ext,
			)
		}
		rawURLs = append(rawURLs, "/mod/"+strings.ToUpper(ep[:1])+ep[1:]+"/@v/list", "/mod/"+ep+"!/@v/list", "/mod/"+ep+"/@v/"+ev)
	}
	for _, url := range rawURLs {
		r, v := do(url)
		if v != "" {
			return v
		}
		if r.Status != 404 {
			return fmt.Sprintf("GET %s = %d %q, but nothing of that name is stored (want 404)", url, r.Status, head(r.Body))
		}
		if st != nil {
			atomic.AddInt64(&st.notFound, 1)
		}
	}
	for _, url := range []string{"/mod/", "/other/a.com/m/@v/list", "/mod/a.com/m/v1.0.0.info", "/mod/a.com/m/@v/"} {
		r, v := do(url)
		if v != "" {
			return v
		}
		if r.Status != 404 {
			return fmt.Sprintf("GET %s = %d, want 404", url, r.Status)
		}
	}
	// every request once more, after all the others: the same answer, byte for byte
	for _, url := range firstOrder {
		r, pan := get(h, url)
		if pan != nil {
			return fmt.Sprintf("GET %s (repeated) panics: %v", url, pan)
		}
		f := first[url]
		if r.Status != f.Status || !bytes.Equal(r.Body, f.Body) {
			return fmt.Sprintf("GET %s answered %d %q the first time and %d %q when asked again after other requests", url, f.Status, head(f.Body), r.Status, head(r.Body))
		}
	}
	return ""
}

func head(b []byte) string {
	if len(b) > 60 {
		return string(b[:60]) + "..."
	}
	return string(b)
}

func sortedKV(m map[string]string) []string {
	var out []string
	for k, v := range m {
		out = append(out, k+"="+v)
	}
	sort.Strings(out)
	return out
}

type stats struct{ requests, zips, lists, notFound int64 }

// ---------- concurrency ----------

type creq struct {
	Path string `json:"path"`
	Vers string `json:"version"`
	Ext  string `json:"ext"`
	// Gone: the client of this request has gone away (cancelled context); what
	// it is answered does not matter, what the others are answered does
	Gone bool `json:"client_gone,omitempty"`
}

func (c creq) String() string {
	if c.Gone {
		return reqURL(c.Path, c.Vers, c.Ext) + " (client gone)"
	}
	return reqURL(c.Path, c.Vers, c.Ext)
}

func (c creq) do(h http.Handler) (response, any) {
	if c.Gone {
		return getGone(h, reqURL(c.Path, c.Vers, c.Ext))
	}
	return get(h, reqURL(c.Path, c.Vers, c.Ext))
}

type scenario struct {
	Name  string `json:"name"`
	Reqs  []creq `json:"requests"` // one thread each
	Bound int    `json:"bound"`
}

var concMods = []modVer{
	{"a.com/m", "v1.0.0", "txt", []string{"go.mod", "x.go", ".hidden"}},
	{"a.com/m", "v1.1.0", "dir", []string{"go.mod", "sub/y.go"}},
	{"a.com/n", "v1.0.0", "txtar", []string{"x.go"}},
}

type instance struct {
	sc   scenario
	dir  string
	srv  *goproxytest.Server
	resp []response
	pan  []any
	solo []response
}

func (in *instance) body() {
	vsync.ResetNames()
	srv, err := goproxytest.NewUnstartedVerif(in.dir, func(string, ...any) {})
	if err != nil {
		kit.UnderTestFailed("a server over the standard directory does not start: %v", err)
	}
	in.srv = srv
	h := srv.HandlerVerif()
	in.resp = make([]response, len(in.sc.Reqs))
	in.pan = make([]any, len(in.sc.Reqs))
	var wg sync.WaitGroup
	for i, rq := range in.sc.Reqs {
		i, rq := i, rq
		wg.Add(1)
		sched.Go(fmt.Sprintf("R%d", i+1), func() {
			defer wg.Done()
			in.resp[i], in.pan[i] = rq.do(h)
		})
	}
	if !sched.Active() {
		wg.Wait()
	}
}

func (in *instance) judge(e *sched.Exec) (string, string) {
	switch {
	case e.PanicVal != nil:
		return "panic", fmt.Sprintf("panic: %v\n%s", e.PanicVal, e.PanicStack)
	case e.Deadlock:
		return "deadlock", "deadlock: " + e.DeadlockAt
	case e.Livelock:
		return "livelock", e.LivelockWhy()
	}
	for i, rq := range in.sc.Reqs {
		if in.pan[i] != nil {
			return "handler-panic", fmt.Sprintf("GET %s panics under concurrency: %v", rq, in.pan[i])
		}
		if rq.Gone {
			continue
		}
		if in.resp[i].Status != in.solo[i].Status || !bytes.Equal(in.resp[i].Body, in.solo[i].Body) {
			return "response-differs", fmt.Sprintf("GET %s answered %d (%d bytes) under concurrency, %d (%d bytes) when issued alone", rq, in.resp[i].Status, len(in.resp[i].Body), in.solo[i].Status, len(in.solo[i].Body))
		}
	}
	return "", ""
}

func soloResponses(dir string, sc scenario) []response {
	out, v := soloResponsesV(dir, sc)
	if v != "" {
		kit.UnderTestFailed("%s", v)
	}
	return out
}

// soloResponsesV: every request of the scenario issued alone on a fresh server.
// A server that does not start over the standard directory, or a request that
// panics, is returned as a violation text.
func soloResponsesV(dir string, sc scenario) ([]response, string) {
	var out []response
	for _, rq := range sc.Reqs {
		srv, err := goproxytest.NewUnstartedVerif(dir, func(string, ...any) {})
		if err != nil || srv == nil {
			return nil, fmt.Sprintf("server does not start: %v", err)
		}
		r, pan := rq.do(srv.HandlerVerif())
		if pan != nil {
			return nil, fmt.Sprintf("GET %s panics: %v", rq, pan)
		}
		out = append(out, r)
	}
	return out, ""
}

type kase struct {
	Kind     string    `json:"kind"`
	Mods     []modVer  `json:"modules,omitempty"`
	Scenario *scenario `json:"scenario,omitempty"`
	Choices  []int     `json:"choices,omitempty"`
	Trace    []string  `json:"trace,omitempty"`
}

type shardResult struct {
	Executions int64   `json:"executions"`
	Steps      int64   `json:"steps"`
	States     int     `json:"states"`
	Capped     bool    `json:"capped"`
	Violations []kit.V `json:"violations"`
	Sample     []int   `json:"sample"`
}

func exploreConc(r *kit.Run, dir string, sc scenario) shardResult {
	var res shardResult
	solo, sv := soloResponsesV(dir, sc)
	if sv != "" {
		// nothing can be explored; the plain directory check reports and replays it
		res.Violations = append(res.Violations, kit.V{Key: "solo-request scenario=" + sc.Name, What: fmt.Sprintf("directory %v, requests of scenario %s issued alone: %s", concMods, sc.Name, sv), Case: kase{Kind: "solo", Scenario: &sc}})
		res.Capped = true
		return res
	}
	in := &instance{sc: sc, dir: dir, solo: solo}
	x := &sched.Explorer{Body: func() { in.body() }, Bound: sc.Bound, Horizon: 5000, Stop: r.Expired}
	if sc.Bound < 0 {
		x.Memo = sched.NewMemo()
		x.StateKey = func() string { return sched.Dump(in.srv) + fmt.Sprint(in.resp) }
	}
	x.Check = func(e *sched.Exec) bool {
		res.Steps += int64(e.Steps)
		class, what := in.judge(e)
		if class != "" {
			in2 := &instance{sc: sc, dir: dir, solo: in.solo}
			te := sched.Run(in2.body, sched.Options{Prefix: e.Choices, Trace: true, Horizon: 5000})
			res.Violations = append(res.Violations, kit.V{
				Key:  fmt.Sprintf("%s scenario=%q", class, sc.Name),
				What: fmt.Sprintf("%s: %s\nschedule: %s", sc.Name, what, strings.Join(te.Trace, " | ")),
				Case: kase{Kind: "schedule", Scenario: &sc, Choices: e.Choices, Trace: te.Trace},
			})
			return false
		}
		if res.Sample == nil && len(e.Choices) > 3 {
			res.Sample = append([]int(nil), e.Choices...)
		}
		return true
	}
	x.Run()
	res.Executions, res.Capped, res.States = x.Executions, x.Capped, x.Memo.Len()
	return res
}

func concScenarios(th bool) []scenario {
	b2, b3 := 5, 3
	if th {
		b2, b3 = 7, 4
	}
	m1 := func(ext string) creq { return creq{Path: "a.com/m", Vers: "v1.0.0", Ext: ext} }
	m2 := func(ext string) creq { return creq{Path: "a.com/m", Vers: "v1.1.0", Ext: ext} }
	n := func(ext string) creq { return creq{Path: "a.com/n", Vers: "v1.0.0", Ext: ext} }
	gone := func(c creq) creq { c.Gone = true; return c }
	return []scenario{
		{"zip||zip same module", []creq{m1("zip"), m1("zip")}, b2},
		{"zip||info same module", []creq{m1("zip"), m1("info")}, b2},
		{"info||mod same module (dir layout)", []creq{m2("info"), m2("mod")}, b2},
		{"zip||zip different modules", []creq{m1("zip"), n("zip")}, b2},
		{"zip||list", []creq{m1("zip"), creq{Path: "a.com/m", Ext: "list"}}, b2},
		{"info||mod||zip same module", []creq{m1("info"), m1("mod"), m1("zip")}, b3},
		{"zip||zip||zip same module", []creq{m2("zip"), m2("zip"), m2("zip")}, b3},
		{"zip||zip||info two modules", []creq{m1("zip"), n("zip"), n("info")}, b3},
		{"missing||zip", []creq{creq{Path: "a.com/m", Vers: "v9.9.9", Ext: "zip"}, m1("zip")}, b2},
		{"zip (client gone)||zip same module", []creq{gone(m1("zip")), m1("zip")}, b2},
		{"zip (client gone)||zip||info (dir layout)", []creq{gone(m2("zip")), m2("zip"), m2("info")}, b3},
		{"info (client gone)||zip||mod same module", []creq{gone(n("info")), n("zip"), n("mod")}, b3},
	}
}

// ---------- generator ----------

func allModVers(th bool) []modVer {
	paths := []string{"a.com/m", "a.com/Mixed/Case", "a.com/m/v2", "a.com/vault"}
	verss := []string{"v1.0.0", "v1.2.3-pre.1", "v2.0.0+incompatible", "v2.0.0", "v0.0.0-20200101000000-abcdef123456", "v1.1.0-rc-1", "v1.1.0-rc-1.0.20190301000000-dddddddddddd"}
	files := []string{"go.mod", "x.go", "sub/y.go", ".hidden", "sub/.h", "sub/.d/z.go", ".d/w.go", "sub/ln.go"}
	var out []modVer
	for _, p := range paths {
		for _, v := range verss {
			for _, l := range []string{"txt", "txtar", "dir"} {
				for mask := 0; mask < 1<<uint(len(files)); mask++ {
					var fs []string
					for i, f := range files {
						if mask&(1<<uint(i)) != 0 {
							fs = append(fs, f)
						}
					}
					out = append(out, modVer{p, v, l, fs})
				}
			}
		}
	}
	return out
}

func main() {
	for _, a := range os.Args[1:] {
		if a == "-racepass" || a == "--racepass" {
			raceMain()
			return
		}
	}
	r := kit.Start("C20", "model_checking")
	root, err := os.MkdirTemp(os.Getenv("VERIF_SCRATCH"), "c20")
	if err != nil {
		kit.Harness("mkdtemp: %v", err)
	}
	defer func() {
		if !kit.IsWorker() {
			os.RemoveAll(root)
		}
	}()
	concDir := filepath.Join(root, fmt.Sprintf("conc%d", os.Getpid()))
	var rseq int64
	r.Replayer = func(raw json.RawMessage) []kit.V {
		var c kase
		if err := json.Unmarshal(raw, &c); err != nil {
			kit.Harness("bad case: %v", err)
		}
		if c.Kind == "race" {
			return raceCheck()
		}
		if c.Kind == "solo" {
			schedMu.Lock()
			defer schedMu.Unlock()
			writeDir(concDir, concMods)
			if _, sv := soloResponsesV(concDir, *c.Scenario); sv != "" {
				return []kit.V{{Key: "solo-request scenario=" + c.Scenario.Name, What: sv, Case: c}}
			}
			return nil
		}
		if c.Kind == "real" {
			if v, _ := checkReal(filepath.Join(root, fmt.Sprintf("realreplay%d", atomic.AddInt64(&rseq, 1))), c.Mods); v != "" {
				return []kit.V{{Key: "real-server " + c.Mods[0].String(), What: v, Case: c}}
			}
			return nil
		}
		if c.Kind == "directory" {
			// The package may carry state from one server to the next in the same
			// process (a package-level pool or cache): a case that needs such history
			// is replayed several times, alternating with requests to a server over a
			// different directory. The oracle is a function of the responses of one
			// server, so a violation on any repetition is genuine.
			noise := []modVer{{Path: "n.org/x", Vers: "v1.0.0", Layout: "txtar"}, {Path: "n.org/y", Vers: "v2.0.0", Layout: "txt"}}
			for try := 0; try < 8; try++ {
				d := filepath.Join(root, fmt.Sprintf("replay%d", atomic.AddInt64(&rseq, 1)))
				if v := checkDirectory(d, c.Mods, nil); v != "" {
					return []kit.V{{Key: dirKey(v, c.Mods), What: v, Case: c}}
				}
				os.RemoveAll(d)
				nd := filepath.Join(root, fmt.Sprintf("replaynoise%d", atomic.AddInt64(&rseq, 1)))
				checkDirectory(nd, noise, nil)
				os.RemoveAll(nd)
			}
			return nil
		}
		schedMu.Lock() // one scheduler per process
		defer schedMu.Unlock()
		writeDir(concDir, concMods)
		in := &instance{sc: *c.Scenario, dir: concDir, solo: soloResponses(concDir, *c.Scenario)}
		e := sched.Run(in.body, sched.Options{Prefix: c.Choices, Trace: true, Horizon: 5000})
		class, what := in.judge(e)
		if class == "" {
			return nil
		}
		return []kit.V{{Key: fmt.Sprintf("%s scenario=%q", class, c.Scenario.Name), What: what, Case: c}}
	}
	// Several workers of the main pass serve different directories at the same
	// time in one process: a directory case that only fails in such company is
	// replayed next to servers over another directory.
	r.ConcurrentReplay = true
	r.Noise = func(i int) {
		nd := filepath.Join(root, fmt.Sprintf("noise%d", atomic.AddInt64(&rseq, 1)))
		checkDirectory(nd, []modVer{{Path: "n.org/x", Vers: "v1.0.0", Layout: "txtar", Files: []string{"a.go"}}, {Path: "n.org/y", Vers: "v2.0.0", Layout: "txt", Files: []string{"b.go", "c/d.go"}}}, nil)
		os.RemoveAll(nd)
	}
	r.MaybeReplay()

	// (b) concurrency first (sharded over worker processes; workers never reach part (a))
	writeDir(concDir, concMods)
	scs := concScenarios(r.Thorough())
	var tot shardResult
	r.JobName = func(j int) string { return fmt.Sprintf("scenario %v", scs[j]) }
	r.Sharded(len(scs), func(j int) any { return exploreConc(r, concDir, scs[j]) }, func(j int, raw json.RawMessage) {
		var sr shardResult
		if err := json.Unmarshal(raw, &sr); err != nil {
			kit.Harness("shard result: %v", err)
		}
		tot.Executions += sr.Executions
		tot.Steps += sr.Steps
		tot.States += sr.States
		tot.Capped = tot.Capped || sr.Capped
		for _, v := range sr.Violations {
			r.Violation(v.Key, v.What, v.Case)
		}
		if sr.Sample != nil && j%3 == 0 {
			r.Sample(map[string]any{"concurrent_requests": scs[j].Name, "choices": sr.Sample})
		}
	})
	if kit.IsWorker() {
		os.RemoveAll(root)
		return
	}
	for _, v := range raceCheck() {
		r.ViolationV(v)
	}

	// (a) fidelity
	all := allModVers(r.Thorough())
	var dirs [][]modVer
	for _, m := range all {
		dirs = append(dirs, []modVer{m})
	}
	// pairs: every pair of (path, version) with layouts and file sets varied systematically
	type pv struct{ p, v string }
	var pvs []pv
	seenPV := map[pv]bool{}
	for _, m := range all {
		k := pv{m.Path, m.Vers}
		if !seenPV[k] {
			seenPV[k] = true
			pvs = append(pvs, k)
		}
	}
	layouts := []string{"txt", "txtar", "dir"}
	fsets := [][]string{{"go.mod", "x.go"}, {"go.mod", ".hidden", "sub/.h", "sub/y.go", "sub/.d/z.go", ".d/w.go", "sub/ln.go"}, nil}
	// versions whose spelling ends like the extension of an archive file
	for _, v := range []string{"v1.0.0-rc.txt", "v1.0.0-rc.txtar", "v1.0.0-txt", "v1.0.0-rc.txt.1"} {
		for _, l := range layouts {
			for _, fs := range fsets {
				dirs = append(dirs, []modVer{{"a.com/m", v, l, fs}}, []modVer{{"a.com/m", v, l, fs}, {"a.com/m", "v1.0.0", "txt", fsets[0]}})
			}
		}
	}
	// archives (only they can) whose entry names are valid but not in their
	// shortest form: they are served under the names they are stored under
	for _, l := range []string{"txt", "txtar"} {
		for _, fs := range [][]string{{"go.mod", "sub//y.go"}, {"sub/./z.go", "x.go"}, {"a/../b.go", "go.mod", "sub/y.go"}, {"sub//y.go", "sub/y.go"}, {"./x.go"}} {
			dirs = append(dirs, []modVer{{"a.com/m", "v1.0.0", l, fs}}, []modVer{{"a.com/m/v2", "v2.0.0", l, fs}, {"a.com/m", "v1.0.0", "dir", fsets[0]}})
		}
	}
	// stored names at the file system's limit of 255 bytes: with ".txt" it still
	// fits and with ".txtar" it does not (238), or the bare directory name fits
	// and neither archive name does (239, 242)
	for _, n := range []int{230, 236, 237, 238, 239, 242} {
		p := "a.com/" + strings.Repeat("l", n)
		for _, l := range layouts {
			if len(storedName(modVer{Path: p, Vers: "v1.0.0"}))+len(l)+1 > 255 && l != "dir" {
				continue // this archive's own file name would be too long to create
			}
			dirs = append(dirs, []modVer{{p, "v1.0.0", l, fsets[0]}}, []modVer{{p, "v1.0.0", l, fsets[1]}, {"a.com/m", "v1.0.0", "txt", fsets[0]}})
		}
	}
	for i, a := range pvs {
		for j, b := range pvs {
			if j <= i {
				continue
			}
			for k := 0; k < 3; k++ {
				dirs = append(dirs, []modVer{
					{a.p, a.v, layouts[(i+k)%3], fsets[(j+k)%3]},
					{b.p, b.v, layouts[(j+2*k)%3], fsets[(i+k+1)%3]},
				})
				if r.Thorough() {
					for l, c := range pvs {
						if l <= j || (l+i)%4 != 0 {
							continue
						}
						dirs = append(dirs, []modVer{
							{a.p, a.v, layouts[(i+k)%3], fsets[(j+k)%3]},
							{b.p, b.v, layouts[(j+2*k)%3], fsets[(i+k+1)%3]},
							{c.p, c.v, layouts[(l+k)%3], fsets[(l+k)%3]},
						})
					}
				}
			}
		}
	}
	// directories in which the versions of one module are not neighbours in
	// directory order (a /v2 module sorts between v1 and v3+incompatible of its
	// root module; escaped upper-case letters sort before lower-case ones)
	fs := []string{"go.mod", "x.go"}
	dirs = append(dirs,
		[]modVer{{"a.com/m", "v1.0.0", "txt", fs}, {"a.com/m/v2", "v2.0.0", "txtar", fs}, {"a.com/m", "v3.0.0+incompatible", "dir", fs}},
		[]modVer{{"a.com/m", "v3.0.0+incompatible", "txt", fs}, {"a.com/m/v2", "v2.1.0", "dir", nil}, {"a.com/m", "v1.2.3-pre.1", "txtar", fs}, {"a.com/m", "v2.0.0+incompatible", "txt", nil}, {"a.com/m/v2", "v2.0.0", "txt", fs}},
		[]modVer{{"a.com/m", "v1.0.0", "dir", fs}, {"a.com/m/v2", "v2.0.0", "dir", fs}, {"a.com/m", "v3.0.0+incompatible", "dir", fs}, {"a.com/m", "v4.1.0+incompatible", "txtar", fs}},
		[]modVer{{"a.com/vault", "v1.0.0", "txt", fs}, {"a.com/v", "v1.0.0", "txt", fs}, {"a.com/vault", "v1.1.0", "txtar", fs}, {"a.com/v/v2", "v2.0.0", "txt", fs}, {"a.com/v", "v3.0.0+incompatible", "txt", fs}},
		[]modVer{{"a.com/Mixed/Case", "v1.0.0", "txt", fs}, {"a.com/Mixed/Case/v2", "v2.0.0", "txt", fs}, {"a.com/Mixed/Case", "v3.0.0+incompatible", "dir", fs}, {"a.com/m", "v1.0.0", "txt", fs}},
	)
	st := &stats{}
	var done int64
	var next int64 = -1
	var wg sync.WaitGroup
	nw := r.Workers()
	for w := 0; w < nw; w++ {
		wg.Add(1)
		go func(w int) {
			defer wg.Done()
			d := filepath.Join(root, fmt.Sprintf("fw%d", w))
			for {
				i := int(atomic.AddInt64(&next, 1))
				if i >= len(dirs) || r.Expired() {
					return
				}
				if v := checkDirectory(d, dirs[i], st); v != "" {
					r.Violation(dirKey(v, dirs[i]), fmt.Sprintf("directory %v: %s", dirs[i], v), kase{Kind: "directory", Mods: dirs[i]})
				}
				atomic.AddInt64(&done, 1)
			}
		}(w)
	}
	wg.Wait()
	r.Sample(map[string]any{"directory": fmt.Sprint(dirs[len(dirs)-7])})

	// a real Server over loopback for a sample of directories
	real := 0
	for i := 0; i < len(dirs); i += len(dirs)/25 + 1 {
		v, note := checkReal(filepath.Join(root, "real"), dirs[i])
		if note != "" {
			r.Set("real_server_note", note)
			break
		}
		if v != "" {
			r.Violation("real-server "+dirs[i][0].String(), v, kase{Kind: "real", Mods: dirs[i]})
			break
		}
		real++
	}

	r.Set("states", tot.Steps)
	r.Set("transitions", tot.Steps)
	r.Set("traces_validated_against_impl", tot.Executions+done)
	r.Set("concurrent_executions", tot.Executions)
	r.Set("concurrency_scenarios", len(scs))
	r.Set("directories_checked", done)
	r.Set("requests_issued", st.requests)
	r.Set("zip_responses_compared", st.zips)
	r.Set("list_responses_compared", st.lists)
	r.Set("not_stored_requests_404", st.notFound)
	r.Set("directories_served_by_a_real_listening_server", real)
	r.Set("exhaustive", !tot.Capped && !r.Capped())
	r.Set("explanation", "(a) every single module version from 4 paths (plain, mixed case, /v2 suffix, element starting with v) x 7 versions (release, pre-release, +incompatible, invalid-for-path v2.0.0, pseudo, a pre-release with a hyphen in its identifier and the pseudo-version derived from it) x 3 layouts x all 32 subsets of 5 files, and every pair of (path, version) with layouts and file sets varied systematically (thorough: triples); all stored .info/.mod/.zip, list per path, and a fixed menu of near-misses per stored version. (b) 9 scenarios of 2-3 concurrent first requests on a fresh server, every schedule with <= 5 preemptions (2 requests) / <= 3 (3 requests) (thorough 7 / 4) at the sync.Map/Mutex/atomic operations of par.Cache; each response must equal the one obtained alone; states = scheduling steps visited; plus a free-running pass of the same scenarios and three over a 200-file unsorted module in a -race build (sampling: plain data races are invisible to the cooperative scheduler)")
	r.Assume("requests whose version part is all lower-case hex are resolved as commit hashes by the handler and are not generated as near-misses (the statement defines nothing for them); module paths containing '_' are not representable in the directory naming scheme and are not generated")
	r.Finish()
}

// checkReal starts a real Server (NewServer, loopback listener) over mods and
// fetches the first module's .mod through it. note is set when the environment
// has no loopback interface (nothing to judge).
func checkReal(d string, mods []modVer) (viol, note string) {
	writeDir(d, mods)
	srv, err := goproxytest.NewServer(d, "localhost:0")
	if err != nil && strings.Contains(err.Error(), "cannot listen") {
		return "", "cannot listen on loopback: " + err.Error()
	}
	if err != nil || srv == nil {
		return fmt.Sprintf("NewServer over a directory holding %v fails: %v", mods, err), ""
	}
	defer srv.Close()
	m := mods[0]
	resp, err := http.Get(srv.URL + strings.TrimPrefix(reqURL(m.Path, m.Vers, "mod"), "/mod"))
	if err != nil {
		return fmt.Sprintf("real Server over %v: GET .mod of %s fails: %v", mods, m, err), ""
	}
	body, _ := io.ReadAll(resp.Body)
	resp.Body.Close()
	if resp.StatusCode != 200 || string(body) != modOf(m) {
		return fmt.Sprintf("real Server: GET .mod of %s = %d %q, stored %q", m, resp.StatusCode, body, modOf(m)), ""
	}
	// other spellings of a stored module's URLs (an empty, "." or ".." element)
	// name nothing that is stored: 404, not a redirect to the stored module
	noFollow := &http.Client{CheckRedirect: func(*http.Request, []*http.Request) error { return http.ErrUseLastResponse }}
	base := strings.TrimSuffix(srv.URL, "/mod")
	good := reqURL(m.Path, m.Vers, "info")
	i := strings.Index(good, "/@v/")
	for _, u := range []string{
		"/mod/x/.." + strings.TrimPrefix(good, "/mod"),
		"/mod/" + strings.Replace(strings.TrimPrefix(good, "/mod/"), "/", "//", 1),
		"/mod/." + strings.TrimPrefix(good, "/mod"),
		good[:i] + "/@v//" + good[i+len("/@v/"):],
		good[:i] + "/@v/./" + good[i+len("/@v/"):],
		good[:i] + "/x/../@v/" + good[i+len("/@v/"):],
		good[:i] + "/@v/x/../list",
		"/x/.." + good,
		"//mod" + strings.TrimPrefix(good, "/mod"),
	} {
		resp, err := noFollow.Get(base + u)
		if err != nil {
			return fmt.Sprintf("real Server over %v: GET %s fails: %v", mods, u, err), ""
		}
		io.Copy(io.Discard, resp.Body)
		resp.Body.Close()
		if resp.StatusCode != 404 {
			return fmt.Sprintf("real Server over %v: GET %s (another spelling of a stored module's URL, itself not stored) = %d %s, want 404", mods, u, resp.StatusCode, resp.Header.Get("Location")), ""
		}
	}
	return "", ""
}

func dirKey(v string, mods []modVer) string {
	f := strings.Fields(v)
	class := "mismatch"
	switch {
	case strings.Contains(v, "panics"):
		class = "panic"
	case strings.Contains(v, "want 404"):
		class = "not-404"
	case strings.Contains(v, "/@v/list"):
		class = "list"
	case strings.Contains(v, "zip"):
		class = "zip"
	case len(f) > 1 && (strings.HasSuffix(f[1], ".info") || strings.HasSuffix(f[1], ".mod")):
		class = "info-mod"
	}
	return fmt.Sprintf("%s directory=%v", class, mods)
}
