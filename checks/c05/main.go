// C05 — the cache returns exactly what was stored, or not-found, never other
// bytes (DESIGN.md §6 C05). Engine B: breadth-first search over histories of
// Put/lookup/damage operations on the real Cache over a real directory, every
// history replayed from scratch in a directory with a fresh name, states
// deduplicated on (canonical directory contents, reference model); engine E over
// index-entry byte strings.
package main

import (
	"bufio"
	"bytes"
	"crypto/sha256"
	"encoding/hex"
	"encoding/json"
	"fmt"
	"os"
	"os/exec"
	"path/filepath"
	"regexp"
	"sort"
	"strings"
	"sync"
	"sync/atomic"

	"github.com/rogpeppe/go-internal/cache"

	"verif/kit"
)

var contents = [][]byte{[]byte("x1\n"), []byte("yy22\n"), {}, []byte("z9\n")}
var contentName = []string{"X", "Y", "E", "Z"}
var outIDs [4]cache.OutputID
var ids = [2]cache.ActionID{}
var idName = []string{"A", "B"}
var missingOut cache.OutputID

func init() {
	for i, c := range contents {
		outIDs[i] = sha256.Sum256(c)
	}
	for i := range ids[0] {
		ids[0][i] = 0xa0 + byte(i%7)
		ids[1][i] = 0xb0 + byte(i%5)
	}
	for i := range missingOut {
		missingOut[i] = 0xcc
	}
}

func fileOf(dir string, id [32]byte, key string) string {
	return filepath.Join(dir, fmt.Sprintf("%02x", id[0]), fmt.Sprintf("%x-%s", id, key))
}

func entryBytes(id cache.ActionID, out cache.OutputID, size int64) []byte {
	return []byte(fmt.Sprintf("v1 %x %x %20d %20d\n", id, out, size, int64(1500000000000000000)))
}

// ---------- reference model ----------

type model struct {
	Content [2]int  // content last stored for the id, -1 none
	IdxOK   [2]bool // index entry untouched since that Put
	DataOK  [4]bool // data file of the content untouched since a Put of it
}

func newModel() model { return model{Content: [2]int{-1, -1}} }

func (m model) valid(i int) bool {
	return m.Content[i] >= 0 && m.IdxOK[i] && m.DataOK[m.Content[i]]
}

func (m model) String() string { return fmt.Sprintf("%v%v%v", m.Content, m.IdxOK, m.DataOK) }

// ---------- operations ----------

type env struct {
	dir string
	c   *cache.Cache
	m   model
}

type opDef struct {
	name   string
	lookup bool // must not change the directory contents
	// apply returns applicable=false if the operation has no target in this
	// state; viol is a violation detected by the operation itself.
	apply func(e *env) (applicable bool, viol string)
}

func catch(f func()) (pan any) {
	defer func() { pan = recover() }()
	f()
	return nil
}

func damageFile(path string, kind string, other []byte) bool {
	data, err := os.ReadFile(path)
	if err != nil {
		return false
	}
	switch kind {
	case "trunc0":
		os.WriteFile(path, nil, 0o666)
	case "truncHalf":
		os.WriteFile(path, data[:len(data)/2], 0o666)
	case "truncLast":
		if len(data) == 0 {
			return false
		}
		os.WriteFile(path, data[:len(data)-1], 0o666)
	case "extend":
		os.WriteFile(path, append(append([]byte(nil), data...), '!'), 0o666)
	case "flipFirst":
		if len(data) == 0 {
			return false
		}
		d := append([]byte(nil), data...)
		d[0] ^= 1
		os.WriteFile(path, d, 0o666)
	case "flipLast":
		if len(data) == 0 {
			return false
		}
		d := append([]byte(nil), data...)
		d[len(d)-1] ^= 1
		os.WriteFile(path, d, 0o666)
	case "delete":
		os.Remove(path)
	case "replace":
		os.WriteFile(path, other, 0o666)
	}
	return true
}

func buildOps() []opDef {
	var ops []opDef
	for i := range ids {
		for ci := range contents {
			i, ci := i, ci
			put := func(via int) func(e *env) (bool, string) {
				viaBytes := via == 1
				return func(e *env) (bool, string) {
					var err error
					pan := catch(func() {
						if viaBytes {
							err = e.c.PutBytes(ids[i], contents[ci])
						} else {
							var out cache.OutputID
							var size int64
							if via == 2 {
								out, size, err = e.c.PutNoVerify(ids[i], bytes.NewReader(contents[ci]))
							} else {
								out, size, err = e.c.Put(ids[i], bytes.NewReader(contents[ci]))
							}
							if err == nil && (out != outIDs[ci] || size != int64(len(contents[ci]))) {
								err = fmt.Errorf("Put returned OutputID %x size %d for %q", out, size, contents[ci])
							}
						}
					})
					if pan != nil {
						return true, fmt.Sprintf("Put panics: %v", pan)
					}
					if err != nil {
						return true, fmt.Sprintf("Put fails on a directory where only cache files were damaged: %v", err)
					}
					e.m.Content[i] = ci
					e.m.IdxOK[i] = true
					e.m.DataOK[ci] = true
					return true, ""
				}
			}
			ops = append(ops, opDef{name: fmt.Sprintf("Put(%s,%s)", idName[i], contentName[ci]), apply: put(0)})
			if ci < 2 {
				ops = append(ops, opDef{name: fmt.Sprintf("PutBytes(%s,%s)", idName[i], contentName[ci]), apply: put(1)})
			}
			if ci < 2 && i == 0 {
				ops = append(ops, opDef{name: fmt.Sprintf("PutNoVerify(%s,%s)", idName[i], contentName[ci]), apply: put(2)})
			}
		}
	}
	for i := range ids {
		i := i
		ops = append(ops,
			opDef{name: "Get(" + idName[i] + ")", lookup: true, apply: func(e *env) (bool, string) {
				if p := catch(func() { e.c.Get(ids[i]) }); p != nil {
					return true, fmt.Sprintf("Get panics: %v", p)
				}
				return true, ""
			}},
			opDef{name: "GetBytes(" + idName[i] + ")", lookup: true, apply: func(e *env) (bool, string) {
				if p := catch(func() { e.c.GetBytes(ids[i]) }); p != nil {
					return true, fmt.Sprintf("GetBytes panics: %v", p)
				}
				return true, ""
			}},
			opDef{name: "GetFile(" + idName[i] + ")", lookup: true, apply: func(e *env) (bool, string) {
				if p := catch(func() { e.c.GetFile(ids[i]) }); p != nil {
					return true, fmt.Sprintf("GetFile panics: %v", p)
				}
				return true, ""
			}},
		)
	}
	for ci := range contents[:2] {
		ci := ci
		ops = append(ops, opDef{name: "OutputFile(" + contentName[ci] + ")", lookup: true, apply: func(e *env) (bool, string) {
			var f string
			if p := catch(func() { f = e.c.OutputFile(outIDs[ci]) }); p != nil {
				return true, fmt.Sprintf("OutputFile panics: %v", p)
			}
			if f != fileOf(e.dir, outIDs[ci], "d") {
				return true, fmt.Sprintf("OutputFile names %q", f)
			}
			return true, ""
		}})
	}
	// damage to data files
	for ci := range contents {
		for _, kind := range []string{"trunc0", "truncHalf", "truncLast", "extend", "flipFirst", "flipLast", "delete", "replaceSameLen", "replaceOtherLen"} {
			ci, kind := ci, kind
			ops = append(ops, opDef{name: fmt.Sprintf("data(%s).%s", contentName[ci], kind), apply: func(e *env) (bool, string) {
				path := fileOf(e.dir, outIDs[ci], "d")
				var ok bool
				switch kind {
				case "replaceSameLen":
					other := bytes.Repeat([]byte("#"), len(contents[ci]))
					ok = damageFile(path, "replace", other)
				case "replaceOtherLen":
					ok = damageFile(path, "replace", contents[(ci+1)%4])
				default:
					ok = damageFile(path, kind, nil)
				}
				if ok {
					e.m.DataOK[ci] = false
				}
				return ok, ""
			}})
		}
	}
	// damage to index entries
	for i := range ids {
		for _, kind := range []string{"trunc0", "truncLast", "extend", "delete", "garbage", "flipIDByte", "flipSizeByte", "entryOfOther", "pointToMissing", "pointToX", "pointToY", "sizePlus1", "sizeOfOther"} {
			i, kind := i, kind
			ops = append(ops, opDef{name: fmt.Sprintf("index(%s).%s", idName[i], kind), apply: func(e *env) (bool, string) {
				path := fileOf(e.dir, ids[i], "a")
				cur, err := os.ReadFile(path)
				exists := err == nil
				ok := false
				switch kind {
				case "trunc0", "truncLast", "extend", "delete":
					ok = damageFile(path, kind, nil)
				case "garbage":
					if exists {
						ok = damageFile(path, "replace", bytes.Repeat([]byte("g"), len(cur)))
					}
				case "flipIDByte":
					if len(cur) > 5 {
						d := append([]byte(nil), cur...)
						d[5] ^= 1
						ok = damageFile(path, "replace", d)
					}
				case "flipSizeByte":
					if len(cur) == cache.EntrySizeVerif {
						d := append([]byte(nil), cur...)
						d[3+64+1+64+1+19] ^= 1 // last digit of the size
						ok = damageFile(path, "replace", d)
					}
				case "entryOfOther":
					if o, err := os.ReadFile(fileOf(e.dir, ids[1-i], "a")); err == nil {
						os.WriteFile(path, o, 0o666)
						ok = true
					}
				case "pointToMissing":
					os.WriteFile(path, entryBytes(ids[i], missingOut, 3), 0o666)
					ok = true
				case "pointToX":
					os.WriteFile(path, entryBytes(ids[i], outIDs[0], int64(len(contents[0]))), 0o666)
					ok = true
				case "pointToY":
					os.WriteFile(path, entryBytes(ids[i], outIDs[1], int64(len(contents[1]))), 0o666)
					ok = true
				case "sizePlus1":
					if e.m.Content[i] >= 0 {
						ci := e.m.Content[i]
						os.WriteFile(path, entryBytes(ids[i], outIDs[ci], int64(len(contents[ci]))+1), 0o666)
						ok = true
					}
				case "sizeOfOther":
					os.WriteFile(path, entryBytes(ids[i], outIDs[0], int64(len(contents[1]))), 0o666)
					ok = true
				}
				if ok {
					e.m.IdxOK[i] = false
				}
				return ok, ""
			}})
		}
	}
	return ops
}

// ---------- oracle evaluated in every state ----------

func notFound(err error) bool {
	return err != nil && strings.HasPrefix(err.Error(), "cache entry not found")
}

func oracle(e *env) string {
	c := cache.WithDirVerif(e.c, e.dir) // a fresh Cache value
	for i := range ids {
		var data []byte
		var ent cache.Entry
		var err error
		if p := catch(func() { data, ent, err = c.GetBytes(ids[i]) }); p != nil {
			return fmt.Sprintf("GetBytes(%s) panics: %v", idName[i], p)
		}
		if err != nil && !notFound(err) {
			return fmt.Sprintf("GetBytes(%s) fails with something other than not-found: %v", idName[i], err)
		}
		if err == nil && sha256.Sum256(data) != ent.OutputID {
			return fmt.Sprintf("GetBytes(%s) returned %q whose SHA-256 is not the reported OutputID %x", idName[i], data, ent.OutputID)
		}
		if e.m.valid(i) {
			want := contents[e.m.Content[i]]
			if err != nil {
				return fmt.Sprintf("GetBytes(%s) = %v although %s was stored for it and neither its index entry nor that data file was touched since a successful Put", idName[i], err, contentName[e.m.Content[i]])
			}
			if !bytes.Equal(data, want) {
				return fmt.Sprintf("GetBytes(%s) returned %q, stored %q", idName[i], data, want)
			}
		}
		var file string
		if p := catch(func() { file, ent, err = c.GetFile(ids[i]) }); p != nil {
			return fmt.Sprintf("GetFile(%s) panics: %v", idName[i], p)
		}
		if err != nil && !notFound(err) {
			return fmt.Sprintf("GetFile(%s) fails with something other than not-found: %v", idName[i], err)
		}
		if err == nil {
			info, serr := os.Stat(file)
			if serr != nil || info.Size() != ent.Size {
				return fmt.Sprintf("GetFile(%s) names %s but its length is not the reported size %d (%v)", idName[i], filepath.Base(file), ent.Size, serr)
			}
		}
		if e.m.valid(i) {
			want := contents[e.m.Content[i]]
			if err != nil {
				return fmt.Sprintf("GetFile(%s) = %v although %s was stored for it and nothing of it was touched since", idName[i], err, contentName[e.m.Content[i]])
			}
			got, _ := os.ReadFile(file)
			if !bytes.Equal(got, want) {
				return fmt.Sprintf("GetFile(%s) names a file holding %q, stored %q", idName[i], got, want)
			}
		}
		if p := catch(func() { c.Get(ids[i]) }); p != nil {
			return fmt.Sprintf("Get(%s) panics: %v", idName[i], p)
		}
	}
	return ""
}

// ---------- directory snapshots ----------

var subdirs []string

func init() {
	seen := map[string]bool{}
	add := func(b byte) {
		s := fmt.Sprintf("%02x", b)
		if !seen[s] {
			seen[s] = true
			subdirs = append(subdirs, s)
		}
	}
	add(ids[0][0])
	add(ids[1][0])
	for _, o := range outIDs {
		add(o[0])
	}
	add(missingOut[0])
	sort.Strings(subdirs)
}

// maskTime replaces the timestamp field of a syntactically complete index
// entry by a constant: C05 does not observe it.
func maskTime(name string, data []byte) []byte {
	if !strings.HasSuffix(name, "-a") || len(data) != cache.EntrySizeVerif {
		return data
	}
	off := 3 + 64 + 1 + 64 + 1 + 20 + 1
	f := data[off : off+20]
	t := strings.TrimLeft(string(f), " ")
	if t == "" {
		return data
	}
	for _, c := range t {
		if c < '0' || c > '9' {
			return data
		}
	}
	d := append([]byte(nil), data...)
	copy(d[off:], fmt.Sprintf("%20d", 0))
	return d
}

func snapshot(dir string) string {
	var sb strings.Builder
	top, _ := os.ReadDir(dir)
	for _, t := range top {
		if t.IsDir() && len(t.Name()) == 2 {
			continue
		}
		fmt.Fprintf(&sb, "TOP %s;", t.Name())
	}
	for _, sd := range subdirs {
		ents, _ := os.ReadDir(filepath.Join(dir, sd))
		for _, f := range ents {
			data, _ := os.ReadFile(filepath.Join(dir, sd, f.Name()))
			fmt.Fprintf(&sb, "%s/%s=%q;", sd, f.Name(), maskTime(f.Name(), data))
		}
	}
	return sb.String()
}

func clear(dir string) {
	top, _ := os.ReadDir(dir)
	for _, t := range top {
		if t.IsDir() && len(t.Name()) == 2 {
			continue
		}
		os.RemoveAll(filepath.Join(dir, t.Name()))
	}
	for _, sd := range subdirs {
		ents, _ := os.ReadDir(filepath.Join(dir, sd))
		for _, f := range ents {
			os.RemoveAll(filepath.Join(dir, sd, f.Name()))
		}
	}
}

// ---------- workers ----------

type worker struct {
	base string
	dir  string
	seq  int
	tmpl *cache.Cache
	ops  []opDef
}

func newWorker(root string, n int, ops []opDef) *worker {
	w := &worker{base: filepath.Join(root, fmt.Sprintf("w%d", n)), ops: ops}
	os.MkdirAll(w.base, 0o777)
	w.dir = filepath.Join(w.base, "h0")
	os.MkdirAll(w.dir, 0o777)
	c, err := cache.Open(w.dir)
	if err != nil {
		kit.UnderTestFailed("cache.Open of a fresh directory fails: %v", err)
	}
	w.tmpl = c
	return w
}

// fresh gives the cache directory a name never used before in this process, so
// that nothing keyed by path can leak from one history into the next.
func (w *worker) fresh() *env {
	w.seq++
	nd := filepath.Join(w.base, fmt.Sprintf("h%d", w.seq))
	if err := os.Rename(w.dir, nd); err != nil {
		kit.Harness("rename: %v", err)
	}
	w.dir = nd
	clear(nd)
	return &env{dir: nd, c: cache.WithDirVerif(w.tmpl, nd), m: newModel()}
}

type result struct {
	applicable bool
	viol       string
	key        string
}

// run replays hist (all operations must be applicable) and then op; the oracle
// is evaluated after the last operation.
func (w *worker) run(hist []int, op int) result {
	e := w.fresh()
	for _, h := range hist {
		ok, v := w.ops[h].apply(e)
		if !ok || v != "" {
			kit.UnderTestFailed("a history that ran cleanly before does not run cleanly again in a fresh directory (state kept outside the cache directory, e.g. leaked descriptors): %v, op %s: applicable=%v %s", hist, w.ops[h].name, ok, v)
		}
	}
	var before string
	if w.ops[op].lookup {
		before = snapshot(e.dir)
	}
	ok, v := w.ops[op].apply(e)
	if !ok {
		return result{}
	}
	if v != "" {
		return result{applicable: true, viol: v}
	}
	snap := snapshot(e.dir)
	if w.ops[op].lookup && snap != before {
		return result{applicable: true, viol: fmt.Sprintf("lookup changed the cache contents: before %s after %s", before, snap)}
	}
	if v := oracle(e); v != "" {
		return result{applicable: true, viol: v}
	}
	if s2 := snapshot(e.dir); s2 != snap {
		return result{applicable: true, viol: fmt.Sprintf("lookups changed the cache contents: before %s after %s", snap, s2)}
	}
	return result{applicable: true, key: snap + "|" + e.m.String()}
}

type kase struct {
	Kind    string   `json:"kind"` // "history" | "entry" | "odd"
	History []string `json:"history,omitempty"`
	Entry   []byte   `json:"entry,omitempty"`
	Odd     string   `json:"odd,omitempty"`
	Content int      `json:"content,omitempty"`
}

var oddKinds = []string{"symlink-to-itself", "dangling-symlink", "directory", "symlink-to-directory", "subdirectory-is-a-file", "unreadable"}

// checkOdd stores content ci for A and replaces its data file (or the file's
// directory) by a file-system object of another type; the lookups are judged
// by the usual oracle. (A FIFO is left out: reading it blocks for ever, also
// on the unchanged tree.)
func checkOdd(w *worker, kind string, ci int) string {
	e := w.fresh()
	c := cache.WithDirVerif(e.c, e.dir)
	if err := c.PutBytes(ids[0], contents[ci]); err != nil {
		kit.UnderTestFailed("PutBytes into a fresh cache fails: %v", err)
	}
	e.m.Content[0], e.m.IdxOK[0], e.m.DataOK[ci] = ci, true, false
	path := fileOf(e.dir, outIDs[ci], "d")
	sub := filepath.Dir(path)
	os.Remove(path)
	switch kind {
	case "symlink-to-itself":
		os.Symlink(filepath.Base(path), path)
	case "dangling-symlink":
		os.Symlink("nothing-here", path)
	case "directory":
		os.Mkdir(path, 0o777)
	case "symlink-to-directory":
		os.Symlink(".", path)
	case "subdirectory-is-a-file":
		if sub == filepath.Dir(fileOf(e.dir, ids[0], "a")) {
			return "" // the index entry lives there too
		}
		os.RemoveAll(sub)
		os.WriteFile(sub, []byte("not a directory\n"), 0o666)
	case "unreadable":
		os.WriteFile(path, contents[ci], 0)
	}
	v := oracle(e)
	if kind == "subdirectory-is-a-file" {
		os.Remove(sub)
		os.Mkdir(sub, 0o777)
	}
	os.RemoveAll(path)
	return v
}

func histNames(ops []opDef, hist []int, op int) []string {
	var n []string
	for _, h := range hist {
		n = append(n, ops[h].name)
	}
	return append(n, ops[op].name)
}

func violClass(v string) string {
	// paths under the scratch directory differ from run to run: not part of a class
	v = regexp.MustCompile(`"?/[^\s"]+"?`).ReplaceAllString(v, "<path>")
	f := strings.Fields(v)
	if len(f) > 3 {
		f = f[:3]
	}
	s := strings.Join(f, "-")
	return strings.Map(func(r rune) rune {
		if r == '(' || r == ')' || r == ',' || r == ':' {
			return -1
		}
		return r
	}, s)
}

func main() {
	if os.Getenv("C05_ENTRY_CHILD") != "" {
		entryChild()
		return
	}
	r := kit.Start("C05", "model_checking")
	ops := buildOps()
	byName := map[string]int{}
	for i, o := range ops {
		byName[o.name] = i
	}
	root, err := os.MkdirTemp(os.Getenv("VERIF_SCRATCH"), "c05")
	if err != nil {
		kit.Harness("mkdtemp: %v", err)
	}
	defer os.RemoveAll(root)
	r.Replayer = func(raw json.RawMessage) []kit.V {
		var c kase
		if err := json.Unmarshal(raw, &c); err != nil {
			kit.Harness("bad case: %v", err)
		}
		w := newWorker(root, 1000+int(atomic.AddInt64(&replaySeq, 1)), ops)
		if c.Kind == "entry" {
			return checkEntry(w, c.Entry)
		}
		if c.Kind == "odd" {
			if v := checkOdd(w, c.Odd, c.Content); v != "" {
				return []kit.V{{Key: violClass(v) + " data-file-is=" + c.Odd + " content=" + contentName[c.Content], What: v, Case: c}}
			}
			return nil
		}
		if c.Kind == "entry-isolated" {
			vs, _ := isolatedEntries(root, [][]byte{c.Entry})
			return vs
		}
		var hist []int
		for _, n := range c.History {
			i, ok := byName[n]
			if !ok {
				kit.Harness("unknown op %q", n)
			}
			hist = append(hist, i)
		}
		// a violation may be at any step of a replayed history: check every prefix
		for k := 1; k <= len(hist); k++ {
			res := w.run(hist[:k-1], hist[k-1])
			if res.viol != "" {
				return []kit.V{{Key: violClass(res.viol) + " history=" + strings.Join(c.History[:k], ";"), What: res.viol, Case: kase{Kind: "history", History: c.History[:k]}}}
			}
			if !res.applicable {
				return nil
			}
		}
		return nil
	}
	r.MaybeReplay()

	depth := 4
	if r.Thorough() {
		depth = 5
	}
	nw := r.Workers()
	workers := make([]*worker, nw)
	for i := range workers {
		workers[i] = newWorker(root, i, ops)
	}
	type state struct{ hist []int }
	seen := map[string]bool{}
	init := workers[0].run(nil, byName["Get(A)"])
	seen[init.key] = true
	frontier := []state{{nil}}
	r.Stuck = func(in []byte) kit.V {
		if len(in) > 0 && in[0] == 'E' {
			return kit.V{Key: "no-return index-entry=" + kit.Q(in[1:]), What: fmt.Sprintf("a lookup with the index entry %q on disk does not return", in[1:]), Case: kase{Kind: "entry", Entry: append([]byte(nil), in[1:]...)}}
		}
		h := ""
		if len(in) > 0 {
			h = string(in[1:])
		}
		return kit.V{Key: "no-return history=" + h, What: "an operation of the history " + h + " (or a lookup after it) does not return", Case: kase{Kind: "history", History: strings.Split(h, "; ")}}
	}
	var transitions, states int64 = 0, 1
	completed := 0
	perLevel := []string{}
	for d := 1; d <= depth && len(frontier) > 0; d++ {
		type out struct {
			hist []int
			op   int
			res  result
		}
		outs := make([][]out, nw)
		var next int64 = -1
		var wg sync.WaitGroup
		for wi := 0; wi < nw; wi++ {
			wg.Add(1)
			go func(wi int) {
				defer wg.Done()
				w := workers[wi]
				for {
					i := int(atomic.AddInt64(&next, 1))
					if i >= len(frontier) || r.Expired() {
						r.WatchDone(wi)
						return
					}
					for op := range ops {
						r.Watch(wi, []byte("H"+strings.Join(histNames(ops, frontier[i].hist, op), "; ")))
						res := w.run(frontier[i].hist, op)
						if !res.applicable {
							continue
						}
						atomic.AddInt64(&transitions, 1)
						outs[wi] = append(outs[wi], out{frontier[i].hist, op, res})
					}
				}
			}(wi)
		}
		wg.Wait()
		if r.Capped() {
			break
		}
		var all []out
		for _, o := range outs {
			all = append(all, o...)
		}
		sort.Slice(all, func(a, b int) bool {
			ha, hb := append(append([]int(nil), all[a].hist...), all[a].op), append(append([]int(nil), all[b].hist...), all[b].op)
			for i := range ha {
				if ha[i] != hb[i] {
					return ha[i] < hb[i]
				}
			}
			return false
		})
		var nf []state
		for _, o := range all {
			if o.res.viol != "" {
				names := histNames(ops, o.hist, o.op)
				r.Violation(violClass(o.res.viol)+" history="+strings.Join(names, ";"), fmt.Sprintf("after %s: %s", strings.Join(names, "; "), o.res.viol), kase{Kind: "history", History: names})
				continue
			}
			if seen[o.res.key] {
				continue
			}
			seen[o.res.key] = true
			states++
			h := append(append([]int(nil), o.hist...), o.op)
			nf = append(nf, state{h})
			if states%997 == 3 {
				r.Sample(strings.Join(histNames(ops, o.hist, o.op), "; "))
			}
		}
		frontier = nf
		completed = d
		perLevel = append(perLevel, fmt.Sprintf("depth %d: %d new states", d, len(nf)))
	}

	// ----- index-entry language -----
	w0 := workers[0]
	var entries, entryHits int64
	valid := entryBytes(ids[0], outIDs[0], int64(len(contents[0])))
	subs := []byte{' ', '0', '9', 'f', 'g', '-', '+', '\n', 'v', 0, 0xff, '1'}
	tryEntry := func(b []byte) {
		entries++
		r.Watch(0, append([]byte("E"), b...))
		vs := checkEntry(w0, b)
		for _, v := range vs {
			r.Violation(v.Key, v.What, v.Case)
		}
		if len(vs) == 0 && lastEntryHit {
			entryHits++
		}
	}
	for pos := range valid {
		for _, s := range subs {
			if valid[pos] == s {
				continue
			}
			b := append([]byte(nil), valid...)
			b[pos] = s
			tryEntry(b)
		}
	}
	for n := 0; n <= len(valid)+10; n++ {
		b := append([]byte(nil), valid...)
		if n <= len(valid) {
			b = b[:n]
		} else {
			b = append(b, bytes.Repeat([]byte{'\n'}, n-len(valid))...)
		}
		tryEntry(b)
	}
	// pairs inside the size and time fields
	sizeOff := 3 + 64 + 1 + 64 + 1
	fieldPos := []int{}
	lo := sizeOff + 14
	if r.Thorough() {
		lo = sizeOff
	}
	for p := lo; p < sizeOff+20; p++ {
		fieldPos = append(fieldPos, p)
	}
	for p := sizeOff + 21 + 16; p < sizeOff+41; p++ {
		fieldPos = append(fieldPos, p)
	}
	for _, p1 := range fieldPos {
		for _, p2 := range fieldPos {
			if p2 <= p1 {
				continue
			}
			for _, s1 := range subs[:7] {
				for _, s2 := range subs[:7] {
					b := append([]byte(nil), valid...)
					b[p1], b[p2] = s1, s2
					tryEntry(b)
				}
			}
		}
	}
	// file-system objects of the wrong type where a data file (or its directory)
	// should be: lookups must still answer not-found or verified bytes, never panic
	r.WatchDone(0)
	var odd int64
	for _, kind := range oddKinds {
		for ci := 0; ci < 3; ci++ {
			odd++
			if v := checkOdd(w0, kind, ci); v != "" {
				r.Violation(violClass(v)+" data-file-is="+kind+" content="+contentName[ci], fmt.Sprintf("%s stored, then its data file replaced by: %s: %s", contentName[ci], kind, v), kase{Kind: "odd", Odd: kind, Content: ci})
			}
		}
	}
	r.Set("odd_file_type_states", odd)

	// whole-field values: every boundary a 20-byte decimal field can hold
	sz := int64(len(contents[0]))
	fieldVals := []string{}
	for _, v := range []int64{0, 1, sz - 1, sz, sz + 1, 2 * sz, 1 << 16, 1 << 31, 1<<31 - 1, 1 << 32, 1 << 40, 1 << 47, 1 << 48, 1 << 56, 1<<62 - 1, 1 << 62, 1<<63 - 1, 9000000000000000003, -1, -sz, -1 << 63} {
		fieldVals = append(fieldVals, fmt.Sprintf("%20d", v), fmt.Sprintf("%020d", v), fmt.Sprintf("%-20d", v))
	}
	fieldVals = append(fieldVals, "09223372036854775808", " 9223372036854775808", "18446744073709551615", "99999999999999999999", "                 0x5", "                 +"+fmt.Sprint(sz), "                1e10", strings.Repeat(" ", 20), strings.Repeat("0", 20))
	// These run in a child process: a lookup that trusts a huge size field dies
	// with an unrecoverable runtime error rather than a panic.
	var isolated [][]byte
	for _, fv := range fieldVals {
		if len(fv) != 20 {
			continue
		}
		b := append([]byte(nil), valid...)
		copy(b[sizeOff:], fv)
		isolated = append(isolated, b)
		b = append([]byte(nil), valid...)
		copy(b[sizeOff+21:], fv)
		isolated = append(isolated, b)
		for _, fv2 := range fieldVals[:12] {
			b = append([]byte(nil), valid...)
			copy(b[sizeOff:], fv)
			copy(b[sizeOff+21:], fv2)
			isolated = append(isolated, b)
		}
	}
	ivs, ihits := isolatedEntries(root, isolated)
	entries += int64(len(isolated))
	entryHits += ihits
	for _, v := range ivs {
		r.Violation(v.Key, v.What, v.Case)
	}
	r.Sample(map[string]string{"index_entry": string(valid[:70]) + "...", "note": "every 1-byte substitution, every length, pairs in the size/time fields, boundary values of the whole size and time fields"})

	r.Set("states", states)
	r.Set("transitions", transitions)
	r.Set("traces_validated_against_impl", transitions)
	r.Set("depth_completed", completed)
	r.Set("operations_in_alphabet", len(ops))
	r.Set("new_states_per_level", perLevel)
	r.Set("index_entry_strings", entries)
	r.Set("index_entry_strings_accepted_as_hit", entryHits)
	r.Set("exhaustive", !r.Capped())
	r.Set("explanation", "states = distinct (directory contents with entry timestamps masked, reference-model state) reached by histories of <= depth_completed operations from the empty cache; every transition replays its whole history on the real Cache in a directory with a never-used name and evaluates the lookup gates and the reference model; transitions = histories executed")
	r.Assume("mtimes are not part of the C05 state (C13 covers them); damage operations are whole-file rewrites between cache calls, not concurrent with them (C11/C12)")
	r.Finish()
}

var replaySeq int64
var lastEntryHit bool

// checkEntry writes b as the index entry of A (with X's data file present) and
// checks that lookups do not panic and pass the gates.
func checkEntry(w *worker, b []byte) []kit.V {
	e := w.fresh()
	os.WriteFile(fileOf(e.dir, outIDs[0], "d"), contents[0], 0o666)
	os.WriteFile(fileOf(e.dir, ids[0], "a"), b, 0o666)
	lastEntryHit = false
	if v := oracle(e); v != "" {
		return []kit.V{{Key: violClass(v) + " index-entry=" + kit.Q(b), What: fmt.Sprintf("index entry %q: %s", b, v), Case: kase{Kind: "entry", Entry: b}}}
	}
	if _, _, err := e.c.GetBytes(ids[0]); err == nil {
		lastEntryHit = true
	}
	return nil
}

// entryChild serves checkEntry over stdin/stdout: one hex-encoded entry per
// line in, one JSON line out.
func entryChild() {
	w := newWorker(os.Getenv("C05_ENTRY_ROOT"), 5000+os.Getpid(), buildOps())
	in := bufio.NewScanner(os.Stdin)
	in.Buffer(make([]byte, 1<<16), 1<<20)
	out := bufio.NewWriter(os.Stdout)
	for in.Scan() {
		b, err := hex.DecodeString(in.Text())
		if err != nil {
			continue
		}
		vs := checkEntry(w, b)
		what, key := "", ""
		if len(vs) > 0 {
			what, key = vs[0].What, vs[0].Key
		}
		line, _ := json.Marshal(struct {
			What, Key string
			Hit       bool
		}{what, key, lastEntryHit})
		out.Write(line)
		out.WriteByte('\n')
		out.Flush()
	}
}

// isolatedEntries runs checkEntry for every entry in a child process (restarted
// when it dies). A child that dies while looking up an entry is a violation of
// "no lookup panics" for that entry.
func isolatedEntries(root string, entries [][]byte) (vs []kit.V, hits int64) {
	i := 0
	for i < len(entries) {
		cmd := exec.Command(os.Args[0])
		cmd.Env = append(os.Environ(), "C05_ENTRY_CHILD=1", "C05_ENTRY_ROOT="+root, "GOMAXPROCS=2", "GOTRACEBACK=single")
		var stderr bytes.Buffer
		cmd.Stderr = &stderr
		stdin, _ := cmd.StdinPipe()
		stdout, _ := cmd.StdoutPipe()
		if err := cmd.Start(); err != nil {
			kit.Harness("entry child: %v", err)
		}
		rd := bufio.NewReaderSize(stdout, 1<<20)
		for i < len(entries) {
			fmt.Fprintf(stdin, "%s\n", hex.EncodeToString(entries[i]))
			line, err := rd.ReadBytes('\n')
			if err != nil {
				stdin.Close()
				cmd.Wait()
				msg := stderr.String()
				if k := strings.Index(msg, "\n\n"); k > 0 {
					msg = msg[:k]
				}
				if len(msg) > 300 {
					msg = msg[:300]
				}
				if !strings.Contains(msg, "fatal error") && !strings.Contains(msg, "panic") && !strings.Contains(msg, "runtime") {
					kit.Harness("entry child died without a runtime error: %q", msg)
				}
				b := entries[i]
				vs = append(vs, kit.V{Key: "lookup-crash index-entry=" + kit.Q(b), What: fmt.Sprintf("index entry %q: a lookup killed the process: %s", b, strings.TrimSpace(msg)), Case: kase{Kind: "entry-isolated", Entry: b}})
				i++
				break
			}
			var res struct {
				What, Key string
				Hit       bool
			}
			json.Unmarshal(line, &res)
			if res.What != "" {
				b := entries[i]
				vs = append(vs, kit.V{Key: res.Key, What: res.What, Case: kase{Kind: "entry", Entry: b}})
			} else if res.Hit {
				hits++
			}
			i++
		}
		stdin.Close()
		cmd.Wait()
	}
	return vs, hits
}
