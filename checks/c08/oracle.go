package main

import (
	"bytes"
	"fmt"
	"strconv"
	"strings"
)

// An independent, strict reader and applier of unified diffs. Shares no code
// with the package under test.

type line struct {
	text string // without the newline
	nl   bool   // newline present
}

func splitLines(b []byte) []line {
	var out []line
	for len(b) > 0 {
		i := bytes.IndexByte(b, '\n')
		if i < 0 {
			out = append(out, line{string(b), false})
			break
		}
		out = append(out, line{string(b[:i]), true})
		b = b[i+1:]
	}
	return out
}

func join(ls []line) []byte {
	var bb bytes.Buffer
	for _, l := range ls {
		bb.WriteString(l.text)
		if l.nl {
			bb.WriteByte('\n')
		}
	}
	return bb.Bytes()
}

type bodyLine struct {
	op byte
	l  line
}

type hunk struct {
	os, oc, ns, nc int
	body           []bodyLine
}

const noNL = `\ No newline at end of file`

// parseUnified parses out (the bytes after nothing: including the header).
func parseUnified(out []byte, oldName, newName string) ([]hunk, error) {
	hdr := fmt.Sprintf("diff %s %s\n--- %s\n+++ %s\n", oldName, newName, oldName, newName)
	if !bytes.HasPrefix(out, []byte(hdr)) {
		return nil, fmt.Errorf("header is not the three lines diff/---/+++")
	}
	rest := out[len(hdr):]
	if len(rest) > 0 && rest[len(rest)-1] != '\n' {
		return nil, fmt.Errorf("output does not end in a newline")
	}
	var raw []string
	if len(rest) > 0 {
		raw = strings.Split(string(rest[:len(rest)-1]), "\n")
	}
	var hs []hunk
	i := 0
	for i < len(raw) {
		h, err := parseHunkHeader(raw[i])
		if err != nil {
			return nil, fmt.Errorf("line %d of hunks: %v", i+1, err)
		}
		i++
		co, cn := 0, 0
		for co < h.oc || cn < h.nc {
			if i >= len(raw) {
				return nil, fmt.Errorf("hunk @@ -%d,%d +%d,%d @@ body ends early (%d old, %d new lines seen)", h.os, h.oc, h.ns, h.nc, co, cn)
			}
			s := raw[i]
			if s == noNL {
				if len(h.body) == 0 {
					return nil, fmt.Errorf("no-newline marker with no line before it")
				}
				if !h.body[len(h.body)-1].l.nl {
					return nil, fmt.Errorf("two no-newline markers for one line")
				}
				h.body[len(h.body)-1].l.nl = false
				i++
				continue
			}
			if s == "" {
				return nil, fmt.Errorf("body line without prefix")
			}
			switch s[0] {
			case ' ':
				co++
				cn++
			case '-':
				co++
			case '+':
				cn++
			default:
				return nil, fmt.Errorf("body line %q has no ' ', '-' or '+' prefix", s)
			}
			if co > h.oc || cn > h.nc {
				return nil, fmt.Errorf("hunk @@ -%d,%d +%d,%d @@ body has more lines than its counts", h.os, h.oc, h.ns, h.nc)
			}
			h.body = append(h.body, bodyLine{s[0], line{s[1:], true}})
			i++
		}
		if i < len(raw) && raw[i] == noNL {
			if len(h.body) == 0 || !h.body[len(h.body)-1].l.nl {
				return nil, fmt.Errorf("stray no-newline marker")
			}
			h.body[len(h.body)-1].l.nl = false
			i++
		}
		hs = append(hs, h)
	}
	if len(hs) == 0 {
		return nil, fmt.Errorf("no hunks")
	}
	return hs, nil
}

func parseHunkHeader(s string) (hunk, error) {
	var h hunk
	if !strings.HasPrefix(s, "@@ -") || !strings.HasSuffix(s, " @@") {
		return h, fmt.Errorf("expected hunk header, got %q", s)
	}
	mid := strings.TrimSuffix(strings.TrimPrefix(s, "@@ -"), " @@")
	parts := strings.Split(mid, " +")
	if len(parts) != 2 {
		return h, fmt.Errorf("bad hunk header %q", s)
	}
	rng := func(p string) (int, int, error) {
		ab := strings.Split(p, ",")
		if len(ab) > 2 {
			return 0, 0, fmt.Errorf("bad range %q", p)
		}
		a, err := strconv.Atoi(ab[0])
		if err != nil || a < 0 || strconv.Itoa(a) != ab[0] {
			return 0, 0, fmt.Errorf("bad range %q", p)
		}
		c := 1
		if len(ab) == 2 {
			c, err = strconv.Atoi(ab[1])
			if err != nil || c < 0 || strconv.Itoa(c) != ab[1] {
				return 0, 0, fmt.Errorf("bad range %q", p)
			}
		}
		return a, c, nil
	}
	var err error
	if h.os, h.oc, err = rng(parts[0]); err != nil {
		return h, err
	}
	if h.ns, h.nc, err = rng(parts[1]); err != nil {
		return h, err
	}
	return h, nil
}

// apply applies hs to src. forward: ' ' and '-' lines are verified against src
// and '+' lines are produced; reverse swaps the roles of '-' and '+' and of the
// two ranges. Start lines must follow the unified-diff convention: 1-based
// index of the first line of the range, or the index of the line before it
// when the range is empty.
func apply(hs []hunk, src []line, reverse bool) ([]line, error) {
	var out []line
	cur := 0
	changes := 0
	for k, h := range hs {
		ss, sc, ds, dc := h.os, h.oc, h.ns, h.nc
		del, add := byte('-'), byte('+')
		if reverse {
			ss, sc, ds, dc = h.ns, h.nc, h.os, h.oc
			del, add = '+', '-'
		}
		idx := ss
		if sc > 0 {
			idx = ss - 1
		}
		if idx < cur {
			return nil, fmt.Errorf("hunk %d starts at source line index %d, before the end (%d) of the previous hunk: out of order or overlapping", k+1, idx, cur)
		}
		if idx > len(src) {
			return nil, fmt.Errorf("hunk %d starts beyond the end of the source", k+1)
		}
		out = append(out, src[cur:idx]...)
		cur = idx
		didx := ds
		if dc > 0 {
			didx = ds - 1
		}
		if didx != len(out) {
			return nil, fmt.Errorf("hunk %d: destination start line says index %d but the hunk lands at index %d", k+1, didx, len(out))
		}
		n0 := len(out)
		for _, bl := range h.body {
			switch bl.op {
			case ' ', del:
				if cur >= len(src) {
					return nil, fmt.Errorf("hunk %d: line %q beyond end of source", k+1, bl.l.text)
				}
				if src[cur] != bl.l {
					return nil, fmt.Errorf("hunk %d: line %d of source is %q (newline=%v) but the hunk says %q (newline=%v)", k+1, cur+1, src[cur].text, src[cur].nl, bl.l.text, bl.l.nl)
				}
				cur++
				if bl.op == ' ' {
					out = append(out, bl.l)
				} else {
					changes++
				}
			case add:
				out = append(out, bl.l)
				changes++
			}
		}
		if cur-idx != sc || len(out)-n0 != dc {
			return nil, fmt.Errorf("hunk %d: counts do not match body", k+1)
		}
	}
	if changes == 0 {
		return nil, fmt.Errorf("diff changes nothing")
	}
	out = append(out, src[cur:]...)
	return out, nil
}

// verify returns "" if out is a correct unified diff taking old to new.
func verify(old, new, out []byte) (string, int) {
	if bytes.Equal(old, new) {
		if out != nil && len(out) != 0 {
			return fmt.Sprintf("texts identical but Diff returned %q", out), 0
		}
		return "", 0
	}
	if len(out) == 0 {
		return "texts differ but Diff returned nothing", 0
	}
	hs, err := parseUnified(out, "old", "new")
	if err != nil {
		return "malformed: " + err.Error(), 0
	}
	got, err := apply(hs, splitLines(old), false)
	if err != nil {
		return "does not apply to old: " + err.Error(), len(hs)
	}
	if !bytes.Equal(join(got), new) {
		return fmt.Sprintf("applied to old gives %q, want new %q", join(got), new), len(hs)
	}
	back, err := apply(hs, splitLines(new), true)
	if err != nil {
		return "does not apply in reverse to new: " + err.Error(), len(hs)
	}
	if !bytes.Equal(join(back), old) {
		return fmt.Sprintf("applied in reverse to new gives %q, want old %q", join(back), old), len(hs)
	}
	return "", len(hs)
}
