// C08 — diff.Diff output is a correct, well-formed unified diff (DESIGN.md §6 C08).
// Engine E: every ordered pair of texts from several small generators; oracle =
// independent strict parser + forward/reverse applier (oracle.go).
package main

import (
	"bytes"
	"encoding/json"
	"fmt"
	"os"
	"os/exec"
	"path/filepath"
	"runtime"
	"strings"
	"sync"
	"sync/atomic"
	"time"

	"github.com/rogpeppe/go-internal/diff"

	"verif/kit"
)

type kase struct {
	Old []byte `json:"old"`
	New []byte `json:"new"`
	// Next*: a later call; the result for (Old, New) is inspected again after it
	// (a result must not share storage with anything a later call writes to)
	NextOld []byte `json:"next_old,omitempty"`
	NextNew []byte `json:"next_new,omitempty"`
	Seq     bool   `json:"sequence,omitempty"`
	// Concurrent: several goroutines call Diff at the same time
	Concurrent bool `json:"concurrent,omitempty"`
	// Consumer: a script whose failing cmp / cmpenv logs the diff
	Consumer *consumerCase `json:"consumer,omitempty"`
}

// concurrentProbe: Diff has no documented shared state, so concurrent callers
// must not disturb each other. Eight goroutines diff fixed pairs and verify
// every result; it runs until a failure shows or for at most two seconds of
// calls. Correct code can never fail it (each verification is of a pure result).
var quiet sync.RWMutex

func concurrentProbe() *kit.V {
	pairs := [][2]string{{"a\nb\nc\n", "a\nB\nc\n"}, {"l0\nl1\nl2\nl3\nl4\nl5\nl6\nl7\nl8\n", "r0\nl1\nl2\nl3\nl4\nl5\nl6\nl7\nr8"}, {"", "x\ny\n"}, {"p\nq\n", "q\n"}}
	var bad atomic.Value
	var wg sync.WaitGroup
	deadline := time.Now().Add(2 * time.Second)
	for g := 0; g < 8; g++ {
		wg.Add(1)
		go func(g int) {
			defer wg.Done()
			for i := 0; time.Now().Before(deadline) && bad.Load() == nil; i++ {
				p := pairs[(g+i)%len(pairs)]
				out, pan := diffSafe([]byte(p[0]), []byte(p[1]))
				if pan != nil {
					continue
				}
				runtime.Gosched()
				if msg, _ := verify([]byte(p[0]), []byte(p[1]), out); msg != "" {
					bad.Store(fmt.Sprintf("with 8 goroutines calling Diff at the same time, Diff(%q, %q) = %q: %s", p[0], p[1], out, msg))
				}
			}
		}(g)
	}
	wg.Wait()
	if b := bad.Load(); b != nil {
		return &kit.V{Key: "concurrent-callers-interfere", What: b.(string), Case: kase{Concurrent: true}}
	}
	return nil
}

// checkSequence: Diff(old,new), keep the result, Diff(nextOld,nextNew), then the
// kept result must be unchanged.
func checkSequence(old, new, nextOld, nextNew []byte) []kit.V {
	out, pan := diffSafe(old, new)
	if pan != nil || out == nil {
		return nil
	}
	cp := append([]byte(nil), out...)
	diffSafe(nextOld, nextNew)
	if string(cp) != string(out) {
		return []kit.V{{
			Key:  fmt.Sprintf("result-changed-by-later-call old=%s new=%s", kit.Q(old), kit.Q(new)),
			What: fmt.Sprintf("Diff(%q, %q) returned %q; after a later call Diff(%q, %q) the same slice reads %q", old, new, cp, nextOld, nextNew, out),
			Case: kase{Old: append([]byte(nil), old...), New: append([]byte(nil), new...), NextOld: append([]byte(nil), nextOld...), NextNew: append([]byte(nil), nextNew...), Seq: true},
		}}
	}
	return nil
}

func diffSafe(old, new []byte) (out []byte, pan any) {
	defer func() {
		if e := recover(); e != nil {
			pan = e
		}
	}()
	return diff.Diff("old", old, "new", new), nil
}

func checkPair(old, new []byte) (vs []kit.V, hunks int) {
	out, pan := diffSafe(old, new)
	msg := ""
	if pan != nil {
		msg = fmt.Sprintf("panic: %v", pan)
	} else {
		msg, hunks = verify(old, new, out)
	}
	if msg != "" {
		class := strings.SplitN(msg, ":", 2)[0]
		if w := strings.Fields(class); len(w) > 4 {
			class = strings.Join(w[:4], " ")
		}
		class = strings.ReplaceAll(class, " ", "-")
		vs = append(vs, kit.V{
			Key:  fmt.Sprintf("%s old=%s new=%s", class, kit.Q(old), kit.Q(new)),
			What: fmt.Sprintf("Diff(%q, %q) = %q: %s", old, new, out, msg),
			Case: kase{Old: append([]byte(nil), old...), New: append([]byte(nil), new...)},
		})
	}
	if msg == "" && len(old) <= 6 && len(new) <= 6 {
		// The same texts as the heads of larger buffers (slices with spare
		// capacity): same output, the texts untouched, nothing written behind them.
		mk := func(x []byte) []byte {
			b := make([]byte, len(x)+8)
			copy(b, x)
			for i := len(x); i < len(b); i++ {
				b[i] = 0xA5
			}
			return b
		}
		intact := func(b, x []byte) bool {
			for _, c := range b[len(x):] {
				if c != 0xA5 {
					return false
				}
			}
			return bytes.Equal(b[:len(x)], x)
		}
		bo, bn := mk(old), mk(new)
		out2, pan2 := diffSafe(bo[:len(old)], bn[:len(new)])
		what := ""
		switch {
		case pan2 != nil:
			what = fmt.Sprintf("panics when the texts are the heads of larger buffers: %v", pan2)
		case !intact(bo, old) || !intact(bn, new):
			what = fmt.Sprintf("changed its arguments or the bytes behind them: the buffers now hold %q and %q", bo, bn)
		case !bytes.Equal(out2, out):
			what = fmt.Sprintf("gives %q for slices of exact capacity and %q for the same texts at the heads of larger buffers", out, out2)
		}
		if what != "" {
			vs = append(vs, kit.V{
				Key:  fmt.Sprintf("arguments-with-spare-capacity old=%s new=%s", kit.Q(old), kit.Q(new)),
				What: fmt.Sprintf("Diff(%q, %q) %s", old, new, what),
				Case: kase{Old: append([]byte(nil), old...), New: append([]byte(nil), new...)},
			})
		}
	}
	return vs, hunks
}

// texts returns every text of <= n lines over the line alphabet, each with and
// without the final newline (the empty text once).
func texts(alpha []string, n int) [][]byte {
	var out [][]byte
	out = append(out, nil)
	var rec func(prefix string, k int)
	rec = func(prefix string, k int) {
		if k > 0 {
			out = append(out, []byte(prefix), []byte(strings.TrimSuffix(prefix, "\n")))
		}
		if k == n {
			return
		}
		for _, a := range alpha {
			rec(prefix+a+"\n", k+1)
		}
	}
	rec("", 0)
	// dedupe (an empty last line makes "a\n" minus newline = "a", fine; but "\n" minus newline = "" duplicates nil)
	seen := map[string]bool{}
	var uniq [][]byte
	for _, t := range out {
		if !seen[string(t)] {
			seen[string(t)] = true
			uniq = append(uniq, t)
		}
	}
	return uniq
}

type family struct {
	name  string
	count func() int64
	// each calls f for every pair of the family with index in shard w of nw
	each func(w, nw int, f func(old, new []byte))
}

func pairFamily(name string, ts [][]byte) family {
	return family{
		name:  name,
		count: func() int64 { return int64(len(ts)) * int64(len(ts)) },
		each: func(w, nw int, f func(old, new []byte)) {
			for i := w; i < len(ts); i += nw {
				for _, t := range ts {
					f(ts[i], t)
				}
			}
		},
	}
}

// moveFamily: old = n distinct lines l1..ln; new = every permutation of them
// (lines moved: what the anchoring of lines that occur once in both texts has to
// get right), each also with its last line dropped and with a fresh line put in
// the middle; and the same with a filler line "x" repeated at both ends of old.
func moveFamily(name string, n int) family {
	var perms [][]int
	var rec func(cur []int, used uint)
	rec = func(cur []int, used uint) {
		if len(cur) == n {
			perms = append(perms, append([]int(nil), cur...))
			return
		}
		for i := 0; i < n; i++ {
			if used&(1<<uint(i)) == 0 {
				rec(append(cur, i), used|1<<uint(i))
			}
		}
	}
	rec(nil, 0)
	return family{
		name:  name,
		count: func() int64 { return int64(len(perms)) * 6 },
		each: func(w, nw int, f func(old, new []byte)) {
			line := func(i int) string { return fmt.Sprintf("l%d\n", i+1) }
			var plain, padded strings.Builder
			padded.WriteString("x\n")
			for i := 0; i < n; i++ {
				plain.WriteString(line(i))
				padded.WriteString(line(i))
			}
			padded.WriteString("x\n")
			for pi := w; pi < len(perms); pi += nw {
				p := perms[pi]
				var full, short, ins strings.Builder
				for k, i := range p {
					full.WriteString(line(i))
					if k < n-1 {
						short.WriteString(line(i))
					}
					if k == n/2 {
						ins.WriteString("fresh\n")
					}
					ins.WriteString(line(i))
				}
				for _, old := range []string{plain.String(), padded.String()} {
					for _, nw := range []string{full.String(), short.String(), ins.String()} {
						f([]byte(old), []byte(nw))
					}
				}
			}
		},
	}
}

// editFamily: old = n lines; position i holds a unique line unless bit i of dup
// is set, in which case it holds the filler line "x". new is derived by one op
// per old line: 0 keep, 1 delete, 2 replace by a fresh line, 3 insert a fresh
// line before it and keep it. Both final-newline flags. All 4^n op vectors,
// for every dup pattern in dups.
func editFamily(name string, n int, dups []uint) family {
	total := int64(1) << (2 * uint(n))
	return family{
		name:  name,
		count: func() int64 { return total * int64(len(dups)) * 4 },
		each: func(w, nw int, f func(old, new []byte)) {
			for _, dup := range dups {
				var oldL []string
				for i := 0; i < n; i++ {
					if dup&(1<<uint(i)) != 0 {
						oldL = append(oldL, "x")
					} else {
						oldL = append(oldL, fmt.Sprintf("l%d", i))
					}
				}
				for v := int64(w); v < total; v += int64(nw) {
					var newL []string
					for i := 0; i < n; i++ {
						switch (v >> (2 * uint(i))) & 3 {
						case 0:
							newL = append(newL, oldL[i])
						case 1:
						case 2:
							newL = append(newL, fmt.Sprintf("r%d", i))
						case 3:
							newL = append(newL, fmt.Sprintf("n%d", i), oldL[i])
						}
					}
					o := strings.Join(oldL, "\n") + "\n"
					nw := ""
					if len(newL) > 0 {
						nw = strings.Join(newL, "\n") + "\n"
					}
					for fl := 0; fl < 4; fl++ {
						oo, nn := o, nw
						if fl&1 != 0 {
							oo = strings.TrimSuffix(oo, "\n")
						}
						if fl&2 != 0 {
							nn = strings.TrimSuffix(nn, "\n")
						}
						f([]byte(oo), []byte(nn))
					}
				}
			}
		},
	}
}

// sparseFamily: old = n distinct lines; new applies one of {delete, replace,
// insert-before} at every choice of at most k positions. Long enough for three
// and more hunks and for every gap length between changes.
func sparseFamily(name string, n, k int) family {
	var sets [][]int
	var rec func(start int, cur []int)
	rec = func(start int, cur []int) {
		if len(cur) > 0 {
			sets = append(sets, append([]int(nil), cur...))
		}
		if len(cur) == k {
			return
		}
		for i := start; i < n; i++ {
			rec(i+1, append(cur, i))
		}
	}
	rec(0, nil)
	var total int64
	for _, s := range sets {
		c := int64(1)
		for range s {
			c *= 3
		}
		total += c * 4
	}
	return family{
		name:  name,
		count: func() int64 { return total },
		each: func(w, nw int, f func(old, new []byte)) {
			oldL := make([]string, n)
			for i := range oldL {
				oldL[i] = fmt.Sprintf("l%d", i)
			}
			o := strings.Join(oldL, "\n") + "\n"
			for si := w; si < len(sets); si += nw {
				set := sets[si]
				combos := 1
				for range set {
					combos *= 3
				}
				for c := 0; c < combos; c++ {
					ops := map[int]int{}
					cc := c
					for _, p := range set {
						ops[p] = cc%3 + 1
						cc /= 3
					}
					var newL []string
					for i := 0; i < n; i++ {
						switch ops[i] {
						case 0:
							newL = append(newL, oldL[i])
						case 1:
						case 2:
							newL = append(newL, fmt.Sprintf("r%d", i))
						case 3:
							newL = append(newL, fmt.Sprintf("n%d", i), oldL[i])
						}
					}
					nn := strings.Join(newL, "\n") + "\n"
					for fl := 0; fl < 4; fl++ {
						oo, n2 := o, nn
						if fl&1 != 0 {
							oo = strings.TrimSuffix(oo, "\n")
						}
						if fl&2 != 0 {
							n2 = strings.TrimSuffix(n2, "\n")
						}
						f([]byte(oo), []byte(n2))
					}
				}
			}
		},
	}
}

func main() {
	r := kit.Start("C08", "exploration")
	r.Replayer = func(raw json.RawMessage) []kit.V {
		var c kase
		if err := json.Unmarshal(raw, &c); err != nil {
			kit.Harness("bad case: %v", err)
		}
		if c.Seq {
			return checkSequence(c.Old, c.New, c.NextOld, c.NextNew)
		}
		if c.Consumer != nil {
			if v := runConsumer(os.Getenv("VERIF_SCRATCH"), []consumerCase{*c.Consumer})[0]; v != "" {
				return []kit.V{{Key: consumerKey(v, *c.Consumer), What: v, Case: c}}
			}
			return nil
		}
		if c.Concurrent {
			if v := concurrentProbe(); v != nil {
				return []kit.V{*v}
			}
			return nil
		}
		wb := append([]byte{byte(len(c.Old) >> 24), byte(len(c.Old) >> 16), byte(len(c.Old) >> 8), byte(len(c.Old))}, append(append([]byte(nil), c.Old...), c.New...)...)
		defer r.WatchDone(127)
		// Diff is a pure function, so one evaluation decides. Should an
		// implementation keep state between calls (a pooled buffer), whether a
		// call meets that state depends on the runtime (garbage collections,
		// processor migration): the oracle is a function of one call's result, so
		// a violation on any repetition is genuine; the case is repeated.
		for try := 0; try < 300; try++ {
			r.Watch(127, wb) // per evaluation
			if vs, _ := checkPair(c.Old, c.New); len(vs) > 0 {
				return vs
			}
		}
		return nil
	}
	r.Stuck = func(in []byte) kit.V {
		if len(in) < 4 {
			return kit.V{Key: "no-return", What: "Diff does not return"}
		}
		n := int(in[0])<<24 | int(in[1])<<16 | int(in[2])<<8 | int(in[3])
		if n > len(in)-4 {
			n = len(in) - 4
		}
		old, new := in[4:4+n], in[4+n:]
		return kit.V{Key: "no-return old=" + kit.Q(old) + " new=" + kit.Q(new), What: fmt.Sprintf("Diff(%q, %q) does not return", old, new), Case: kase{Old: old, New: new}}
	}
	r.MaybeReplay()

	th := r.Thorough()
	pick := func(q, t int) int {
		if th {
			return t
		}
		return q
	}
	allDups := func(n int) []uint {
		var d []uint
		for i := uint(0); i < 1<<uint(n); i++ {
			d = append(d, i)
		}
		return d
	}
	fams := []family{
		pairFamily(fmt.Sprintf("all pairs of texts <= %d lines over {a,b,c}", pick(4, 5)), texts([]string{"a", "b", "c"}, pick(4, 5))),
		pairFamily(fmt.Sprintf("all pairs of texts <= %d lines over {a,b,c,d,e}", pick(3, 4)), texts([]string{"a", "b", "c", "d", "e"}, pick(3, 4))),
		pairFamily(fmt.Sprintf("all pairs of texts <= %d lines over {a,b}", pick(7, 9)), texts([]string{"a", "b"}, pick(7, 9))),
		moveFamily(fmt.Sprintf("every permutation of %d distinct lines (also with one line dropped, one added, filler lines around)", pick(7, 8)), pick(7, 8)),
		moveFamily("every permutation of 6 distinct lines", 6),
		moveFamily("every permutation of 4 distinct lines", 4),
		pairFamily("all pairs of texts <= 3 lines of diff-syntax look-alikes", texts([]string{"a", "-a", "+a", " a", "@@ -1 +1 @@", "@@ -1,1 +1,1 @@", `\ No newline at end of file`, "--- old", "+++ new", ""}, pick(2, 3))),
		pairFamily(fmt.Sprintf("all pairs of texts <= %d lines whose content must pass through untouched (format verbs, backslashes, tab, CR, NUL, invalid UTF-8)", pick(2, 3)), texts([]string{"%", "%d %s", "%%", "100%", `\\n`, `\\`, "\t", "a\r", "a", "\r", "\x00", "\xff\xfe", "é", "%!d(MISSING)"}, pick(2, 3))),
		editFamily(fmt.Sprintf("edit scripts (keep/delete/replace/insert per line) over %d distinct lines", pick(10, 12)), pick(10, 12), []uint{0}),
		editFamily(fmt.Sprintf("edit scripts over %d lines, every subset of positions replaced by a repeated filler line", pick(7, 8)), pick(7, 8), allDups(pick(7, 8))),
		sparseFamily(fmt.Sprintf("one of delete/replace/insert at every choice of <= %d positions among %d distinct lines", pick(3, 4), pick(24, 30)), pick(24, 30), pick(3, 4)),
		editFamily(fmt.Sprintf("edit scripts over %d lines with filler at alternating positions", pick(9, 10)), pick(9, 10), []uint{0x155, 0x2aa, 0x1c7, 0x38}),
	}
	var evals, unequal, aliased, unreproducible int64
	hunkHist := make([]int64, 8)
	nw := r.Workers()
	var famNames []string
	for _, fam := range fams {
		famNames = append(famNames, fmt.Sprintf("%s: %d pairs", fam.name, fam.count()))
		var wg sync.WaitGroup
		for w := 0; w < nw; w++ {
			wg.Add(1)
			go func(w int) {
				defer wg.Done()
				var n int64
				var prevOld, prevNew, prevOut, prevCopy []byte
				var watchBuf []byte
				fam.each(w, nw, func(old, new []byte) {
					n++
					if n&0x3fff == 0 && r.Expired() {
						return
					}
					if r.Capped() {
						return
					}
					atomic.AddInt64(&evals, 1)
					watchBuf = append(append(append(watchBuf[:0], byte(len(old)>>24), byte(len(old)>>16), byte(len(old)>>8), byte(len(old))), old...), new...)
					r.Watch(w, watchBuf)
					old, new = old[:len(old):len(old)], new[:len(new):len(new)]
					quiet.RLock()
					vs, h := checkPair(old, new)
					quiet.RUnlock()
					r.WatchDone(w)
					if len(vs) > 0 {
						// Diff is a pure function: a failure must show again at once. If it does
						// not, the result was disturbed by other callers (shared state inside the
						// package); the concurrent-callers probe below decides that.
						quiet.Lock() // no other caller of Diff is running now
						again, _ := checkPair(old, new)
						quiet.Unlock()
						if len(again) == 0 {
							atomic.AddInt64(&unreproducible, 1)
							vs = nil
						}
					}
					for _, v := range vs {
						r.Violation(v.Key, v.What, v.Case)
					}
					// the result of the previous call must not have been touched by this one
					if prevOut != nil && string(prevOut) != string(prevCopy) {
						for _, v := range checkSequence(prevOld, prevNew, old, new) {
							r.Violation(v.Key, v.What, v.Case)
						}
						atomic.AddInt64(&aliased, 1)
					}
					if n%64 == 0 {
						quiet.RLock()
						prevOld, prevNew = append(prevOld[:0], old...), append(prevNew[:0], new...)
						prevOut, _ = diffSafe(old, new)
						prevCopy = append(prevCopy[:0], prevOut...)
						quiet.RUnlock()
					}
					if string(old) != string(new) {
						c := atomic.AddInt64(&unequal, 1)
						if h >= len(hunkHist) {
							h = len(hunkHist) - 1
						}
						atomic.AddInt64(&hunkHist[h], 1)
						if h >= 2 && c%50021 == 0 {
							r.Sample(map[string]string{"old": string(old), "new": string(new), "hunks": fmt.Sprint(h)})
						}
					}
				})
			}(w)
		}
		wg.Wait()
	}
	r.Sample(map[string]string{"old": "l0\nl1\nl2\nl3\nl4\nl5\nl6\nl7\nl8\n", "new": "r0\nl1\nl2\nl3\nl4\nl5\nl6\nl7\nr8", "note": "member of the edit-script family (two changes separated by 7 common lines)"})
	for _, fam := range fams {
		if strings.HasPrefix(fam.name, "edit scripts (keep") {
			patchStride(r, fam, int64(pick(20011, 9973)))
		}
	}
	cs, cd := consumerPass(r, os.Getenv("VERIF_SCRATCH"), pick(2, 3))
	r.Set("scripts_whose_cmp_or_cmpenv_was_judged", cs)
	r.Set("of_which_logged_a_diff_that_was_applied", cd)
	r.Set("evaluations", evals)
	r.Set("distinct_nontrivial", unequal)
	r.Set("rule", "every ordered pair of each family (families overlap only in tiny texts); non-trivial = old != new, counted")
	r.Set("families", famNames)
	r.Set("pairs_by_number_of_hunks", hunkHist)
	if v := concurrentProbe(); v != nil {
		r.Violation(v.Key, v.What, v.Case)
	} else if unreproducible > 0 && r.Violations() == 0 {
		kit.Harness("%d verification failures did not repeat when the same pair was diffed again, and the concurrent-callers probe found nothing", unreproducible)
	}
	r.Set("results_found_modified_by_a_later_call", aliased)
	r.Set("exhaustive", !r.Capped())
	r.Assume("the unified-diff conventions checked are those of GNU diff/patch: 1-based start lines, start = preceding line for an empty range, '\\ No newline at end of file' binds to the line before it")
	r.Finish()
}

// patchStride pipes every stride-th pair of the family through /usr/bin/patch as
// a second applier (systematic stride, not random).
func patchStride(r *kit.Run, fam family, stride int64) {
	if _, err := exec.LookPath("patch"); err != nil {
		r.Set("patch_cross_check", "patch(1) not found; skipped")
		return
	}
	dir, err := os.MkdirTemp(os.Getenv("VERIF_SCRATCH"), "patch")
	if err != nil {
		kit.Harness("mkdtemp: %v", err)
	}
	defer os.RemoveAll(dir)
	var n, done int64
	fam.each(0, 1, func(old, new []byte) {
		n++
		if n%stride != 0 || string(old) == string(new) || r.Capped() {
			return
		}
		out, pan := diffSafe(old, new)
		if pan != nil || out == nil {
			return // reported by the main pass
		}
		of := filepath.Join(dir, "old")
		os.WriteFile(of, old, 0o666)
		os.WriteFile(filepath.Join(dir, "d"), out, 0o666)
		cmd := exec.Command("patch", "-s", "--no-backup-if-mismatch", "-F0", "-o", filepath.Join(dir, "res"), of, filepath.Join(dir, "d"))
		cmd.Dir = dir
		msg, err := cmd.CombinedOutput()
		res, _ := os.ReadFile(filepath.Join(dir, "res"))
		done++
		if err != nil || string(res) != string(new) {
			r.Violation(fmt.Sprintf("patch(1)-disagrees old=%s new=%s", kit.Q(old), kit.Q(new)),
				fmt.Sprintf("patch(1) applied Diff(%q,%q)=%q: err=%v output=%q result=%q", old, new, out, err, msg, res),
				kase{Old: old, New: new})
		}
	})
	r.Set("pairs_also_applied_with_patch(1)", done)
}
