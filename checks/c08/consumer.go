// The consumer named by the property: a failing cmp or cmpenv logs the diff
// that leads from its first file to what its second file was compared as
// (testscript/cmd.go, doCmdCmp). Scripts are run through the real RunT; the
// logged diff is cut out of the log and given to the same strict applier.
package main

import (
	"fmt"
	"os"
	"path/filepath"
	"strconv"
	"strings"

	"github.com/rogpeppe/go-internal/testscript"

	"verif/kit"
	"verif/tsh"
)

// consumerTexts: texts of <= n lines over lines with and without references to
// the script variable K, each with and without its final newline.
func consumerTexts(n int) []string {
	alpha := []string{"a", "$K", "w", "x ${K} y"}
	var out []string
	out = append(out, "")
	var rec func(cur []string)
	rec = func(cur []string) {
		if len(cur) > 0 {
			j := strings.Join(cur, "\n")
			out = append(out, j+"\n", j)
		}
		if len(cur) == n {
			return
		}
		for _, a := range alpha {
			rec(append(cur, a))
		}
	}
	rec(nil)
	return out
}

// expandK is the reference for what cmpenv compares against: K is set to "w".
func expandK(s string) string {
	return strings.ReplaceAll(strings.ReplaceAll(s, "${K}", "w"), "$K", "w")
}

type consumerCase struct {
	Cmd string `json:"cmd"` // cmp | cmpenv
	Old string `json:"first_file"`
	New string `json:"second_file"`
}

// cutDiff returns the diff logged between the command line and the FAIL entry.
func cutDiff(log string) (string, bool) {
	i := strings.Index(log, "diff old new\n")
	j := strings.LastIndex(log, "\nFAIL: ")
	if i < 0 || j < i {
		return "", false
	}
	// Logf adds one newline after the text it is given
	return log[i:j], true
}

// runConsumer runs the cases as one batch of scripts and returns a violation
// text per case ("" = fine).
func runConsumer(root string, cases []consumerCase) []string {
	dir, err := os.MkdirTemp(root, "consumer")
	if err != nil {
		kit.Harness("mkdtemp: %v", err)
	}
	defer os.RemoveAll(dir)
	var files []string
	for i, c := range cases {
		f := filepath.Join(dir, fmt.Sprintf("s%05d.txt", i))
		text := fmt.Sprintf("env K=w\nmk %d\n%s old new\n", i, c.Cmd)
		if err := os.WriteFile(f, []byte(text), 0o666); err != nil {
			kit.Harness("write: %v", err)
		}
		files = append(files, f)
	}
	t := tsh.NewT("goexit", false)
	p := testscript.Params{
		Files: files,
		Cmds: map[string]func(ts *testscript.TestScript, neg bool, args []string){
			"mk": func(ts *testscript.TestScript, neg bool, args []string) {
				k, _ := strconv.Atoi(args[0])
				ts.Check(os.WriteFile(ts.MkAbs("old"), []byte(cases[k].Old), 0o666))
				ts.Check(os.WriteFile(ts.MkAbs("new"), []byte(cases[k].New), 0o666))
			},
		},
	}
	t.RunRoot(func() { testscript.RunT(t, p) })
	if len(t.Results) != len(cases) {
		kit.UnderTestFailed("RunT was given %d scripts and ran %d subtests: %s", len(cases), len(t.Results), t.RootFatal)
	}
	out := make([]string, len(cases))
	for i, c := range cases {
		res := t.Results[i]
		want := c.New
		if c.Cmd == "cmpenv" {
			want = expandK(c.New)
		}
		switch {
		case res.Verdict == tsh.Panicked:
			out[i] = "panic: " + res.Panic
		case c.Old == want:
			if res.Verdict != tsh.Pass {
				out[i] = fmt.Sprintf("equal-reported-different: the first file and what the second is compared as are both %q, but the script is reported %s; log:\n%s", want, res.Verdict, res.Log)
			}
		case res.Verdict != tsh.Fail:
			out[i] = fmt.Sprintf("different-reported-equal: the first file is %q, the second is compared as %q, but the script is reported %s", c.Old, want, res.Verdict)
		default:
			d, ok := cutDiff(res.Log)
			if !ok {
				out[i] = fmt.Sprintf("no-diff-logged: the files differ (%q against %q) but the log holds no diff; log:\n%s", c.Old, want, res.Log)
				break
			}
			if msg, _ := verify([]byte(c.Old), []byte(want), []byte(d)); msg != "" {
				out[i] = fmt.Sprintf("logged-diff-wrong: %s old new with first file %q and second file %q (compared as %q) logs %q: %s", c.Cmd, c.Old, c.New, want, d, msg)
			}
		}
	}
	return out
}

func consumerKey(v string, c consumerCase) string {
	return fmt.Sprintf("consumer %s %s first=%s second=%s", strings.SplitN(v, ":", 2)[0], c.Cmd, kit.Q([]byte(c.Old)), kit.Q([]byte(c.New)))
}

// consumerPass: every ordered pair of texts, through cmp and through cmpenv.
func consumerPass(r *kit.Run, root string, n int) (scripts, diffs int64) {
	ts := consumerTexts(n)
	var all []consumerCase
	for _, cmd := range []string{"cmp", "cmpenv"} {
		for _, o := range ts {
			for _, nw := range ts {
				all = append(all, consumerCase{cmd, o, nw})
			}
		}
	}
	const batch = 400
	for i := 0; i < len(all); i += batch {
		if r.Capped() || r.Expired() {
			break
		}
		j := i + batch
		if j > len(all) {
			j = len(all)
		}
		for k, v := range runConsumer(root, all[i:j]) {
			c := all[i+k]
			scripts++
			want := c.New
			if c.Cmd == "cmpenv" {
				want = expandK(c.New)
			}
			if c.Old != want {
				diffs++
			}
			if v != "" {
				r.Violation(consumerKey(v, c), v, kase{Consumer: &c})
			}
		}
	}
	return scripts, diffs
}
