// C09 — par.Work runs every item exactly once, at most n at a time, and Do
// returns only when all are done; no deadlock, no lost wake-up (DESIGN.md §6 C09).
// Engine S on the real par/work.go (sync, math/rand redirected, `go` rewritten by
// vinstr from the live source).
package main

import (
	"context"
	"encoding/json"
	"flag"
	"fmt"
	"os"
	"os/exec"
	"runtime"
	"sort"
	"strings"
	"sync"
	"syscall"
	"time"

	"github.com/rogpeppe/go-internal/par"

	"verif/kit"
	"verif/sched"
	"verif/virt/vsync"
)

type graph struct {
	Name string
	Pre  []int
	Adds map[int][]int
	// Meet: f for this item, after its Adds, does not return before f has begun
	// for every listed item (calls that need each other: an idle runner must be
	// woken for a pending item even while the running calls do not finish).
	// MinN is the number of runners such a graph needs.
	Meet map[int][]int
	MinN int
}

var graphs = []graph{
	{"G1 single item", []int{1}, nil, nil, 0},
	{"G2 two pre-added", []int{1, 2}, nil, nil, 0},
	{"G3 1->{2,3}", []int{1}, map[int][]int{1: {2, 3}}, nil, 0},
	{"G4 chain 1->2->3", []int{1}, map[int][]int{1: {2}, 2: {3}}, nil, 0},
	{"G5 dups+cycle 1->{2,3},2->{3},3->{1}", []int{1}, map[int][]int{1: {2, 3}, 2: {3}, 3: {1}}, nil, 0},
	{"G6 pre-added duplicates {1,1,2}", []int{1, 1, 2}, nil, nil, 0},
	{"G7 empty", nil, nil, nil, 0},
	{"G8 1->{2},{3 pre}", []int{1, 3}, map[int][]int{1: {2}, 3: {2}}, nil, 0},
	{"G9 fan 1->{2,3,4}", []int{1}, map[int][]int{1: {2, 3, 4}}, nil, 0},
	// item 0 is the nil interface value, a legal item like any other comparable value
	{"G10 nil item pre-added {nil,1}", []int{0, 1}, nil, nil, 0},
	{"G11 nil item added by f 1->{nil,2}", []int{1}, map[int][]int{1: {0, 2}}, nil, 0},
	// an f that adds more items than the queue held when it started
	{"G12 tree 1->{2,3},2->{4,5}", []int{1}, map[int][]int{1: {2, 3}, 2: {4, 5}}, nil, 0},
	{"G13 tree {1,2 pre},1->{3,4,5}", []int{1, 2}, map[int][]int{1: {3, 4, 5}}, nil, 0},
	// distinct items that print alike or differ only in dynamic type
	{"G19 look-alikes {7, \"7\", int64(7), two pointers to equal structs, nil, \"<nil>\"}", []int{7, 8, 12, 9, 10, 0, 11}, nil, nil, 0},
	{"G20 look-alikes added by f 7->{\"7\", int64(7)}, ptrA->{ptrB}", []int{7, 9}, map[int][]int{7: {8, 12}, 9: {10}}, nil, 0},
	{"G14 1->{2,3}, f(2) and f(3) wait for each other", []int{1}, map[int][]int{1: {2, 3}}, map[int][]int{2: {3}, 3: {2}}, 2},
	{"G15 {1,2 pre}, f(1) and f(2) wait for each other", []int{1, 2}, nil, map[int][]int{1: {2}, 2: {1}}, 2},
	{"G16 1->{2,3}, f(1) waits until f(2) and f(3) have begun", []int{1}, map[int][]int{1: {2, 3}}, map[int][]int{1: {2, 3}}, 3},
	{"G17 1->{2}, f(1) waits until f(2) has begun", []int{1}, map[int][]int{1: {2}}, map[int][]int{1: {2}}, 2},
	{"G18 1->{2,3}, f(1) waits for f(2) and f(3) to begin, which wait for each other", []int{1}, map[int][]int{1: {2, 3}}, map[int][]int{1: {2, 3}, 2: {3}, 3: {2}}, 3},
}

// itemOf maps a graph node to the value handed to Work; node 0 is the nil
// interface, node 5 a string, the others ints, so that items of several dynamic
// types (all comparable) are in play.
type boxed struct{ v int }

// two distinct pointers to equal values: distinct items that print alike
var boxA, boxB = &boxed{1}, &boxed{1}

func itemOf(i int) any {
	switch i {
	case 0:
		return nil
	case 5:
		return "five"
	case 8:
		return "7" // prints like the int 7
	case 9:
		return boxA
	case 10:
		return boxB
	case 11:
		return "<nil>" // prints like the nil item
	case 12:
		return int64(7) // equal-looking, different dynamic type
	}
	return i
}

func idOf(item any) int {
	switch v := item.(type) {
	case nil:
		return 0
	case string:
		switch v {
		case "five":
			return 5
		case "7":
			return 8
		case "<nil>":
			return 11
		}
	case *boxed:
		if v == boxA {
			return 9
		}
		if v == boxB {
			return 10
		}
	case int64:
		if v == 7 {
			return 12
		}
	case int:
		return v
	}
	panic(fmt.Sprintf("f was called with a value that was never added: %#v", item))
}

func (g graph) reachable() map[int]bool {
	r := map[int]bool{}
	var visit func(i int)
	visit = func(i int) {
		if r[i] {
			return
		}
		r[i] = true
		for _, c := range g.Adds[i] {
			visit(c)
		}
	}
	for _, p := range g.Pre {
		visit(p)
	}
	return r
}

type scenario struct {
	N     int `json:"n"`
	Graph int `json:"graph"`
	Bound int `json:"bound"` // -1 unbounded (memo)
}

func (s scenario) String() string {
	b := "unbounded"
	if s.Bound >= 0 {
		b = fmt.Sprintf("preemptions<=%d", s.Bound)
	}
	return fmt.Sprintf("n=%d %s %s", s.N, graphs[s.Graph].Name, b)
}

type obs struct {
	mu           sync.Mutex
	Entered      map[int]int
	Exited       map[int]int
	InProg       int
	MaxInProg    int
	DoReturned   bool
	InProgAtRet  int
	PendingAtRet []int
}

type instance struct {
	sc scenario
	o  *obs
	w  *par.Work
}

func (in *instance) body() {
	vsync.ResetNames()
	g := graphs[in.sc.Graph]
	o := &obs{Entered: map[int]int{}, Exited: map[int]int{}}
	in.o = o
	w := new(par.Work)
	in.w = w
	for _, it := range g.Pre {
		w.Add(itemOf(it))
	}
	w.Do(in.sc.N, func(item any) {
		i := idOf(item)
		o.mu.Lock()
		o.Entered[i]++
		o.InProg++
		if o.InProg > o.MaxInProg {
			o.MaxInProg = o.InProg
		}
		o.mu.Unlock()
		sched.Point(sched.Op{Kind: "f-begin", Obj: fmt.Sprint(i)})
		for _, c := range g.Adds[i] {
			w.Add(itemOf(c))
		}
		if need, ok := g.Meet[i]; ok && sched.Active() {
			sched.Block(sched.Op{Kind: "f-waits-for", Obj: fmt.Sprint(need)}, func() bool {
				o.mu.Lock()
				defer o.mu.Unlock()
				for _, p := range need {
					if o.Entered[p] == 0 {
						return false
					}
				}
				return true
			})
		}
		sched.Point(sched.Op{Kind: "f-end", Obj: fmt.Sprint(i)})
		o.mu.Lock()
		o.InProg--
		o.Exited[i]++
		o.mu.Unlock()
	})
	o.mu.Lock()
	o.DoReturned = true
	o.InProgAtRet = o.InProg
	for it := range g.reachable() {
		if o.Exited[it] == 0 {
			o.PendingAtRet = append(o.PendingAtRet, it)
		}
	}
	sort.Ints(o.PendingAtRet)
	o.mu.Unlock()
}

// judge applies the oracle to a finished instance; returns "" or (class, description).
func (in *instance) judge() (string, string) {
	g := graphs[in.sc.Graph]
	o := in.o
	reach := g.reachable()
	for it := range reach {
		if o.Entered[it] != 1 || o.Exited[it] != 1 {
			return "not-exactly-once", fmt.Sprintf("item %d: f entered %d times, finished %d times (want 1/1)", it, o.Entered[it], o.Exited[it])
		}
	}
	for it, c := range o.Entered {
		if !reach[it] && c > 0 {
			return "not-exactly-once", fmt.Sprintf("item %d was never added but f ran for it", it)
		}
	}
	if o.MaxInProg > in.sc.N {
		return "too-many-in-progress", fmt.Sprintf("%d calls of f in progress at once, n=%d", o.MaxInProg, in.sc.N)
	}
	if !o.DoReturned {
		return "do-did-not-return", "Do did not return"
	}
	if o.InProgAtRet != 0 || len(o.PendingAtRet) > 0 {
		return "premature-return", fmt.Sprintf("Do returned while %d call(s) of f were in progress and items %v had not finished", o.InProgAtRet, o.PendingAtRet)
	}
	return "", ""
}

type kase struct {
	Scenario scenario `json:"scenario"`
	Choices  []int    `json:"choices"`
	Trace    []string `json:"trace,omitempty"`
}

type shardResult struct {
	Executions int64    `json:"executions"`
	Steps      int64    `json:"steps"`
	States     int      `json:"states"`
	MaxDepth   int      `json:"max_depth"`
	Pruned     int64    `json:"pruned"`
	Capped     bool     `json:"capped"`
	Outcomes   []string `json:"outcomes"`
	Violations []kit.V  `json:"violations"`
	Sample     *kase    `json:"sample,omitempty"`
	ReplayOK   bool     `json:"replay_ok"`
}

func judgeExec(in *instance, e *sched.Exec) (class, what string) {
	switch {
	case e.PanicVal != nil:
		return "panic", fmt.Sprintf("panic: %v\n%s", e.PanicVal, e.PanicStack)
	case e.Deadlock:
		return "deadlock", "deadlock (lost wake-up): " + e.DeadlockAt
	case e.Livelock:
		return "livelock", e.LivelockWhy()
	}
	return in.judge()
}

func runOnce(sc scenario, choices []int, trace bool) (*instance, *sched.Exec) {
	in := &instance{sc: sc}
	e := sched.Run(in.body, sched.Options{Prefix: choices, Trace: trace, Horizon: 5000})
	return in, e
}

func explore(r *kit.Run, sc scenario) shardResult {
	var res shardResult
	outcomes := map[string]bool{}
	in := &instance{sc: sc}
	x := &sched.Explorer{
		Body:    func() { in.body() },
		Bound:   sc.Bound,
		Horizon: 5000,
		Stop:    r.Expired,
	}
	if sc.Bound < 0 {
		x.Memo = sched.NewMemo()
		x.StateKey = func() string { return sched.Dump(in.w, in.o) }
	}
	x.Check = func(e *sched.Exec) bool {
		res.Steps += int64(e.Steps)
		class, what := judgeExec(in, e)
		if class != "" {
			_, te := runOnce(sc, e.Choices, true)
			res.Violations = append(res.Violations, kit.V{
				Key:  fmt.Sprintf("%s scenario=%q", class, sc.String()),
				What: fmt.Sprintf("%s: %s\nschedule: %s", sc, what, strings.Join(te.Trace, " | ")),
				Case: kase{sc, e.Choices, te.Trace},
			})
			return false
		}
		outcomes[fmt.Sprintf("max-in-progress=%d", in.o.MaxInProg)] = true
		if res.Sample == nil && len(e.Choices) > 3 {
			res.Sample = &kase{Scenario: sc, Choices: append([]int(nil), e.Choices...)}
		}
		return true
	}
	// determinism: the default schedule replayed twice must give identical traces
	_, e1 := runOnce(sc, nil, true)
	_, e2 := runOnce(sc, e1.Choices, true)
	res.ReplayOK = e1.NoYield != "" || strings.Join(e1.Trace, "|") == strings.Join(e2.Trace, "|")
	x.Run()
	res.Executions = x.Executions
	res.MaxDepth = x.MaxDepth
	res.Pruned = x.Pruned
	res.Capped = x.Capped
	res.States = x.Memo.Len()
	for o := range outcomes {
		res.Outcomes = append(res.Outcomes, o)
	}
	sort.Strings(res.Outcomes)
	return res
}

var racePass = flag.Bool("racepass", false, "free-running pass of the same bodies (build with -race, no overlay)")

func main() {
	r := kit.Start("C09", "model_checking")
	if *racePass {
		raceMain()
		return
	}
	r.Replayer = func(raw json.RawMessage) []kit.V {
		var c kase
		if err := json.Unmarshal(raw, &c); err != nil {
			kit.Harness("bad case: %v", err)
		}
		if c.Scenario.N == 0 {
			return raceCheck()
		}
		in, e := runOnce(c.Scenario, c.Choices, true)
		class, what := judgeExec(in, e)
		if class == "" {
			return nil
		}
		return []kit.V{{Key: fmt.Sprintf("%s scenario=%q", class, c.Scenario.String()), What: what + "\nschedule: " + strings.Join(e.Trace, " | "), Case: c}}
	}
	r.MaybeReplay()

	var scs []scenario
	for n := 1; n <= 3; n++ {
		for gi := range graphs {
			if strings.HasPrefix(graphs[gi].Name, "G19") || strings.HasPrefix(graphs[gi].Name, "G20") {
				// many items, and what is at stake (distinct items that look alike are
				// all run) does not depend on the schedule: a small bound suffices
				b := -1
				if n >= 2 {
					b = 1
				}
				if n <= 2 || r.Thorough() {
					scs = append(scs, scenario{n, gi, b})
				}
				continue
			}
			if graphs[gi].Meet != nil {
				// calls that need each other cannot complete with fewer runners
				if n < graphs[gi].MinN {
					continue
				}
				b := -1
				if n == 3 && !r.Thorough() {
					b = 3
				}
				scs = append(scs, scenario{n, gi, b})
				continue
			}
			tree := strings.HasPrefix(graphs[gi].Name, "G12") || strings.HasPrefix(graphs[gi].Name, "G13")
			switch {
			case r.Thorough() && n == 3 && tree:
				// the unbounded search of these two does not fit in memory
				scs = append(scs, scenario{n, gi, 3})
			case r.Thorough():
				scs = append(scs, scenario{n, gi, -1})
			case n <= 2 || !(strings.HasPrefix(graphs[gi].Name, "G9") || strings.HasPrefix(graphs[gi].Name, "G12") || strings.HasPrefix(graphs[gi].Name, "G13")):
				scs = append(scs, scenario{n, gi, -1})
			default:
				scs = append(scs, scenario{n, gi, 2})
			}
		}
	}
	if r.Thorough() {
		for gi := range graphs {
			if graphs[gi].Meet != nil || strings.HasPrefix(graphs[gi].Name, "G19") || strings.HasPrefix(graphs[gi].Name, "G20") {
				continue
			}
			scs = append(scs, scenario{4, gi, 2})
		}
	}
	var tot shardResult
	allOutcomes := map[string]bool{}
	var perScenario []string
	r.JobName = func(j int) string { return fmt.Sprintf("scenario %v", scs[j]) }
	r.Sharded(len(scs), func(job int) any { return explore(r, scs[job]) }, func(job int, raw json.RawMessage) {
		var sr shardResult
		if err := json.Unmarshal(raw, &sr); err != nil {
			kit.Harness("shard result: %v", err)
		}
		if !sr.ReplayOK {
			kit.Harness("nondeterministic replay in scenario %s", scs[job])
		}
		tot.Executions += sr.Executions
		tot.Steps += sr.Steps
		tot.States += sr.States
		tot.Pruned += sr.Pruned
		if sr.MaxDepth > tot.MaxDepth {
			tot.MaxDepth = sr.MaxDepth
		}
		if sr.Capped {
			tot.Capped = true
		}
		for _, o := range sr.Outcomes {
			allOutcomes[o] = true
		}
		for _, v := range sr.Violations {
			r.Violation(v.Key, v.What, v.Case)
		}
		if sr.Sample != nil {
			r.Sample(map[string]any{"scenario": scs[job].String(), "choices": sr.Sample.Choices})
		}
		perScenario = append(perScenario, fmt.Sprintf("%s: executions=%d states=%d capped=%v", scs[job], sr.Executions, sr.States, sr.Capped))
	})
	sort.Strings(perScenario)
	// race pass (sampling; discharges the side condition that no shared access
	// happens outside the hooked synchronisation operations)
	for _, v := range raceCheck() {
		r.ViolationV(v)
	}
	if tot.States == 0 {
		tot.States = 1
	}
	r.Set("states", tot.States)
	r.Set("transitions", tot.Steps)
	r.Set("traces_validated_against_impl", tot.Executions)
	r.Set("executions", tot.Executions)
	r.Set("pruned_on_known_state", tot.Pruned)
	r.Set("max_decisions_in_one_execution", tot.MaxDepth)
	r.Set("scenarios", perScenario)
	var oc []string
	for o := range allOutcomes {
		oc = append(oc, o)
	}
	sort.Strings(oc)
	r.Set("distinct_outcomes", oc)
	r.Set("exhaustive", !tot.Capped && !r.Capped())
	r.Set("explanation", "states = distinct global states (complete dump of the Work value incl. private fields, harness observation record, per-thread position/observation hash/pending op) summed over unbounded scenarios; transitions = scheduling steps executed; every execution runs the real par/work.go, so traces_validated_against_impl = executions")
	if tot.Capped {
		r.Expired()
	}
	r.Assume("scheduling points at Mutex.Lock, Cond.Wait/Signal/Broadcast, rand.Intn and two points inside f; Unlock is not a point (release operations are left-movers); unsynchronised accesses are delegated to the free-running -race pass")
	r.Assume("Cond.Signal may wake any waiter (documented contract), enumerated as a data choice")
	r.Finish()
}

// ---- race pass ----

func raceMain() {
	// free-running: scheduler inactive, real sync inside par (this binary is
	// built without the overlay and with -race)
	iters := 300
	for it := 0; it < iters; it++ {
		for gi := range graphs {
			for n := 1; n <= 4; n++ {
				in := &instance{sc: scenario{n, gi, 0}}
				in.body()
				if class, what := in.judge(); class != "" {
					fmt.Printf("RACEPASS-ORACLE %s: %s (n=%d %s)\n", class, what, n, graphs[gi].Name)
					os.Exit(3)
				}
			}
		}
	}
	// scale (free-running only; far beyond what the explorer can enumerate): a
	// backlog of thousands of items that drains completely while a call of f is
	// still to re-add an item that has run, and worker counts in the hundreds
	for _, n := range []int{1, 3, 64} {
		for _, leaves := range []int{1000, 1025, 3000} {
			if what := scaleBurst(n, leaves); what != "" {
				fmt.Printf("RACEPASS-ORACLE scale: %s\n", what)
				os.Exit(3)
			}
		}
	}
	for _, n := range []int{100, 255, 256, 257, 300, 1000} {
		if what := scaleChain(n, 50); what != "" {
			fmt.Printf("RACEPASS-ORACLE scale: %s\n", what)
			os.Exit(3)
		}
	}
	fmt.Println("racepass done")
}

// scaleBurst: the root adds `leaves` items; every leaf adds the root again (a
// duplicate) and its own successor. Every item exactly once.
func scaleBurst(n, leaves int) string {
	var mu sync.Mutex
	count := map[int]int{}
	w := new(par.Work)
	w.Add(0)
	w.Do(n, func(item any) {
		i := item.(int)
		mu.Lock()
		count[i]++
		mu.Unlock()
		if i == 0 {
			for k := 1; k <= leaves; k++ {
				w.Add(k)
			}
			return
		}
		w.Add(0)
		if i < leaves {
			w.Add(i + 1)
		}
	})
	for k := 0; k <= leaves; k++ {
		if count[k] != 1 {
			return fmt.Sprintf("Do(%d) with a root adding %d items that each re-add the root: f ran %d times for item %d (want once)", n, leaves, count[k], k)
		}
	}
	return ""
}

// scaleChain: a chain of `length` items under n workers must be run completely
// (a Do that never returns is caught by the deadline on this pass).
func scaleChain(n, length int) string {
	var mu sync.Mutex
	count := 0
	w := new(par.Work)
	w.Add(1)
	w.Do(n, func(item any) {
		i := item.(int)
		mu.Lock()
		count++
		mu.Unlock()
		if i < length {
			w.Add(i + 1)
		}
	})
	if count != length {
		return fmt.Sprintf("Do(%d) over a chain of %d items ran f %d times", n, length, count)
	}
	return ""
}

func raceCheck() []kit.V {
	bin := os.Getenv("VERIF_RACE_BIN")
	if bin == "" {
		return nil
	}
	// A Do that never returns would hang the free-running pass: it normally
	// takes seconds, so three minutes without finishing is reported.
	ctx, cancel := context.WithTimeout(context.Background(), 3*time.Minute)
	defer cancel()
	cmd := exec.CommandContext(ctx, bin, "-racepass")
	// the pass must not outlive this process (which may end early); the signal is
	// tied to the thread that starts the child, so this goroutine keeps its thread
	runtime.LockOSThread()
	defer runtime.UnlockOSThread()
	cmd.SysProcAttr = &syscall.SysProcAttr{Pdeathsig: syscall.SIGKILL}
	cmd.Env = append(os.Environ(), "GORACE=halt_on_error=1 exitcode=66")
	out, err := cmd.CombinedOutput()
	if err == nil {
		return nil
	}
	s := string(out)
	if ctx.Err() != nil {
		return []kit.V{{Key: "free-running-hang par", What: "the free-running pass did not finish within 3 minutes (a Do call never returned):\n" + firstLines(s, 5), Case: kase{}, NoConfirm: true}}
	}
	if strings.Contains(s, "WARNING: DATA RACE") {
		return []kit.V{{Key: "data-race par", What: "race detector report in the free-running pass:\n" + firstLines(s, 30), Case: kase{}, NoConfirm: true}}
	}
	if strings.Contains(s, "RACEPASS-ORACLE") {
		return []kit.V{{Key: "free-running-oracle par", What: firstLines(s, 5), Case: kase{}, NoConfirm: true}}
	}
	if strings.Contains(s, "panic: ") || strings.Contains(s, "fatal error: ") {
		// the code under test crashed in the free-running pass (the explorer reports the same crash with a schedule)
		return []kit.V{{Key: "free-running-crash par", What: "the free-running pass crashed:\n" + firstLines(s, 12), Case: kase{}, NoConfirm: true}}
	}
	kit.Harness("race pass failed: %v\n%s", err, firstLines(s, 20))
	return nil
}

func firstLines(s string, n int) string {
	l := strings.Split(s, "\n")
	if len(l) > n {
		l = l[:n]
	}
	return strings.Join(l, "\n")
}
