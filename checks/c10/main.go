// C10 — par.Cache computes each key once and publishes the result safely
// (DESIGN.md §6 C10). Engine S on the real par/work.go with sync and sync/atomic
// redirected (sequentially consistent interleavings), plus a free-running -race
// pass of the same bodies for what SC exploration cannot show.
package main

import (
	"context"
	"encoding/json"
	"flag"
	"fmt"
	"math"
	"os"
	"os/exec"
	"runtime"
	"sort"
	"strings"
	"sync"
	"syscall"
	"time"

	"github.com/rogpeppe/go-internal/par"

	"verif/kit"
	"verif/sched"
	"verif/virt/vsync"
)

type op struct {
	Do  bool `json:"do"`
	Key int  `json:"key"`
	// Inner: while it runs, f calls Do for this other key on the same cache
	// (a computation that needs another cached result); 0 = none
	Inner int `json:"inner,omitempty"`
}

func (o op) String() string {
	if o.Do && o.Inner != 0 {
		return fmt.Sprintf("Do(k%d){Do(k%d)}", o.Key, o.Inner)
	}
	if o.Do {
		return fmt.Sprintf("Do(k%d)", o.Key)
	}
	return fmt.Sprintf("Get(k%d)", o.Key)
}

type scenario struct {
	Progs [][]op `json:"progs"`
	Bound int    `json:"bound"`
	Nil   bool   `json:"nil,omitempty"` // every f returns the nil interface (a legal result)
}

func (s scenario) String() string {
	var ps []string
	for _, p := range s.Progs {
		var os []string
		for _, o := range p {
			os = append(os, o.String())
		}
		ps = append(ps, strings.Join(os, ";"))
	}
	b := "unbounded"
	if s.Bound >= 0 {
		b = fmt.Sprintf("preemptions<=%d", s.Bound)
	}
	if s.Nil {
		b += " f-returns-nil"
	}
	return strings.Join(ps, " || ") + " " + b
}

type value struct {
	Key, Seq int
}

// call records one Do/Get. No clocks: everything the oracle needs about real-time
// order is reduced to flags at the moment of the event, so that the record can be
// part of the global state key without making every path a new state.
type call struct {
	Thread     int
	Op         op
	Result     *value
	Returned   bool
	Early      bool // Do returned before the single invocation of f had completed
	MustSee    bool // Get was invoked after some Do for the key had returned
	Unfinished bool // Get returned a value while f had not completed
}

type obs struct {
	mu         sync.Mutex
	FCount     map[int]int
	FVal       map[int]*value // value returned by the first completed invocation
	FDone      map[int]bool   // some invocation of f for the key has completed
	DoReturned map[int]bool   // some Do for the key has returned
	Calls      [][]*call      // per thread
	Seq        int
	InnerWrong string
	// InnerCalled: an f that ran did call Do for this key (only the one f that
	// is invoked for the outer key gets to)
	InnerCalled map[int]bool
}

type instance struct {
	sc scenario
	o  *obs
	c  *par.Cache
}

func (in *instance) body() {
	vsync.ResetNames()
	o := &obs{FCount: map[int]int{}, FVal: map[int]*value{}, FDone: map[int]bool{}, DoReturned: map[int]bool{}, InnerCalled: map[int]bool{}, Calls: make([][]*call, len(in.sc.Progs))}
	in.o = o
	c := new(par.Cache)
	in.c = c
	var wg sync.WaitGroup // only meaningful free-running
	for ti, prog := range in.sc.Progs {
		ti, prog := ti, prog
		wg.Add(1)
		sched.Go(fmt.Sprintf("T%d", ti+1), func() {
			defer wg.Done()
			for _, p := range prog {
				p := p
				o.mu.Lock()
				cl := &call{Thread: ti + 1, Op: p, MustSee: !p.Do && o.DoReturned[p.Key]}
				o.Calls[ti] = append(o.Calls[ti], cl)
				o.mu.Unlock()
				var res any
				if p.Do {
					res = in.do(p.Key, p.Inner)
				} else {
					sched.MustNotBlock(+1)
					res = c.Get(cacheKey(p.Key))
					sched.MustNotBlock(-1)
				}
				o.mu.Lock()
				cl.Returned = true
				if p.Do {
					cl.Early = !o.FDone[p.Key]
					o.DoReturned[p.Key] = true
				} else if res != nil {
					cl.Unfinished = !o.FDone[p.Key]
				}
				if res != nil {
					cl.Result, _ = res.(*value)
					if cl.Result == nil {
						cl.Result = &value{-1, -1}
					}
				}
				o.mu.Unlock()
			}
		})
	}
	if !sched.Active() {
		wg.Wait()
	}
}

// cacheKey: key 3 stands for a key that is not equal to itself (a NaN): a valid
// map key; every Do with it is a first call.
func cacheKey(k int) any {
	if k == 3 {
		return math.NaN()
	}
	return k
}

// do calls Do(key); its f calls Do(inner) on the same cache if inner != 0.
func (in *instance) do(key, inner int) any {
	o := in.o
	return in.c.Do(cacheKey(key), func() any {
		o.mu.Lock()
		o.FCount[key]++
		o.Seq++
		v := &value{key, o.Seq}
		o.mu.Unlock()
		sched.Point(sched.Op{Kind: "f-running", Obj: fmt.Sprint(key)})
		if inner != 0 {
			o.mu.Lock()
			o.InnerCalled[inner] = true
			o.mu.Unlock()
			got := in.do(inner, 0)
			o.mu.Lock()
			if want := o.FVal[inner]; !o.FDone[inner] || (!in.sc.Nil && got != any(want)) || (in.sc.Nil && got != nil) {
				o.InnerWrong = fmt.Sprintf("the Do(k%d) made by f of k%d returned %v; the single invocation of its f returned %v (completed: %v)", inner, key, got, want, o.FDone[inner])
			}
			o.mu.Unlock()
		}
		o.mu.Lock()
		if !o.FDone[key] {
			o.FDone[key] = true
			if !in.sc.Nil {
				o.FVal[key] = v
			}
		}
		o.mu.Unlock()
		if in.sc.Nil {
			return nil
		}
		return v
	})
}

func (in *instance) judge() (string, string) {
	o := in.o
	anyDo := map[int]bool{}
	for _, cs := range o.Calls {
		for _, c := range cs {
			if c.Op.Do {
				anyDo[c.Op.Key] = true
				if c.Op.Inner != 0 && o.InnerCalled[c.Op.Inner] {
					anyDo[c.Op.Inner] = true
				}
			}
		}
	}
	if o.InnerWrong != "" {
		return "inner-do-wrong-value", o.InnerWrong
	}
	for k, n := range o.FCount {
		if n > 1 {
			return "f-more-than-once", fmt.Sprintf("f for key k%d invoked %d times", k, n)
		}
	}
	for k := range anyDo {
		if o.FCount[k] != 1 {
			return "f-not-invoked", fmt.Sprintf("Do(k%d) was called but f ran %d times", k, o.FCount[k])
		}
	}
	for _, cs := range o.Calls {
		for _, c := range cs {
			if !c.Returned {
				return "call-did-not-return", fmt.Sprintf("T%d %s did not return", c.Thread, c.Op)
			}
			want := o.FVal[c.Op.Key]
			if c.Op.Do {
				if c.Early {
					return "do-returned-early", fmt.Sprintf("T%d %s returned before the single invocation of f had completed", c.Thread, c.Op)
				}
				if (c.Result == nil && !in.sc.Nil) || c.Result != want {
					return "do-wrong-value", fmt.Sprintf("T%d %s returned %v, the single invocation of f returned %v", c.Thread, c.Op, c.Result, want)
				}
			} else {
				if c.Unfinished {
					return "get-before-completion", fmt.Sprintf("T%d %s returned a value before f completed", c.Thread, c.Op)
				}
				if c.Result != nil && c.Result != want {
					return "get-wrong-value", fmt.Sprintf("T%d %s returned %v, want nil or %v", c.Thread, c.Op, c.Result, want)
				}
				if c.Result == nil && c.MustSee && !in.sc.Nil {
					return "get-missed-value", fmt.Sprintf("T%d %s returned nil although a Do for the key had already returned", c.Thread, c.Op)
				}
			}
		}
	}
	return "", ""
}

type kase struct {
	Scenario scenario `json:"scenario"`
	Choices  []int    `json:"choices"`
	Trace    []string `json:"trace,omitempty"`
	Race     bool     `json:"race,omitempty"`
}

type shardResult struct {
	Executions int64    `json:"executions"`
	Steps      int64    `json:"steps"`
	States     int      `json:"states"`
	MaxDepth   int      `json:"max_depth"`
	Pruned     int64    `json:"pruned"`
	Capped     bool     `json:"capped"`
	Outcomes   []string `json:"outcomes"`
	Violations []kit.V  `json:"violations"`
	Sample     *kase    `json:"sample,omitempty"`
	ReplayOK   bool     `json:"replay_ok"`
}

func judgeExec(in *instance, e *sched.Exec) (class, what string) {
	switch {
	case e.PanicVal != nil:
		return "panic", fmt.Sprintf("panic: %v\n%s", e.PanicVal, e.PanicStack)
	case e.Deadlock:
		return "deadlock", "deadlock: " + e.DeadlockAt
	case e.Livelock:
		return "livelock", e.LivelockWhy()
	}
	if v := e.MustNotBlockViolation(); v != "" {
		return "get-blocks", "Get blocked: " + v
	}
	return in.judge()
}

func runOnce(sc scenario, choices []int, trace bool) (*instance, *sched.Exec) {
	in := &instance{sc: sc}
	e := sched.Run(in.body, sched.Options{Prefix: choices, Trace: trace, Horizon: 5000})
	return in, e
}

func outcomeOf(in *instance) string {
	var parts []string
	for _, cs := range in.o.Calls {
		for _, c := range cs {
			r := "nil"
			if c.Result != nil {
				r = "v"
			}
			parts = append(parts, fmt.Sprintf("T%d%s=%s", c.Thread, c.Op, r))
		}
	}
	sort.Strings(parts)
	return strings.Join(parts, ",")
}

func explore(r *kit.Run, sc scenario) shardResult {
	var res shardResult
	outcomes := map[string]bool{}
	in := &instance{sc: sc}
	x := &sched.Explorer{Body: func() { in.body() }, Bound: sc.Bound, Horizon: 5000, Stop: r.Expired}
	if sc.Bound < 0 {
		x.Memo = sched.NewMemo()
		x.StateKey = func() string { return sched.Dump(in.c, in.o) }
	}
	x.Check = func(e *sched.Exec) bool {
		res.Steps += int64(e.Steps)
		class, what := judgeExec(in, e)
		if class != "" {
			_, te := runOnce(sc, e.Choices, true)
			res.Violations = append(res.Violations, kit.V{
				Key:  fmt.Sprintf("%s scenario=%q", class, sc.String()),
				What: fmt.Sprintf("%s: %s\nschedule: %s", sc, what, strings.Join(te.Trace, " | ")),
				Case: kase{Scenario: sc, Choices: e.Choices, Trace: te.Trace},
			})
			return false
		}
		outcomes[outcomeOf(in)] = true
		if res.Sample == nil && len(e.Choices) > 2 {
			res.Sample = &kase{Scenario: sc, Choices: append([]int(nil), e.Choices...)}
		}
		return true
	}
	_, e1 := runOnce(sc, nil, true)
	_, e2 := runOnce(sc, e1.Choices, true)
	res.ReplayOK = e1.NoYield != "" || strings.Join(e1.Trace, "|") == strings.Join(e2.Trace, "|")
	x.Run()
	res.Executions, res.MaxDepth, res.Pruned, res.Capped, res.States = x.Executions, x.MaxDepth, x.Pruned, x.Capped, x.Memo.Len()
	for o := range outcomes {
		res.Outcomes = append(res.Outcomes, o)
	}
	return res
}

var racePass = flag.Bool("racepass", false, "free-running pass (build with -race, no overlay)")

func programs(maxOps int) [][]op {
	alpha := []op{{Do: true, Key: 1}, {Do: true, Key: 2}, {Do: false, Key: 1}, {Do: false, Key: 2}}
	var out [][]op
	var rec func(cur []op)
	rec = func(cur []op) {
		if len(cur) > 0 {
			out = append(out, append([]op(nil), cur...))
		}
		if len(cur) == maxOps {
			return
		}
		for _, a := range alpha {
			rec(append(cur, a))
		}
	}
	rec(nil)
	return out
}

// multisets of k programs (threads are symmetric)
func multisets(progs [][]op, k int) [][][]op {
	var out [][][]op
	var rec func(start int, cur [][]op)
	rec = func(start int, cur [][]op) {
		if len(cur) == k {
			out = append(out, append([][]op(nil), cur...))
			return
		}
		for i := start; i < len(progs); i++ {
			rec(i, append(cur, progs[i]))
		}
	}
	rec(0, nil)
	return out
}

func usesKey1First(ps [][]op) bool {
	// key symmetry: keep only scenarios whose first mentioned key is k1
	return ps[0][0].Key == 1
}

func scenarios(th bool) []scenario {
	var scs []scenario
	for _, ms := range multisets(programs(2), 2) {
		if usesKey1First(ms) {
			scs = append(scs, scenario{Progs: ms, Bound: -1})
		}
	}
	for _, ms := range multisets(programs(1), 3) {
		if usesKey1First(ms) {
			scs = append(scs, scenario{Progs: ms, Bound: -1})
		}
	}
	// the same scenarios with every f returning nil
	hasDo := func(ps [][]op) bool {
		for _, p := range ps {
			for _, o := range p {
				if o.Do {
					return true
				}
			}
		}
		return false
	}
	for _, sc := range append([]scenario(nil), scs...) {
		if hasDo(sc.Progs) {
			sc.Nil = true
			scs = append(scs, sc)
		}
	}
	// computations that need another key's result: f of k1 calls Do(k2)
	nest := op{Do: true, Key: 1, Inner: 2}
	for _, ps := range [][][]op{
		{{nest}},
		{{nest}, {{Do: true, Key: 2}}},
		{{nest}, {{Do: false, Key: 2}, {Do: true, Key: 1}}},
		{{nest}, {nest}},
		{{nest}, {{Do: true, Key: 2}}, {{Do: true, Key: 1}}},
		{{nest, {Do: false, Key: 2}}, {{Do: true, Key: 2}, {Do: false, Key: 1}}},
	} {
		scs = append(scs, scenario{Progs: ps, Bound: -1}, scenario{Progs: ps, Bound: -1, Nil: true})
	}
	// a key that is not equal to itself: one call, which must run f and return
	// what it returned
	scs = append(scs, scenario{Progs: [][]op{{{Do: true, Key: 3}}}, Bound: -1}, scenario{Progs: [][]op{{{Do: true, Key: 3}}, {{Do: true, Key: 1}}}, Bound: -1})
	// three threads, up to two calls each: quick takes those with at most 4 calls
	// in total, thorough all of them (up to 6 calls)
	maxTotal := 5
	if th {
		maxTotal = 6
	}
	for _, ms := range multisets(programs(2), 3) {
		if !usesKey1First(ms) {
			continue
		}
		n := 0
		for _, p := range ms {
			n += len(p)
		}
		if n <= 3 || n > maxTotal {
			continue // <= 3 is covered above
		}
		scs = append(scs, scenario{Progs: ms, Bound: -1})
	}
	return scs
}

func main() {
	r := kit.Start("C10", "model_checking")
	if *racePass {
		raceMain()
		return
	}
	r.Replayer = func(raw json.RawMessage) []kit.V {
		var c kase
		if err := json.Unmarshal(raw, &c); err != nil {
			kit.Harness("bad case: %v", err)
		}
		if c.Race {
			return raceCheck()
		}
		in, e := runOnce(c.Scenario, c.Choices, true)
		class, what := judgeExec(in, e)
		if class == "" {
			return nil
		}
		return []kit.V{{Key: fmt.Sprintf("%s scenario=%q", class, c.Scenario.String()), What: what + "\nschedule: " + strings.Join(e.Trace, " | "), Case: c}}
	}
	r.MaybeReplay()
	scs := scenarios(r.Thorough())
	var tot shardResult
	allOutcomes := 0
	oneOutcome := 0
	r.JobName = func(j int) string { return fmt.Sprintf("scenario %v", scs[j]) }
	r.Sharded(len(scs), func(job int) any { return explore(r, scs[job]) }, func(job int, raw json.RawMessage) {
		var sr shardResult
		if err := json.Unmarshal(raw, &sr); err != nil {
			kit.Harness("shard result: %v", err)
		}
		if !sr.ReplayOK {
			kit.Harness("nondeterministic replay in scenario %s", scs[job])
		}
		tot.Executions += sr.Executions
		tot.Steps += sr.Steps
		tot.States += sr.States
		tot.Pruned += sr.Pruned
		if sr.MaxDepth > tot.MaxDepth {
			tot.MaxDepth = sr.MaxDepth
		}
		tot.Capped = tot.Capped || sr.Capped
		allOutcomes += len(sr.Outcomes)
		if len(sr.Outcomes) == 1 {
			oneOutcome++
		}
		for _, v := range sr.Violations {
			r.Violation(v.Key, v.What, v.Case)
		}
		if sr.Sample != nil && job%37 == 0 {
			r.Sample(map[string]any{"scenario": scs[job].String(), "choices": sr.Sample.Choices})
		}
	})
	for _, v := range raceCheck() {
		r.ViolationV(v)
	}
	r.Set("states", tot.States)
	r.Set("transitions", tot.Steps)
	r.Set("traces_validated_against_impl", tot.Executions)
	r.Set("executions", tot.Executions)
	r.Set("scenarios", len(scs))
	r.Set("pruned_on_known_state", tot.Pruned)
	r.Set("max_decisions_in_one_execution", tot.MaxDepth)
	r.Set("distinct_outcomes_summed_over_scenarios", allOutcomes)
	r.Set("scenarios_with_a_single_outcome", oneOutcome)
	r.Set("exhaustive", !tot.Capped && !r.Capped())
	r.Set("explanation", "all multisets of thread programs (2 threads x <=2 calls, 3 threads x 1 call, 3 threads x <=2 calls; key symmetry removed) over {Do,Get} x {k1,k2}; each explored without preemption bound, pruning on the complete global state (dump of the Cache incl. private fields and entries, harness record, per-thread position/observations/pending op). states summed over scenarios; transitions = scheduling steps executed on the real code")
	r.Assume("sequentially consistent interleavings at sync.Map, Mutex and atomic operations; weaker-memory effects and plain-access races are left to the free-running -race pass of the same bodies (sampling)")
	r.Finish()
}

func raceMain() {
	scs := scenarios(false)
	for it := 0; it < 30; it++ {
		for _, sc := range scs {
			in := &instance{sc: sc}
			in.body()
			if class, what := in.judge(); class != "" {
				fmt.Printf("RACEPASS-ORACLE %s: %s (%s)\n", class, what, sc)
				os.Exit(3)
			}
		}
	}
	fmt.Println("racepass done")
}

func raceCheck() []kit.V {
	bin := os.Getenv("VERIF_RACE_BIN")
	if bin == "" {
		return nil
	}
	// A Do that never returns would hang the free-running pass: it normally
	// takes seconds, so three minutes without finishing is reported.
	ctx, cancel := context.WithTimeout(context.Background(), 3*time.Minute)
	defer cancel()
	cmd := exec.CommandContext(ctx, bin, "-racepass")
	// the pass must not outlive this process (which may end early); the signal is
	// tied to the thread that starts the child, so this goroutine keeps its thread
	runtime.LockOSThread()
	defer runtime.UnlockOSThread()
	cmd.SysProcAttr = &syscall.SysProcAttr{Pdeathsig: syscall.SIGKILL}
	cmd.Env = append(os.Environ(), "GORACE=halt_on_error=1 exitcode=66")
	out, err := cmd.CombinedOutput()
	if err == nil {
		return nil
	}
	s := string(out)
	if ctx.Err() != nil {
		return []kit.V{{Key: "free-running-hang par.Cache", What: "the free-running pass did not finish within 3 minutes (a call never returned):\n" + firstLines(s, 5), Case: kase{Race: true}, NoConfirm: true}}
	}
	if strings.Contains(s, "WARNING: DATA RACE") {
		return []kit.V{{Key: "data-race par.Cache", What: "race detector report in the free-running pass:\n" + firstLines(s, 30), Case: kase{Race: true}, NoConfirm: true}}
	}
	if strings.Contains(s, "RACEPASS-ORACLE") {
		return []kit.V{{Key: "free-running-oracle par.Cache", What: firstLines(s, 5), Case: kase{Race: true}, NoConfirm: true}}
	}
	if strings.Contains(s, "panic: ") || strings.Contains(s, "fatal error: ") {
		// the code under test crashed in the free-running pass (the explorer reports the same crash with a schedule)
		return []kit.V{{Key: "free-running-crash par.Cache", What: "the free-running pass crashed:\n" + firstLines(s, 12), Case: kase{}, NoConfirm: true}}
	}
	kit.Harness("race pass failed: %v\n%s", err, firstLines(s, 20))
	return nil
}

func firstLines(s string, n int) string {
	l := strings.Split(s, "\n")
	if len(l) > n {
		l = l[:n]
	}
	return strings.Join(l, "\n")
}
