// C19 — imports.ShouldBuild and MatchFile implement Go's build-constraint rules
// (DESIGN.md §6 C19). Engine E; reference written from the statement, cross-checked
// against go/build (which uses go/build/constraint).
package main

import (
	"bytes"
	"encoding/json"
	"fmt"
	"go/build"
	"io"
	"sort"
	"strings"
	"sync"
	"sync/atomic"
	"unicode"

	"github.com/rogpeppe/go-internal/imports"

	"verif/kit"
)

type kase struct {
	Kind    string   `json:"kind"` // "shouldbuild" | "matchfile"
	Content string   `json:"content,omitempty"`
	Name    string   `json:"name,omitempty"`
	Tags    []string `json:"tags"`
}

// exact returns the content as a slice whose capacity equals its length, so
// that code reading past the end fails loudly.
func exact(s string) []byte {
	b := make([]byte, len(s))
	copy(b, s)
	return b[:len(b):len(b)]
}

// tagMap builds the tag map: "t" is an entry that is true, "-t" an entry that
// is present and false (which means the same as no entry).
func tagMap(tags []string) map[string]bool {
	m := map[string]bool{}
	for _, t := range tags {
		if strings.HasPrefix(t, "-") {
			m[t[1:]] = false
			continue
		}
		m[t] = true
	}
	return m
}

// explicitFalse returns, for every subset of the universe, the tag list that
// names the members as true and every other tag of the universe as false.
func explicitFalse(universe []string) [][]string {
	var out [][]string
	for _, s := range subsets(universe) {
		in := map[string]bool{}
		for _, t := range s {
			in[t] = true
		}
		var l []string
		for _, t := range universe {
			if in[t] {
				l = append(l, t)
			} else {
				l = append(l, "-"+t)
			}
		}
		out = append(out, l)
	}
	return out
}

// ---------- reference from the statement ----------

func wellFormedTag(s string) bool {
	if s == "" {
		return false
	}
	for _, c := range s {
		if !unicode.IsLetter(c) && !unicode.IsDigit(c) && c != '_' && c != '.' {
			return false
		}
	}
	return true
}

func selected(tag string, tags map[string]bool) bool {
	return tags[tag] || (tag == "linux" && tags["android"])
}

// refTerm: one comma-free term, possibly negated.
func refTerm(t string, tags map[string]bool) bool {
	neg := false
	if strings.HasPrefix(t, "!") {
		neg = true
		t = t[1:]
	}
	if !wellFormedTag(t) { // covers "", "!", "!!x", "a-b"
		return false
	}
	if tags["*"] && t != "ignore" {
		return true // both true and false
	}
	return selected(t, tags) != neg
}

func refLine(fields []string, tags map[string]bool) bool {
	for _, opt := range fields { // space separated: OR
		all := true
		for _, term := range strings.Split(opt, ",") { // comma separated: AND
			if !refTerm(term, tags) {
				all = false
			}
		}
		if all {
			return true
		}
	}
	return false
}

func refShouldBuild(content string, tags map[string]bool) bool {
	// the leading run of // comment lines and blank lines; only the part up to
	// the last blank line of that run counts
	lines := strings.SplitAfter(content, "\n")
	var run []string
	lastBlank := -1
	for i, l := range lines {
		t := strings.TrimSpace(l)
		if t == "" {
			if l == "" {
				break // nothing after the final newline
			}
			lastBlank = i
			run = append(run, l)
			continue
		}
		if !strings.HasPrefix(t, "//") {
			break
		}
		run = append(run, l)
	}
	ok := true
	for i, l := range run {
		if i > lastBlank {
			break
		}
		t := strings.TrimSpace(l)
		if !strings.HasPrefix(t, "//") {
			continue
		}
		t = strings.TrimSpace(t[2:])
		f := strings.Fields(t)
		if len(f) == 0 || f[0] != "+build" {
			continue
		}
		if !refLine(f[1:], tags) {
			ok = false
		}
	}
	return ok
}

// The reference's tables of known operating systems and architectures: the
// package's own lists as they stand in the repository (anchor), kept here as a
// snapshot so that the reference does not move with the code under test. The
// exported tables are compared with the snapshot at the start of the run.
var knownOS = setOf("aix android darwin dragonfly freebsd hurd illumos ios js linux nacl netbsd openbsd plan9 solaris windows zos")
var knownArch = setOf("386 amd64 amd64p32 arm armbe arm64 arm64be loong64 mips mipsle mips64 mips64le mips64p32 mips64p32le ppc ppc64 ppc64le riscv riscv64 s390 s390x sparc sparc64 wasm")

// goBuildOnly: tokens the toolchain's go/build treats as an OS or architecture
// that the package's (older) lists do not contain.
var goBuildOnly = setOf("wasip1")

// goBuildKnows: does go/build constrain a file named x_<tok>.go?
var goBuildKnowsCache sync.Map

func goBuildKnows(tok string) bool {
	if v, ok := goBuildKnowsCache.Load(tok); ok {
		return v.(bool)
	}
	ctx := build.Context{GOOS: "plan9", GOARCH: "mips", Compiler: "gc", OpenFile: func(string) (io.ReadCloser, error) {
		return io.NopCloser(strings.NewReader("package p\n")), nil
	}}
	m, err := ctx.MatchFile("/d", "x_"+tok+".go")
	k := err == nil && !m
	goBuildKnowsCache.Store(tok, k)
	return k
}

func setOf(list string) map[string]bool {
	m := map[string]bool{}
	for _, w := range strings.Fields(list) {
		m[w] = true
	}
	return m
}

// tableDiff describes how a table of the package differs from the snapshot.
func tableDiff(name string, got, want map[string]bool) string {
	var missing, extra []string
	for k := range want {
		if !got[k] {
			missing = append(missing, k)
		}
	}
	for k, v := range got {
		if v && !want[k] {
			extra = append(extra, k)
		}
	}
	sort.Strings(missing)
	sort.Strings(extra)
	if len(missing)+len(extra) == 0 {
		return ""
	}
	return fmt.Sprintf("imports.%s lacks %v and has in addition %v", name, missing, extra)
}

func refMatchFile(name string, tags map[string]bool) bool {
	if tags["*"] {
		return true
	}
	if i := strings.Index(name, "."); i >= 0 {
		name = name[:i]
	}
	i := strings.Index(name, "_")
	if i < 0 {
		return true
	}
	segs := strings.Split(name[i+1:], "_")
	if len(segs) > 0 && segs[len(segs)-1] == "test" {
		segs = segs[:len(segs)-1]
	}
	n := len(segs)
	if n >= 2 && knownOS[segs[n-2]] && knownArch[segs[n-1]] {
		return selected(segs[n-2], tags) && selected(segs[n-1], tags)
	}
	if n >= 1 && (knownOS[segs[n-1]] || knownArch[segs[n-1]]) {
		return selected(segs[n-1], tags)
	}
	return true
}

// ---------- cross-check with go/build ----------

// buildCtx maps a tag set over {linux, android, windows, amd64, arm, foo, ignore} to a
// go/build context, or ok=false if it has no faithful counterpart.
func buildCtx(tags map[string]bool, content string) (ctx build.Context, ok bool) {
	if tags["*"] {
		return ctx, false
	}
	for t := range tags {
		switch t {
		case "linux", "android", "windows", "amd64", "arm", "foo", "ignore":
		default:
			return ctx, false
		}
	}
	goos := ""
	nOS := 0
	for _, o := range []string{"android", "linux", "windows"} {
		if tags[o] {
			nOS++
			if goos == "" {
				goos = o
			}
		}
	}
	if tags["android"] && tags["windows"] || tags["linux"] && tags["windows"] {
		return ctx, false
	}
	_ = nOS
	if goos == "" {
		goos = "plan9"
	}
	arch := ""
	if tags["amd64"] && tags["arm"] {
		return ctx, false
	}
	switch {
	case tags["amd64"]:
		arch = "amd64"
	case tags["arm"]:
		arch = "arm"
	default:
		arch = "mips"
	}
	ctx = build.Context{GOOS: goos, GOARCH: arch, Compiler: "gc"}
	for _, t := range []string{"foo", "ignore"} {
		if tags[t] {
			ctx.BuildTags = append(ctx.BuildTags, t)
		}
	}
	ctx.OpenFile = func(path string) (io.ReadCloser, error) {
		return io.NopCloser(strings.NewReader(content)), nil
	}
	ctx.JoinPath = func(elem ...string) string { return strings.Join(elem, "/") }
	return ctx, true
}

// malformedNegated: the line set contains a negated malformed term, on which
// go/build/constraint ("!a-b" -> !ignore = true) and the statement (malformed
// terms are false) differ; the statement wins and the cross-check is skipped.
func malformedNegated(content string, ignoreSet bool) bool {
	for _, l := range strings.Split(content, "\n") {
		t := strings.TrimSpace(l)
		if !strings.HasPrefix(t, "//") {
			continue
		}
		f := strings.Fields(strings.TrimSpace(t[2:]))
		if len(f) == 0 || f[0] != "+build" {
			continue
		}
		if ignoreSet && len(f) == 1 {
			return true // an empty +build line is "ignore" for go/build/constraint
		}
		for _, opt := range f[1:] {
			for _, term := range strings.Split(opt, ",") {
				if strings.HasPrefix(term, "!") && !strings.HasPrefix(term, "!!") && term != "!" && !wellFormedTag(term[1:]) {
					return true
				}
				// with the tag "ignore" set, go/build/constraint's mapping of every
				// malformed term to "ignore" makes such terms true
				if ignoreSet && !wellFormedTag(strings.TrimPrefix(term, "!")) {
					return true
				}
			}
		}
	}
	return false
}

type stats struct {
	sbEvals, sbCross, sbCrossSkipped, mfEvals, mfCross, sbFalse, mfFalse int64
}

func checkShouldBuild(content string, tagList []string, st *stats) []kit.V {
	tags := tagMap(tagList)
	c := kase{Kind: "shouldbuild", Content: content, Tags: tagList}
	var got bool
	var pan any
	func() {
		defer func() { pan = recover() }()
		got = imports.ShouldBuild(exact(content), tags)
	}()
	key := func(class string) string {
		return fmt.Sprintf("%s content=%q tags=%v", class, content, tagList)
	}
	if pan == nil && len(content) <= 48 {
		// the same content as the head of a larger buffer: same verdict, content
		// untouched, nothing written behind it
		buf := make([]byte, len(content)+8)
		copy(buf, content)
		for i := len(content); i < len(buf); i++ {
			buf[i] = 0xA5
		}
		var got2 bool
		var pan2 any
		func() {
			defer func() { pan2 = recover() }()
			got2 = imports.ShouldBuild(buf[:len(content)], tags)
		}()
		switch {
		case pan2 != nil:
			return []kit.V{{Key: key("shouldbuild-panic"), What: fmt.Sprintf("ShouldBuild(%q, %v) panics when the content is the head of a larger buffer: %v", content, tagList, pan2), Case: c}}
		case string(buf[:len(content)]) != content || string(buf[len(content):]) != strings.Repeat("\xa5", 8):
			return []kit.V{{Key: key("shouldbuild-writes-to-its-argument"), What: fmt.Sprintf("ShouldBuild(%q, %v) changed the caller's buffer: now %q", content, tagList, buf), Case: c}}
		case got2 != got:
			return []kit.V{{Key: key("shouldbuild-depends-on-capacity"), What: fmt.Sprintf("ShouldBuild(%q, %v) = %v for a slice of exact capacity, %v at the head of a larger buffer", content, tagList, got, got2), Case: c}}
		}
	}
	if pan != nil {
		return []kit.V{{Key: key("shouldbuild-panic"), What: fmt.Sprintf("ShouldBuild(%q, %v) panics: %v", content, tagList, pan), Case: c}}
	}
	var vs []kit.V
	want := refShouldBuild(content, tags)
	if st != nil {
		atomic.AddInt64(&st.sbEvals, 1)
		if !want {
			atomic.AddInt64(&st.sbFalse, 1)
		}
	}
	if got != want {
		vs = append(vs, kit.V{Key: key("shouldbuild"), What: fmt.Sprintf("ShouldBuild(%q, %v) = %v, the rules of the statement give %v", content, tagList, got, want), Case: c})
	}
	// cross-check the reference (and the implementation) against go/build
	if ctx, ok := buildCtx(tags, content); ok && !malformedNegated(content, tags["ignore"]) && !strings.Contains(content, "//go:build") {
		m, err := ctx.MatchFile("/d", "x.go")
		if err != nil {
			if st != nil {
				atomic.AddInt64(&st.sbCrossSkipped, 1)
			}
		} else {
			if st != nil {
				atomic.AddInt64(&st.sbCross, 1)
			}
			if m != want {
				kit.Harness("reference for ShouldBuild disagrees with go/build on %q tags=%v: reference %v, go/build %v", content, tagList, want, m)
			}
		}
	}
	return vs
}

func checkMatchFile(name string, tagList []string, st *stats) []kit.V {
	tags := tagMap(tagList)
	c := kase{Kind: "matchfile", Name: name, Tags: tagList}
	var got bool
	var pan any
	func() {
		defer func() { pan = recover() }()
		got = imports.MatchFile(name, tags)
	}()
	key := func(class string) string { return fmt.Sprintf("%s name=%q tags=%v", class, name, tagList) }
	if pan != nil {
		return []kit.V{{Key: key("matchfile-panic"), What: fmt.Sprintf("MatchFile(%q, %v) panics: %v", name, tagList, pan), Case: c}}
	}
	want := refMatchFile(name, tags)
	if st != nil {
		atomic.AddInt64(&st.mfEvals, 1)
		if !want {
			atomic.AddInt64(&st.mfFalse, 1)
		}
	}
	var vs []kit.V
	if got != want {
		vs = append(vs, kit.V{Key: key("matchfile"), What: fmt.Sprintf("MatchFile(%q, %v) = %v, the rules of the statement give %v", name, tagList, got, want), Case: c})
	}
	if strings.HasSuffix(name, ".go") && !strings.HasPrefix(name, "_") && !strings.HasPrefix(name, ".") {
		// plan9 and mips stand for "no operating system / architecture selected" in
		// the go/build context; a name that mentions them, or a token go/build knows
		// and the package's lists do not (or the other way round), has no faithful
		// counterpart there
		faithful := true
		for _, seg := range strings.Split(strings.TrimSuffix(name, ".go"), "_") {
			if seg == "plan9" || seg == "mips" || goBuildOnly[seg] || (knownOS[seg] || knownArch[seg]) && !goBuildKnows(seg) {
				faithful = false
			}
		}
		if ctx, ok := buildCtx(tags, "package p\n"); ok && faithful {
			m, err := ctx.MatchFile("/d", name)
			if err == nil {
				if st != nil {
					atomic.AddInt64(&st.mfCross, 1)
				}
				if m != want {
					kit.Harness("reference for MatchFile disagrees with go/build on %q tags=%v (GOOS=%s GOARCH=%s): reference %v, go/build %v", name, tagList, ctx.GOOS, ctx.GOARCH, want, m)
				}
			}
		}
	}
	return vs
}

var warmTags = append(subsets([]string{"linux", "android", "amd64", "foo"}), []string{"*"}, []string{"*", "linux"}, []string{"ignore"}, []string{"windows", "arm"})

func subsets(base []string) [][]string {
	var out [][]string
	for m := 0; m < 1<<uint(len(base)); m++ {
		var s []string
		for i, b := range base {
			if m&(1<<uint(i)) != 0 {
				s = append(s, b)
			}
		}
		out = append(out, s)
	}
	return out
}

func main() {
	r := kit.Start("C19", "exploration")
	r.Replayer = func(raw json.RawMessage) []kit.V {
		var c kase
		if err := json.Unmarshal(raw, &c); err != nil {
			kit.Harness("bad case: %v", err)
		}
		if c.Kind == "matchfile" {
			r.Watch(127, []byte("M"+c.Name))
		} else {
			r.Watch(127, []byte("S"+c.Content))
		}
		defer r.WatchDone(127)
		// the functions are pure; should an implementation remember answers between
		// calls (keyed by too little), the case needs its history: the same input is
		// first evaluated under the other tag sets, as in the main pass
		for _, ts := range warmTags {
			func() {
				defer func() { recover() }()
				if c.Kind == "matchfile" {
					imports.MatchFile(c.Name, tagMap(ts))
				} else {
					imports.ShouldBuild(exact(c.Content), tagMap(ts))
				}
			}()
		}
		if c.Kind == "matchfile" {
			return checkMatchFile(c.Name, c.Tags, nil)
		}
		return checkShouldBuild(c.Content, c.Tags, nil)
	}
	r.Stuck = func(in []byte) kit.V {
		if len(in) > 0 && in[0] == 'M' {
			return kit.V{Key: "no-return name=" + kit.Q(in[1:]), What: fmt.Sprintf("MatchFile(%q, ...) does not return", in[1:]), Case: kase{Kind: "matchfile", Name: string(in[1:]), Tags: []string{"linux"}}}
		}
		if len(in) > 0 {
			in = in[1:]
		}
		return kit.V{Key: "no-return content=" + kit.Q(in), What: fmt.Sprintf("ShouldBuild(%q, ...) does not return", in), Case: kase{Kind: "shouldbuild", Content: string(in), Tags: []string{"linux"}}}
	}
	r.ConcurrentReplay = true
	r.Noise = func(i int) {
		tags := map[string]bool{"linux": i%2 == 0, "foo": i%3 == 0, "android": i%5 == 0}
		imports.ShouldBuild([]byte(fmt.Sprintf("// +build foo,!linux n%d\n\npackage p\n", i)), tags)
		imports.MatchFile(fmt.Sprintf("n%d_linux_arm_test.go", i), tags)
	}
	r.MaybeReplay()
	for _, d := range []string{tableDiff("KnownOS", imports.KnownOS, knownOS), tableDiff("KnownArch", imports.KnownArch, knownArch)} {
		if d != "" {
			// every name built from a lost or added token is then judged wrongly; the
			// name enumeration below reports the individual cases
			r.Sample(map[string]string{"known_table": d})
		}
	}
	th := r.Thorough()
	st := &stats{}

	// ----- ShouldBuild -----
	terms := []string{"linux", "!linux", "android", "!android", "amd64", "foo", "!foo", "ignore", "!ignore", "!!foo", "!", "a-b", "!a-b", "1.x", "!1.x", "é", "*"}
	small := []string{"linux", "!linux", "android", "foo", "!foo", "a-b", "ignore"}
	var lines []string
	for _, t := range terms {
		lines = append(lines, "// +build "+t)
	}
	for _, t := range []string{"linux", "!linux", "foo"} {
		lines = append(lines, "//+build "+t, "  //  +build   "+t+"  ", "// + build "+t, "// +buildx "+t, "//\t+build\t"+t, "/// +build "+t, "// +build "+t+" // c")
	}
	for _, a := range small {
		for _, b := range small {
			lines = append(lines, "// +build "+a+" "+b, "// +build "+a+","+b)
		}
	}
	for _, a := range []string{"linux", "!foo"} {
		for _, b := range []string{"amd64", "foo", "a-b"} {
			for _, c := range []string{"android", "!linux", ""} {
				lines = append(lines, "// +build "+a+","+b+" "+c, "// +build "+c+" "+a+","+b, "// +build "+a+",,"+b, "// +build "+a+","+b+","+c)
			}
		}
	}
	lines = append(lines, "// +build", "// c", "//go:generate x", "", "   ", "/* c */", "package p", "// +build linux\r", "//", "// +Build linux", "+build linux")
	reduced := []string{"// +build linux", "// +build !linux", "// +build foo", "// +build foo android", "// +build foo,!linux", "// +build a-b", "// c", "", "/* c */", "package p", "// +build ignore", "//+build !foo"}
	if th {
		reduced = append(reduced, "// +build !a-b", "// +build linux,amd64 foo", " ", "// +build !ignore", "// +buildx foo", "//")
	}
	terminators := []string{"\n\npackage p\n", "\npackage p\n", "", "\n", "\n\n", "\n \t\npackage p\n", "\n\n// doc\npackage p\n"}
	var headers []string
	headers = append(headers, "")
	for _, a := range lines {
		headers = append(headers, a)
		for _, b := range lines {
			headers = append(headers, a+"\n"+b)
		}
	}
	for _, a := range reduced {
		for _, b := range reduced {
			for _, c := range reduced {
				headers = append(headers, a+"\n"+b+"\n"+c)
				if th {
					for _, d := range reduced {
						headers = append(headers, a+"\n"+b+"\n"+c+"\n"+d)
					}
				}
			}
		}
	}
	tagSets := subsets([]string{"linux", "android", "amd64", "foo"})
	for _, s := range subsets([]string{"linux", "android", "amd64", "foo"}) {
		tagSets = append(tagSets, append([]string{"*"}, s...))
	}
	tagSets = append(tagSets, []string{"ignore"}, []string{"*", "ignore"}, []string{"linux", "ignore", "foo"})
	tagSets = append(tagSets, explicitFalse([]string{"linux", "android", "foo"})...)
	tagSets = append(tagSets, []string{"-*", "linux"}, []string{"-ignore", "foo"})
	nw := r.Workers()
	var wg sync.WaitGroup
	var nHeaders int64
	for w := 0; w < nw; w++ {
		wg.Add(1)
		go func(w int) {
			defer wg.Done()
			for i := w; i < len(headers); i += nw {
				if i&0xff == 0 && r.Expired() {
					return
				}
				for _, t := range terminators {
					for _, crlf := range []bool{false, true} {
						content := headers[i] + t
						if crlf {
							if !strings.Contains(content, "\n") || strings.Contains(content, "\r") {
								continue
							}
							content = strings.ReplaceAll(content, "\n", "\r\n")
						}
						atomic.AddInt64(&nHeaders, 1)
						r.Watch(w, []byte("S"+content))
						for _, ts := range tagSets {
							for _, v := range checkShouldBuild(content, ts, st) {
								r.Violation(v.Key, v.What, v.Case)
							}
						}
						r.WatchDone(w)
					}
				}
			}
		}(w)
	}
	wg.Wait()
	r.Sample(map[string]any{"content": "// +build foo,!linux\n\n// +build a-b\npackage p\n", "tags": []string{"android", "foo"}})

	// ----- MatchFile -----
	segs := []string{"x", "linux", "android", "windows", "amd64", "arm", "test", "unknownos", "", "wasm", "darwin"}
	maxSeg := 4
	var names []string
	var gen func(cur []string)
	gen = func(cur []string) {
		if len(cur) > 0 {
			base := strings.Join(cur, "_")
			names = append(names, base+".go", base, base+".pb.go", base+".s")
		}
		if len(cur) == maxSeg {
			return
		}
		for _, s := range segs {
			gen(append(cur, s))
		}
	}
	gen(nil)
	// every known operating system and architecture (first and last entries of the
	// lists included) in each position of the rule
	var allTokens []string
	for t := range knownOS {
		allTokens = append(allTokens, t)
	}
	for t := range knownArch {
		allTokens = append(allTokens, t)
	}
	sort.Strings(allTokens)
	for _, t := range allTokens {
		names = append(names, "x_"+t+".go", "x_"+t+"_test.go", "x_linux_"+t+".go", "x_"+t+"_amd64.go", "x_"+t+"_amd64_test.go", t+".go", "x_y_"+t+".go", "x_"+t+"_y.go")
	}
	names = append(names, ".go", "_.go", "linux.go", "_linux.go", "x.linux.go", "x_linux.amd64.go", "x-linux.go", "x_Linux.go", "x_linux_amd64_test_test.go", "x_test_linux.go")
	mfTags := subsets([]string{"linux", "android", "windows", "amd64", "arm"})
	mfTags = append(mfTags, []string{"*"}, []string{"*", "linux"}, []string{"darwin", "wasm"})
	mfTags = append(mfTags, explicitFalse([]string{"linux", "android", "amd64"})...)
	mfTags = append(mfTags, []string{"-*", "linux"})
	for w := 0; w < nw; w++ {
		wg.Add(1)
		go func(w int) {
			defer wg.Done()
			for i := w; i < len(names); i += nw {
				if i&0xff == 0 && r.Expired() {
					return
				}
				r.Watch(w, []byte("M"+names[i]))
				for _, ts := range mfTags {
					for _, v := range checkMatchFile(names[i], ts, st) {
						r.Violation(v.Key, v.What, v.Case)
					}
				}
				r.WatchDone(w)
			}
		}(w)
	}
	wg.Wait()
	r.Sample(map[string]any{"name": "x_linux_arm_test.go", "tags": []string{"android", "arm"}})

	// table drift (information only)
	var drift []string
	for _, o := range []string{"wasip1", "ios", "illumos"} {
		if !knownOS[o] {
			drift = append(drift, o)
		}
	}
	sort.Strings(drift)
	r.Set("known_os_missing_vs_toolchain_info_only", drift)
	r.Set("evaluations", st.sbEvals+st.mfEvals)
	r.Set("distinct_nontrivial", st.sbFalse+st.mfFalse)
	r.Set("rule", "ShouldBuild: every header of <= 2 lines over the full line alphabet and <= 3 (thorough 4) lines over the reduced one x 7 terminators x LF/CRLF x every tag set; MatchFile: every name of <= 4 segments over 11 tokens x 4 extensions x every tag set (entries that are true, and sets that also hold entries that are explicitly false). non-trivial = the reference verdict is false (a constraint actually excludes the file), counted")
	r.Set("shouldbuild_cases", st.sbEvals)
	r.Set("shouldbuild_headers", nHeaders)
	r.Set("shouldbuild_cross_checked_with_go_build", st.sbCross)
	r.Set("shouldbuild_cross_check_not_applicable", st.sbCrossSkipped)
	r.Set("matchfile_cases", st.mfEvals)
	r.Set("matchfile_cross_checked_with_go_build", st.mfCross)
	r.Set("exhaustive", !r.Capped())
	r.Assume("'known OS or architecture' means the package's KnownOS/KnownArch tables as they stand in the repository (anchor; a snapshot is kept in the check); on malformed negated terms the statement (false) wins over go/build/constraint (which maps them to !ignore); the reference is cross-checked against go/build.Context.MatchFile wherever a tag set has a faithful go/build counterpart, and a disagreement there is a HARNESS-ERROR, not a violation")
	_ = bytes.Equal
	r.Finish()
}
