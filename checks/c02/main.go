// C02 — testscript word splitting, quoting and variable expansion are exact
// (DESIGN.md §6 C02). Engine E through the public surface: script lines
// `args N <words...>` whose custom command records its exact argument vector;
// env histories are preceding `env` lines; child environments are read back
// with `exec henv`.
package main

import (
	"encoding/json"
	"fmt"
	"os"
	"path/filepath"
	"regexp"
	"sort"
	"strconv"
	"strings"
	"sync"
	"sync/atomic"

	"github.com/rogpeppe/go-internal/testscript"

	"verif/enum"
	"verif/kit"
	"verif/tsh"
)

// ---------- reference tokenizer / expander (from doc.go and the statement) ----------

type refEnv map[string]string

func isNameByte(c byte) bool {
	return c == '_' || '0' <= c && c <= '9' || 'a' <= c && c <= 'z' || 'A' <= c && c <= 'Z'
}

// refExpandVar expands the variable reference starting at s[0]=='$'; returns
// the replacement and the number of bytes consumed; ok=false if the form is not
// one the statement defines.
func refExpandVar(s string, env refEnv) (string, int, bool) {
	if len(s) < 2 {
		return "", 0, false
	}
	if s[1] == '{' {
		end := strings.IndexByte(s, '}')
		if end < 0 || end == 2 {
			return "", 0, false
		}
		name := s[2:end]
		if n, ok := strings.CutSuffix(name, "@R"); ok {
			return regexp.QuoteMeta(env[n]), end + 1, true
		}
		return env[name], end + 1, true
	}
	if s[1] == '$' {
		return env["$"], 2, true
	}
	i := 1
	for i < len(s) && isNameByte(s[i]) {
		i++
	}
	if i == 1 {
		return "", 0, false
	}
	return env[s[1:i]], i, true
}

// refParse splits a line into words. parseErr = unterminated quote; undefined =
// the line uses a form the statement does not define (bare $).
func refParse(line string, env refEnv) (args []string, parseErr, undefined bool) {
	var arg strings.Builder
	have := false
	quoted := false
	for i := 0; i < len(line); {
		c := line[i]
		if quoted {
			if c == '\'' {
				if i+1 < len(line) && line[i+1] == '\'' {
					arg.WriteByte('\'')
					i += 2
					continue
				}
				quoted = false
				i++
				continue
			}
			arg.WriteByte(c)
			i++
			continue
		}
		switch {
		case c == ' ' || c == '\t' || c == '\r':
			if have {
				args = append(args, arg.String())
				arg.Reset()
				have = false
			}
			i++
		case c == '#':
			if have {
				args = append(args, arg.String())
			}
			return args, false, false
		case c == '\'':
			quoted = true
			have = true
			i++
		case c == '$':
			rep, n, ok := refExpandVar(line[i:], env)
			if !ok {
				return nil, false, true
			}
			arg.WriteString(rep)
			have = true
			i += n
		default:
			arg.WriteByte(c)
			have = true
			i++
		}
	}
	if quoted {
		return nil, true, false
	}
	if have {
		args = append(args, arg.String())
	}
	return args, false, false
}

// Q quotes a word so that it must come back verbatim.
func Q(w string) string { return "'" + strings.ReplaceAll(w, "'", "''") + "'" }

// ---------- running batches of lines ----------

type recorder struct {
	mu      sync.Mutex
	args    map[int][]string
	getenv  map[int]string
	stdouts map[int]string
}

var runSeq int64

// runScript runs one script (its text) with the probe commands and returns the
// recorder and the result.
func runScript(root, text string) (*recorder, *tsh.Result) {
	return runScriptSetup(root, text, nil)
}

// runScriptSetup: setup holds assignments made by Params.Setup through
// Env.Setenv before the script starts.
func runScriptSetup(root, text string, setup [][2]string) (*recorder, *tsh.Result) {
	rec := &recorder{args: map[int][]string{}, getenv: map[int]string{}, stdouts: map[int]string{}}
	n := atomic.AddInt64(&runSeq, 1)
	dir := filepath.Join(root, fmt.Sprintf("s%d", n))
	os.MkdirAll(dir, 0o777)
	defer os.RemoveAll(dir)
	file := tsh.WriteScript(dir, "s.txt", text)
	t := tsh.NewT("goexit", false)
	p := testscript.Params{
		Files:           []string{file},
		ContinueOnError: true,
		Setup: func(env *testscript.Env) error {
			for _, a := range setup {
				switch {
				case strings.HasPrefix(a[0], "-"):
					// the variable is taken out of the list ("may modify Vars as it wishes")
					var kept []string
					for _, kv := range env.Vars {
						if !strings.HasPrefix(kv, a[0][1:]+"=") {
							kept = append(kept, kv)
						}
					}
					env.Vars = kept
				case strings.HasPrefix(a[0], "+"):
					// appended to the list directly
					env.Vars = append(env.Vars, a[0][1:]+"="+a[1])
				default:
					env.Setenv(a[0], a[1])
				}
			}
			return nil
		},
		Cmds: map[string]func(ts *testscript.TestScript, neg bool, args []string){
			"args": func(ts *testscript.TestScript, neg bool, args []string) {
				if len(args) == 0 {
					ts.Fatalf("args: missing sequence number")
				}
				k, err := strconv.Atoi(args[0])
				if err != nil {
					ts.Fatalf("args: bad sequence number %q", args[0])
				}
				rec.mu.Lock()
				rec.args[k] = append([]string{}, args[1:]...)
				rec.mu.Unlock()
			},
			"getenv": func(ts *testscript.TestScript, neg bool, args []string) {
				k, _ := strconv.Atoi(args[0])
				rec.mu.Lock()
				rec.getenv[k] = ts.Getenv(args[1])
				rec.mu.Unlock()
			},
			"capstdout": func(ts *testscript.TestScript, neg bool, args []string) {
				k, _ := strconv.Atoi(args[0])
				rec.mu.Lock()
				rec.stdouts[k] = ts.ReadFile("stdout")
				rec.mu.Unlock()
			},
		},
	}
	t.RunRoot(func() { testscript.RunT(t, p) })
	if len(t.Results) != 1 {
		kit.UnderTestFailed("RunT was given 1 script and ran %d subtests (%s)", len(t.Results), t.RootFatal)
	}
	return rec, t.Results[0]
}

type lineCase struct {
	Env  []string `json:"env"`  // preceding env lines (script text)
	Line string   `json:"line"` // the words after "args N "
	Kind string   `json:"kind"`
}

func eq(a, b []string) bool {
	if len(a) != len(b) {
		return false
	}
	for i := range a {
		if a[i] != b[i] {
			return false
		}
	}
	return true
}

// baseEnv is the reference's view of the variables the harness sets (X, Y) plus
// the documented specials used in the token alphabet.
func baseEnv() refEnv {
	return refEnv{"$": "$", "/": string(os.PathSeparator), ":": string(os.PathListSeparator)}
}

// xValue contains a blank (re-splitting), a quote, a # and a reference to Y
// (re-expansion) and regexp metacharacters (@R).
const xValue = "p q$Y'#.*"
const yValue = "yy"

var envPrelude = []string{"env " + Q("X="+xValue), "env Y=" + yValue}

// checkBatch runs the lines (each must not contain a newline) in one script and
// compares every recorded vector with the reference.
func checkBatch(root string, prelude []string, lines []string, kind string) []kit.V {
	env := baseEnv()
	// the reference applies the prelude's assignments itself
	var sb strings.Builder
	for _, l := range prelude {
		sb.WriteString(l + "\n")
		a, _, _ := refParse(l, env)
		if len(a) > 0 && a[0] == "env" {
			for _, kv := range a[1:] {
				if i := strings.IndexByte(kv, '='); i >= 0 {
					env[kv[:i]] = kv[i+1:]
				}
			}
		}
	}
	for i, l := range lines {
		fmt.Fprintf(&sb, "args %d %s\n", i, l)
	}
	rec, _ := runScript(root, sb.String())
	var vs []kit.V
	for i, l := range lines {
		want, perr, undef := refParse(l, env)
		if undef {
			continue
		}
		got, ran := rec.args[i]
		c := lineCase{Env: prelude, Line: l, Kind: kind}
		switch {
		case perr && ran:
			vs = append(vs, kit.V{Key: kind + "-unterminated-quote-accepted line=" + strconv.Quote(l), What: fmt.Sprintf("line %q has an unterminated quote but the command ran with %q", l, got), Case: c})
		case !perr && !ran:
			vs = append(vs, kit.V{Key: kind + "-line-did-not-run line=" + strconv.Quote(l), What: fmt.Sprintf("line %q: the command did not run (expected words %q)", "args N "+l, want), Case: c})
		case !perr && !eq(got, want):
			vs = append(vs, kit.V{Key: kind + "-wrong-words line=" + strconv.Quote(l), What: fmt.Sprintf("line %q (after %q): the command received %q, the rules give %q", "args N "+l, prelude, got, want), Case: c})
		}
	}
	return vs
}

// ---------- env histories ----------

// hostGORACE is the value GORACE has in this process while the histories run.
const hostGORACE = "atexit_sleep_ms=7"

type histCase struct {
	Assign [][2]string `json:"assign"` // key, value
	// Setup: assignments made before the script by Params.Setup (Env.Setenv);
	// a key "-K" takes K out of Env.Vars, a key "+K" appends K=value to
	// Env.Vars directly
	Setup [][2]string `json:"setup,omitempty"`
	// Mode: "" = one env line per assignment; "oneline" = all assignments as
	// arguments of one env command; "oneline-display" = the same with an
	// argument that only displays a variable before each assignment
	Mode string `json:"mode,omitempty"`
	// Listing: a bare env line (which lists every variable) comes between the
	// assignments and the observations
	Listing bool `json:"listing,omitempty"`
}

func parseEnvDump(s string) (map[string]string, string) {
	m := map[string]string{}
	cwd := ""
	for _, kv := range strings.Split(s, "\x00") {
		if strings.HasPrefix(kv, "\x01CWD=") {
			cwd = kv[5:]
			continue
		}
		if i := strings.IndexByte(kv, '='); i > 0 {
			m[kv[:i]] = kv[i+1:]
		}
	}
	return m, cwd
}

func checkHistory(root string, h histCase) []kit.V {
	var sb strings.Builder
	// GORACE is set in this process (main): testscript passes it through to the
	// script's variables, where it is a variable like any other
	model := map[string]string{"GORACE": hostGORACE}
	removed := map[string]bool{}
	for _, a := range h.Setup {
		switch {
		case strings.HasPrefix(a[0], "-"):
			delete(model, a[0][1:])
			removed[a[0][1:]] = true
		case strings.HasPrefix(a[0], "+"):
			model[a[0][1:]] = a[1]
			delete(removed, a[0][1:])
		default:
			model[a[0]] = a[1]
			delete(removed, a[0])
		}
	}
	for _, a := range h.Assign {
		delete(removed, a[0])
	}
	if h.Mode != "" && len(h.Assign) > 0 {
		sb.WriteString("env")
		for i, a := range h.Assign {
			if h.Mode == "oneline-display" {
				sb.WriteString(" " + []string{"Y", "X", "NOSUCH"}[i%3])
			}
			sb.WriteString(" " + Q(a[0]+"="+a[1]))
			model[a[0]] = a[1]
		}
		sb.WriteString("\n")
	} else {
		for _, a := range h.Assign {
			sb.WriteString("env " + Q(a[0]+"="+a[1]) + "\n")
			model[a[0]] = a[1]
		}
	}
	if h.Listing {
		sb.WriteString("env\n")
	}
	sb.WriteString("args 0 $X ${X} $Y ${Y} ${X@R} a$X-b\n")
	sb.WriteString("getenv 1 X\ngetenv 2 Y\ngetenv 4 HOME\nargs 5 a${HOME}b\ngetenv 6 GORACE\nargs 7 a${GORACE}b\n")
	sb.WriteString("exec henv\ncapstdout 3\n")
	// cmpenv expands its second file: against the expansion the model gives it
	// must pass; a byte-identical copy of the unexpanded file differs from the
	// expansion ("$$" alone sees to that) and must be found different
	sb.WriteString("cmpenv exp raw\n! cmpenv rawcopy raw\n")
	rawText := "$X|${Y}|$$|a${X}b\n"
	expText := model["X"] + "|" + model["Y"] + "|$|a" + model["X"] + "b\n"
	sb.WriteString("-- raw --\n" + rawText + "-- rawcopy --\n" + rawText + "-- exp --\n" + expText)
	rec, res := runScriptSetup(root, sb.String(), h.Setup)
	key := func(class string) string {
		if h.Listing {
			return fmt.Sprintf("%s setup=%q assignments=%q then-a-bare-env-line", class, h.Setup, h.Assign)
		}
		if h.Mode != "" {
			return fmt.Sprintf("%s %s assignments=%q", class, h.Mode, h.Assign)
		}
		if h.Setup != nil {
			return fmt.Sprintf("%s setup=%q assignments=%q", class, h.Setup, h.Assign)
		}
		return fmt.Sprintf("%s assignments=%q", class, h.Assign)
	}
	var vs []kit.V
	add := func(class, what string) {
		pre := ""
		if h.Setup != nil {
			pre = fmt.Sprintf("Setup assignments %q, then ", h.Setup)
		}
		vs = append(vs, kit.V{Key: key(class), What: fmt.Sprintf("after %senv assignments %q: %s", pre, h.Assign, what), Case: h})
	}
	if res.Verdict != tsh.Pass {
		add("history-script-failed", "the script did not pass: "+res.Log)
		return vs
	}
	x, y := model["X"], model["Y"]
	want := []string{}
	for _, w := range []string{x, x, y, y, regexp.QuoteMeta(x), "a" + x + "-b"} {
		want = append(want, w)
	}
	// an empty value still yields a word (the empty one): results are never re-split
	wantWords := want
	if !eq(rec.args[0], wantWords) {
		add("expansion", fmt.Sprintf("`$X ${X} $Y ${Y} ${X@R} a$X-b` gave %q, latest values X=%q Y=%q give %q", rec.args[0], x, y, wantWords))
	}
	if rec.getenv[1] != x || rec.getenv[2] != y {
		add("getenv", fmt.Sprintf("Getenv gives X=%q Y=%q, latest assignments are X=%q Y=%q", rec.getenv[1], rec.getenv[2], x, y))
	}
	if hv, ok := model["HOME"]; ok && rec.getenv[4] != hv {
		add("getenv", fmt.Sprintf("Getenv gives HOME=%q, latest assignment is %q", rec.getenv[4], hv))
	}
	if hv, ok := model["HOME"]; (ok || removed["HOME"]) && !eq(rec.args[5], []string{"a" + hv + "b"}) {
		add("expansion", fmt.Sprintf("`a${HOME}b` gave %q, the latest value of HOME is %q (taken out of the list by Setup: %v)", rec.args[5], hv, removed["HOME"]))
	}
	if removed["HOME"] && rec.getenv[4] != "" {
		add("getenv", fmt.Sprintf("Getenv gives HOME=%q although Setup took HOME out of the variable list", rec.getenv[4]))
	}
	if gv := model["GORACE"]; !removed["GORACE"] && (rec.getenv[6] != gv || !eq(rec.args[7], []string{"a" + gv + "b"})) {
		add("passed-through-variable", fmt.Sprintf("GORACE (set to %q in the process running testscript) is %q for the script: Getenv gives %q, `a${GORACE}b` gives %q", hostGORACE, gv, rec.getenv[6], rec.args[7]))
	}
	child, _ := parseEnvDump(rec.stdouts[3])
	for k := range removed {
		if cv, ok := child[k]; ok {
			add("child-env", fmt.Sprintf("executed program sees %s=%q although Setup took %s out of the variable list and nothing set it again", k, cv, k))
		}
	}
	for k, v := range model {
		if cv, ok := child[k]; !ok || cv != v {
			add("child-env", fmt.Sprintf("executed program sees %s=%q (present=%v), script value is %q", k, cv, ok, v))
		}
	}
	return vs
}

// longCase: a script whose middle line carries one long word.
type longCase struct {
	N     int    `json:"n"`
	Shape string `json:"shape"` // plain | quoted | variable | comment
}

// checkLong runs `args 0 a`, a line with a word of n bytes, `args 2 b`: the
// long line must be split like any other and the line after it must still run.
func checkLong(root string, c longCase) []kit.V {
	word := strings.Repeat("w", c.N)
	var line string
	want := []string{word, "z"}
	switch c.Shape {
	case "plain":
		line = "args 1 " + word + " z"
	case "quoted":
		word = strings.Repeat("q 'x", c.N/4)
		want = []string{word, "z"}
		line = "args 1 " + Q(word) + " z"
	case "variable":
		line = "args 1 ${X}" + word[1:] + " z"
		want = []string{"v" + word[1:], "z"}
	case "comment":
		line = "args 1 z # " + word
		want = []string{"z"}
	}
	rec, res := runScript(root, "env X=v\nargs 0 a\n"+line+"\nargs 2 b\n")
	key := fmt.Sprintf("long-line shape=%s len=%d", c.Shape, c.N)
	bad := func(what string) []kit.V {
		return []kit.V{{Key: key, What: fmt.Sprintf("script with a %s word of %d bytes on its third line: %s", c.Shape, c.N, what), Case: c}}
	}
	if res.Verdict != tsh.Pass {
		l := res.Log
		if len(l) > 300 {
			l = l[:300] + "..."
		}
		return bad("the run is reported " + string(res.Verdict) + ": " + l)
	}
	if !eq(rec.args[0], []string{"a"}) {
		return bad(fmt.Sprintf("the line before it gave %q", rec.args[0]))
	}
	if !eq(rec.args[1], want) {
		got := rec.args[1]
		lens := []int{}
		for _, g := range got {
			lens = append(lens, len(g))
		}
		return bad(fmt.Sprintf("the command received %d words of lengths %v, want %d words of lengths %d and 1", len(got), lens, len(want), len(want[0])))
	}
	if !eq(rec.args[2], []string{"b"}) {
		return bad(fmt.Sprintf("the line after it did not run as written: the command received %q, want [\"b\"]", rec.args[2]))
	}
	return nil
}

type kase struct {
	Kind string     `json:"kind"`
	Long *longCase  `json:"long,omitempty"`
	At   *atCase    `json:"at_name,omitempty"`
	Line *lineCase  `json:"line,omitempty"`
	Hist *histCase  `json:"hist,omitempty"`
	R    *[2]string `json:"rlaw,omitempty"`
}

func main() {
	tsh.Main(func() int { realMain(); return 0 })
}

func realMain() {
	os.Setenv("GORACE", hostGORACE)
	r := kit.Start("C02", "exploration")
	root, err := os.MkdirTemp(os.Getenv("VERIF_SCRATCH"), "c02")
	if err != nil {
		kit.Harness("mkdtemp: %v", err)
	}
	defer os.RemoveAll(root)
	r.Replayer = func(raw json.RawMessage) []kit.V {
		var c kase
		if err := json.Unmarshal(raw, &c); err != nil {
			kit.Harness("bad case: %v", err)
		}
		switch c.Kind {
		case "history":
			return checkHistory(root, *c.Hist)
		case "rlaw":
			return checkRLaw(root, []string{c.R[0]}, []string{c.R[1]})
		case "long":
			return checkLong(root, *c.Long)
		case "atname":
			return checkAtName(root, c.At.Name, c.At.Val)
		}
		return checkBatch(root, c.Line.Env, []string{c.Line.Line}, c.Line.Kind)
	}
	r.MaybeReplay()
	th := r.Thorough()
	nw := r.Workers()
	var evals, nontrivial int64

	report := func(vs []kit.V) {
		for _, v := range vs {
			kk := kase{Kind: "line"}
			switch c := v.Case.(type) {
			case lineCase:
				kk.Line = &c
			case histCase:
				kk.Kind = "history"
				kk.Hist = &c
			case [2]string:
				kk.Kind = "rlaw"
				kk.R = &c
			case longCase:
				kk.Kind = "long"
				kk.Long = &c
			case atCase:
				kk.Kind = "atname"
				kk.At = &c
			}
			r.Violation(v.Key, v.What, kk)
		}
	}
	// batches run in parallel
	type batch struct {
		prelude []string
		lines   []string
		kind    string
	}
	batches := make(chan batch, 64)
	var wg sync.WaitGroup
	for w := 0; w < nw; w++ {
		wg.Add(1)
		go func() {
			defer wg.Done()
			for b := range batches {
				report(checkBatch(root, b.prelude, b.lines, b.kind))
			}
		}()
	}
	const batchSize = 400
	var cur []string
	flush := func(kind string, prelude []string) {
		if len(cur) > 0 {
			batches <- batch{prelude, cur, kind}
			cur = nil
		}
	}
	add := func(kind string, prelude []string, line string) {
		evals++
		cur = append(cur, line)
		if len(cur) >= batchSize {
			flush(kind, prelude)
		}
	}

	// (1) quoting law over words
	qAlpha := enum.Bytes("a", " ", "\t", "'", "$", "#", "\r", "{", "}", "@", "\\", "=", "\xc3\xa0", "\xa0")
	n1 := 5
	if th {
		n1 = 6
	}
	var words []string
	enum.Strings(qAlpha, n1, 1, func(w int, s []byte) { words = append(words, string(s)) })
	for _, w := range words {
		if r.Expired() {
			break
		}
		add("quoting", envPrelude, Q(w))
		add("quoting", envPrelude, Q(w)+" # c")
		add("quoting", envPrelude, " \t"+Q(w)+"\t ")
		if w != "" {
			nontrivial++
		}
	}
	flush("quoting", envPrelude)
	// pairs
	var short []string
	enum.Strings(qAlpha, 2, 1, func(w int, s []byte) { short = append(short, string(s)) })
	for _, a := range short {
		for _, b := range short {
			add("quoting-pair", envPrelude, Q(a)+" "+Q(b))
			add("quoting-pair", envPrelude, Q(a)+Q(b)) // adjacent quoted chunks form one word: a'b
			nontrivial++
		}
	}
	flush("quoting-pair", envPrelude)
	r.Sample(map[string]string{"line": "args 7 " + Q("a '$X #\r"), "expect": "one word, verbatim"})

	// (2) unquoted splitting over a token alphabet
	// bytes that are blanks only for over-eager classifiers (VT, FF, and the UTF-8
	// continuation bytes 0x85 / 0xA0 of NEL, NBSP and of letters such as à) must
	// stay inside their word
	tAlpha := enum.Bytes("a", "b", " ", "\t", "'", "''", "#", "$X", "${X}", "${X@R}", "$$", "${/}", "${:}", "\r", "\xc3\xa0", "\xc2\x85", "\xc2\xa0", "\x0b", "\x0c")
	n2 := 5
	if th {
		n2 = 6
	}
	enum.Strings(tAlpha, n2, 1, func(w int, s []byte) {
		if strings.ContainsAny(string(s), "\n") {
			return
		}
		add("splitting", envPrelude, string(s))
		if strings.ContainsAny(string(s), "'$# \t") {
			nontrivial++
		}
	})
	flush("splitting", envPrelude)
	r.Sample(map[string]string{"line": "args 3 a${X}'' b#c", "X": xValue})
	close(batches)
	wg.Wait()

	// (3) assignment histories
	vals := []string{"", "a", "a b", "'", "$Y", "#c", "a'b", "${Y}", ".*+", "é "}
	var assigns [][2]string
	for _, k := range []string{"X", "Y"} {
		for _, v := range vals {
			assigns = append(assigns, [2]string{k, v})
		}
	}
	maxH := 3
	if th {
		maxH = 4
	}
	var hists []histCase
	var rec func(cur [][2]string)
	rec = func(cur [][2]string) {
		if len(cur) > 0 {
			hists = append(hists, histCase{Assign: append([][2]string(nil), cur...)})
		}
		if len(cur) == maxH {
			return
		}
		for _, a := range assigns {
			rec(append(cur, a))
		}
	}
	rec(nil)
	// prefix-related names: assigning GO must not disturb GOFLAGS (and vice versa)
	for _, seq := range [][][2]string{
		{{"X", "1"}, {"XY", "2"}, {"X", "3"}},
		{{"XY", "2"}, {"X", "1"}, {"XY", "4"}},
		{{"X", "1"}, {"Y", "2"}, {"X", "3"}, {"Y", "4"}},
	} {
		hists = append(hists, histCase{Assign: seq})
	}
	// assignments made by Params.Setup (also of a variable testscript itself
	// sets, and of one name twice) followed by script assignments
	var sAssigns, vAssigns [][2]string
	for _, k := range []string{"X", "Y", "HOME"} {
		for _, v := range []string{"s1", "s2"} {
			sAssigns = append(sAssigns, [2]string{k, v})
		}
		for _, v := range []string{"v1", ""} {
			vAssigns = append(vAssigns, [2]string{k, v})
		}
	}
	seqs := func(al [][2]string, min, max int) [][][2]string {
		var out [][][2]string
		var rec func(cur [][2]string)
		rec = func(cur [][2]string) {
			if len(cur) >= min {
				out = append(out, append([][2]string(nil), cur...))
			}
			if len(cur) == max {
				return
			}
			for _, a := range al {
				rec(append(cur, a))
			}
		}
		rec(nil)
		return out
	}
	for _, su := range seqs(sAssigns, 1, 2) {
		for _, as := range seqs(vAssigns, 0, 2) {
			hists = append(hists, histCase{Assign: as, Setup: su})
		}
	}
	// a variable passed through from the process running testscript
	gAssigns := [][2]string{{"GORACE", "halt_on_error=1"}, {"GORACE", ""}, {"X", "v1"}}
	for _, as := range seqs(gAssigns, 1, 3) {
		hists = append(hists, histCase{Assign: as}, histCase{Assign: as, Setup: [][2]string{{"GORACE", "s1"}}}, histCase{Assign: as, Mode: "oneline"})
	}
	hists = append(hists, histCase{Setup: [][2]string{{"GORACE", "s1"}}}, histCase{Setup: [][2]string{{"-GORACE", ""}}}, histCase{Setup: [][2]string{{"-GORACE", ""}, {"X", "s1"}}, Assign: [][2]string{{"GORACE", "again"}}})
	// a Setup that takes variables out of Env.Vars or appends to it directly
	listOps := [][2]string{{"X", "s1"}, {"HOME", "s1"}, {"-X", ""}, {"-HOME", ""}, {"+X", "d1"}, {"+HOME", "d2"}, {"-Y", ""}}
	maxOps := 2
	if r.Thorough() {
		maxOps = 3
	}
	for _, su := range seqs(listOps, 1, maxOps) {
		plain := true
		for _, a := range su {
			if a[0][0] == '-' || a[0][0] == '+' {
				plain = false
			}
		}
		if plain {
			continue
		}
		for _, as := range seqs(vAssigns, 0, 1) {
			hists = append(hists, histCase{Assign: as, Setup: su})
		}
	}
	// several assignments as arguments of one env command, with and without
	// arguments that only display a variable in between
	for _, as := range seqs(vAssigns, 1, 3) {
		hists = append(hists, histCase{Assign: as, Mode: "oneline"}, histCase{Assign: as, Mode: "oneline-display"})
	}
	// the short histories again, with a bare env line (a listing, which changes
	// nothing) before the observations
	for _, h := range hists[:len(hists):len(hists)] {
		if h.Mode == "" && len(h.Assign)+len(h.Setup) <= 2 {
			h.Listing = true
			hists = append(hists, h)
		}
	}
	var next int64 = -1
	for w := 0; w < nw; w++ {
		wg.Add(1)
		go func() {
			defer wg.Done()
			for {
				i := int(atomic.AddInt64(&next, 1))
				if i >= len(hists) || r.Expired() {
					return
				}
				report(checkHistory(root, hists[i]))
			}
		}()
	}
	wg.Wait()
	evals += int64(len(hists))
	nontrivial += int64(len(hists))
	r.Sample(map[string]any{"env_history": hists[len(hists)/2].Assign})

	// (3a) variable names that contain the '@' of the @R suffix: ${NAME} takes the
	// whole name, ${NAME@R} strips exactly one trailing @R
	for _, nm := range []string{"X@Y", "X@", "X@Rx", "X@R@Y", "@X", "X@r"} {
		for _, val := range []string{"a.b+c", "", "v v"} {
			report(checkAtName(root, nm, val))
			evals++
			nontrivial++
		}
	}

	// (3b) long lines: word lengths that straddle the buffer sizes a
	// line-oriented reader might use
	var longs int64
	for _, n := range []int{4095, 4096, 4097, 65500, 65534, 65535, 65536, 65537, 70000, 131072, 1 << 20} {
		for _, shape := range []string{"plain", "quoted", "variable", "comment"} {
			report(checkLong(root, longCase{N: n, Shape: shape}))
			longs++
		}
	}
	evals += longs
	nontrivial += longs
	r.Set("long_line_scripts", longs)

	// (4) @R law
	rAlpha := enum.Bytes("a", ".", "*", "(", "\\", "$", "^", "[", "+", "|")
	var rvals, rstrs []string
	enum.Strings(rAlpha, 3, 1, func(w int, s []byte) { rvals = append(rvals, string(s)) })
	nstr := 3
	if th {
		nstr = 4
	}
	enum.Strings(rAlpha, nstr, 1, func(w int, s []byte) { rstrs = append(rstrs, string(s)) })
	report(checkRLaw(root, rvals, rstrs))
	evals += int64(len(rvals))
	nontrivial += int64(len(rvals))

	r.Set("evaluations", evals)
	r.Set("distinct_nontrivial", nontrivial)
	r.Set("rule", fmt.Sprintf("quoting law: every word of <= %d bytes over {a,SP,TAB,',$,#,CR,{,},@,\\,=,à,0xA0} quoted (3 placements) and every pair of words of <= 2 bytes (separate and adjacent); splitting: every line of <= %d tokens over {a,b,SP,TAB,','',#,$X,${X},${X@R},$$,${/},${:},CR,à,NEL,VT,FF}; names containing '@' (X@Y, X@, X@Rx, X@R@Y, @X, X@r) through ${NAME} and ${NAME@R}; long lines: a word of 4095..4097, 65500..65537, 70000, 131072 or 1048576 bytes (plain, quoted, after a variable, in a comment) between two ordinary lines; env histories: every sequence of <= %d assignments over {X,Y} x 10 values, and every sequence of 1-2 assignments made by Params.Setup over {X,Y,HOME} x 2 values followed by 0-2 script assignments, every sequence of 1-2 (thorough 3) Setup steps over {Setenv, take a variable out of Env.Vars, append to Env.Vars directly} x {X, Y, HOME} followed by 0-1 script assignments, and 1-3 assignments given as arguments of one env command (also with display-only arguments in between), and histories over GORACE, set in the process that runs testscript and passed through to the script, observed through expansion, Getenv and a child process; @R: every value of <= 3 bytes over 10 regexp metacharacters against every string of <= %d. non-trivial = non-empty words / lines with a quote, $, # or blank / all histories and values, counted", n1, n2, maxH, nstr))
	r.Set("env_histories", len(hists))
	r.Set("r_law_values", len(rvals))
	r.Set("exhaustive", !r.Capped())
	r.Assume("an unquoted bare $ (not followed by a name, { or $) is not defined by the statement and is not generated; CR is a separator like blank and tab (doc: 'space-separated'; the statement lists CR among word bytes that need quoting)")
	r.Finish()
}

type atCase struct {
	Name string `json:"name"`
	Val  string `json:"value"`
}

// checkAtName: a variable whose name contains '@'.
func checkAtName(root, name, val string) []kit.V {
	script := "env X=plain\nenv " + Q(name+"="+val) + "\nargs 0 ${" + name + "} ${" + name + "@R} $X ${X} ${X@R}\nexec henv\ncapstdout 3\n"
	rec, res := runScript(root, script)
	c := atCase{Name: name, Val: val}
	bad := func(what string) []kit.V {
		return []kit.V{{Key: fmt.Sprintf("at-name name=%q value=%q", name, val), What: fmt.Sprintf("variable named %q = %q: %s", name, val, what), Case: c}}
	}
	if res.Verdict != tsh.Pass {
		return bad("the script did not pass: " + res.Log)
	}
	want := []string{val, regexp.QuoteMeta(val), "plain", "plain", "plain"}
	if !eq(rec.args[0], want) {
		return bad(fmt.Sprintf("`${%s} ${%s@R} $X ${X} ${X@R}` gave %q, want %q", name, name, rec.args[0], want))
	}
	child, _ := parseEnvDump(rec.stdouts[3])
	if cv, ok := child[name]; !ok || cv != val {
		return bad(fmt.Sprintf("an executed program sees %s=%q (present=%v)", name, cv, ok))
	}
	return nil
}

// checkRLaw: for every value v, ^(?:${X@R})$ must compile and match exactly v
// among the given strings.
func checkRLaw(root string, vals, strs []string) []kit.V {
	var vs []kit.V
	const chunk = 300
	for lo := 0; lo < len(vals); lo += chunk {
		hi := lo + chunk
		if hi > len(vals) {
			hi = len(vals)
		}
		var sb strings.Builder
		for i, v := range vals[lo:hi] {
			fmt.Fprintf(&sb, "env %s\nargs %d ${X@R}\n", Q("X="+v), i)
		}
		rec, _ := runScript(root, sb.String())
		for i, v := range vals[lo:hi] {
			got := rec.args[i]
			c := [2]string{v, ""}
			if len(got) != 1 {
				vs = append(vs, kit.V{Key: "rlaw-words value=" + strconv.Quote(v), What: fmt.Sprintf("${X@R} with X=%q gave %d words %q", v, len(got), got), Case: c})
				continue
			}
			re, err := regexp.Compile("^(?:" + got[0] + ")$")
			if err != nil {
				vs = append(vs, kit.V{Key: "rlaw-compile value=" + strconv.Quote(v), What: fmt.Sprintf("${X@R} with X=%q gave %q, which does not compile: %v", v, got[0], err), Case: c})
				continue
			}
			for _, s := range strs {
				if re.MatchString(s) != (s == v) {
					vs = append(vs, kit.V{Key: "rlaw-match value=" + strconv.Quote(v), What: fmt.Sprintf("${X@R} with X=%q gave %q, which matches %q: %v (want %v)", v, got[0], s, re.MatchString(s), s == v), Case: [2]string{v, s}})
					break
				}
			}
		}
	}
	sort.Slice(vs, func(i, j int) bool { return vs[i].Key < vs[j].Key })
	return vs
}
