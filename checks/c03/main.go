// C03 — txtar: Parse is total and Format/Parse round-trips (DESIGN.md §6 C03).
// Engine E: every byte string up to a length bound over a marker-relevant
// alphabet, and every well-formed archive from a small generator.
package main

import (
	"bytes"
	"encoding/json"
	"fmt"
	"os"
	"path/filepath"
	"strings"
	"sync/atomic"

	"github.com/rogpeppe/go-internal/txtar"
	xtxtar "golang.org/x/tools/txtar"

	"verif/enum"
	"verif/kit"
)

type kase struct {
	Kind  string `json:"kind"` // "bytes" or "archive"
	Input []byte `json:"input,omitempty"`
	Next  []byte `json:"next,omitempty"`
	Arch  *arch  `json:"archive,omitempty"`
}

type arch struct {
	Comment string      `json:"comment"`
	Files   [][2]string `json:"files"`
}

func parseSafe(x []byte) (a *txtar.Archive, pan any) {
	defer func() {
		if e := recover(); e != nil {
			pan = e
		}
	}()
	return txtar.Parse(x), nil
}

func same(a, b *txtar.Archive) bool {
	if !bytes.Equal(a.Comment, b.Comment) || len(a.Files) != len(b.Files) {
		return false
	}
	for i := range a.Files {
		if a.Files[i].Name != b.Files[i].Name || !bytes.Equal(a.Files[i].Data, b.Files[i].Data) {
			return false
		}
	}
	return true
}

func show(a *txtar.Archive) string {
	var sb strings.Builder
	fmt.Fprintf(&sb, "comment=%q", a.Comment)
	for _, f := range a.Files {
		fmt.Fprintf(&sb, " file %q=%q", f.Name, f.Data)
	}
	return sb.String()
}

// refIsMarker is the format's definition of a marker line (doc comment of the
// package): begins with "-- ", ends with " --", encloses a non-blank name.
func refIsMarker(line []byte) (string, bool) {
	if len(line) < 6 || !bytes.HasPrefix(line, []byte("-- ")) || !bytes.HasSuffix(line, []byte(" --")) {
		return "", false
	}
	name := strings.TrimSpace(string(line[3 : len(line)-3]))
	return name, name != ""
}

// refParse is an independent LF-only reference parser.
func refParse(x []byte) *txtar.Archive {
	a := new(txtar.Archive)
	cur := &a.Comment
	rest := x
	for len(rest) > 0 {
		var line []byte
		nl := bytes.IndexByte(rest, '\n')
		term := true
		if nl < 0 {
			line, rest, term = rest, nil, false
		} else {
			line, rest = rest[:nl], rest[nl+1:]
		}
		if name, ok := refIsMarker(line); ok {
			a.Files = append(a.Files, txtar.File{Name: name})
			cur = &a.Files[len(a.Files)-1].Data
			continue
		}
		*cur = append(*cur, line...)
		*cur = append(*cur, '\n')
		_ = term
	}
	return a
}

// crlfMarkers rewrites the LF ending each marker line to CRLF (x has no CR).
func crlfMarkers(x []byte) ([]byte, int) {
	var out []byte
	n := 0
	rest := x
	for len(rest) > 0 {
		nl := bytes.IndexByte(rest, '\n')
		if nl < 0 {
			out = append(out, rest...)
			break
		}
		line := rest[:nl]
		out = append(out, line...)
		if _, ok := refIsMarker(line); ok {
			out = append(out, '\r')
			n++
		}
		out = append(out, '\n')
		rest = rest[nl+1:]
	}
	return out, n
}

func checkBytes(x []byte) []kit.V {
	var vs []kit.V
	c := kase{Kind: "bytes", Input: append([]byte(nil), x...)}
	add := func(class, what string) {
		vs = append(vs, kit.V{Key: class + " input=" + kit.Q(x), What: what, Case: c})
	}
	a, pan := parseSafe(x)
	if pan != nil {
		add("parse-panic", fmt.Sprintf("txtar.Parse(%q) panics: %v", x, pan))
		return vs
	}
	for _, f := range a.Files {
		if len(f.Data) > 0 && f.Data[len(f.Data)-1] != '\n' {
			add("data-not-nl-terminated", fmt.Sprintf("Parse(%q): file %q data %q lacks final newline", x, f.Name, f.Data))
		}
		if f.Name == "" || strings.TrimSpace(f.Name) != f.Name || strings.Contains(f.Name, "\n") {
			add("bad-name", fmt.Sprintf("Parse(%q): file name %q", x, f.Name))
		}
	}
	fa := txtar.Format(a)
	b, pan := parseSafe(fa)
	if pan != nil {
		add("reparse-panic", fmt.Sprintf("Parse(Format(Parse(%q))) panics: %v", x, pan))
		return vs
	}
	if !same(a, b) {
		add("roundtrip", fmt.Sprintf("Parse(%q) = {%s} but Parse(Format(.)) = {%s}", x, show(a), show(b)))
	}
	// The same input as the head of a larger buffer (a slice with spare
	// capacity): same archive, the input untouched, nothing written behind it --
	// neither by Parse nor by formatting its result.
	buf := make([]byte, len(x)+8)
	copy(buf, x)
	for i := len(x); i < len(buf); i++ {
		buf[i] = 0xA5
	}
	intact := func() bool {
		for _, b := range buf[len(x):] {
			if b != 0xA5 {
				return false
			}
		}
		return bytes.Equal(buf[:len(x)], x)
	}
	a3, pan := parseSafe(buf[:len(x)])
	switch {
	case pan != nil:
		add("parse-panic-with-spare-capacity", fmt.Sprintf("txtar.Parse(%q) panics when the input is the head of a larger buffer: %v", x, pan))
	case !intact():
		add("parse-writes-to-its-input", fmt.Sprintf("txtar.Parse(%q) changed the caller's buffer: the input and the 8 bytes behind it are now %q", x, buf))
	case !same(a, a3):
		add("parse-depends-on-capacity", fmt.Sprintf("Parse(%q) = {%s} for a slice of exact capacity, {%s} for the same bytes at the head of a larger buffer", x, show(a), show(a3)))
	default:
		func() {
			defer func() {
				if e := recover(); e != nil {
					add("format-panic", fmt.Sprintf("Format(Parse(%q)) panics: %v", x, e))
				}
			}()
			fa3 := txtar.Format(a3)
			if !intact() || !same(a, a3) {
				add("format-writes-to-the-archive", fmt.Sprintf("Format of Parse(%q) changed the parsed input or the archive: buffer now %q, archive {%s}", x, buf, show(a3)))
			} else if !bytes.Equal(fa3, fa) {
				add("format-depends-on-capacity", fmt.Sprintf("Format(Parse(%q)) = %q for a slice of exact capacity, %q at the head of a larger buffer", x, fa, fa3))
			}
		}()
	}
	if bytes.IndexByte(x, '\r') < 0 {
		ref := xtxtar.Parse(x)
		if !same(a, ref) {
			add("differs-from-x/tools", fmt.Sprintf("Parse(%q) = {%s}, x/tools/txtar gives {%s}", x, show(a), show(ref)))
		}
		mine := refParse(x)
		if !same(a, mine) {
			add("differs-from-format-definition", fmt.Sprintf("Parse(%q) = {%s}, the format's definition gives {%s}", x, show(a), show(mine)))
		}
		if x2, n := crlfMarkers(x); n > 0 {
			a2, pan := parseSafe(x2)
			if pan != nil {
				add("crlf-panic", fmt.Sprintf("Parse(%q) panics: %v", x2, pan))
			} else if !same(a, a2) {
				add("crlf-marker", fmt.Sprintf("Parse(%q) = {%s} but with CRLF marker lines Parse(%q) = {%s}", x, show(a), x2, show(a2)))
			}
		}
	}
	return vs
}

// checkSequence: what Parse and Format returned for x must not change when they
// are called again for another input (results must not share storage with
// later calls; Parse may alias its own input only).
func checkSequence(x, next []byte) []kit.V {
	var vs []kit.V
	func() {
		defer func() { recover() }()
		in := append([]byte(nil), x...)
		a := txtar.Parse(in)
		f := txtar.Format(a)
		fc := append([]byte(nil), f...)
		before := show(a)
		n2 := append([]byte(nil), next...)
		txtar.Format(txtar.Parse(n2))
		if !bytes.Equal(f, fc) || show(a) != before {
			vs = append(vs, kit.V{
				Key:  "result-changed-by-later-call input=" + kit.Q(x),
				What: fmt.Sprintf("Parse(%q) / Format of it read {%s} / %q at first and {%s} / %q after Parse and Format were called for %q", x, before, fc, show(a), f, next),
				Case: kase{Kind: "sequence", Input: append([]byte(nil), x...), Next: append([]byte(nil), next...)},
			})
		}
	}()
	return vs
}

// checkParseFile: ParseFile of a file holding x gives what Parse(x) gives.
func checkParseFile(dir string, w int, x []byte) []kit.V {
	name := filepath.Join(dir, fmt.Sprintf("in%d.txtar", w))
	if err := os.WriteFile(name, x, 0o666); err != nil {
		kit.Harness("write input file: %v", err)
	}
	c := kase{Kind: "file", Input: append([]byte(nil), x...)}
	var a *txtar.Archive
	var err error
	var pan any
	func() {
		defer func() { pan = recover() }()
		a, err = txtar.ParseFile(name)
	}()
	switch {
	case pan != nil:
		return []kit.V{{Key: "parsefile-panic input=" + kit.Q(x), What: fmt.Sprintf("ParseFile of a file holding %q panics: %v", x, pan), Case: c}}
	case err != nil:
		return []kit.V{{Key: "parsefile-error input=" + kit.Q(x), What: fmt.Sprintf("ParseFile of a readable file holding %q fails: %v", x, err), Case: c}}
	}
	if b, _ := parseSafe(x); b != nil && !same(a, b) {
		return []kit.V{{Key: "parsefile-differs input=" + kit.Q(x), What: fmt.Sprintf("ParseFile of a file holding %q = {%s}, Parse of the same bytes = {%s}", x, show(a), show(b)), Case: c}}
	}
	return nil
}

func checkArchive(ar *arch) []kit.V {
	a := &txtar.Archive{Comment: []byte(ar.Comment)}
	for _, f := range ar.Files {
		a.Files = append(a.Files, txtar.File{Name: f[0], Data: []byte(f[1])})
	}
	c := kase{Kind: "archive", Arch: ar}
	key := fmt.Sprintf("wellformed-roundtrip archive=%q", show(a))
	b, pan := parseSafe(txtar.Format(a))
	if pan != nil {
		return []kit.V{{Key: key, What: fmt.Sprintf("Parse(Format(%s)) panics: %v", show(a), pan), Case: c}}
	}
	// nil and empty are the same contents
	if !same(a, b) {
		return []kit.V{{Key: key, What: fmt.Sprintf("well-formed {%s}: Parse(Format(.)) = {%s}", show(a), show(b)), Case: c}}
	}
	return nil
}

func main() {
	r := kit.Start("C03", "exploration")
	r.Replayer = func(raw json.RawMessage) []kit.V {
		var c kase
		if err := json.Unmarshal(raw, &c); err != nil {
			kit.Harness("bad case: %v", err)
		}
		if c.Kind == "archive" {
			return checkArchive(c.Arch)
		}
		if c.Kind == "sequence" {
			return checkSequence(c.Input, c.Next)
		}
		if c.Kind == "file" {
			d, err := os.MkdirTemp(os.Getenv("VERIF_SCRATCH"), "c03r")
			if err != nil {
				kit.Harness("mkdtemp: %v", err)
			}
			defer os.RemoveAll(d)
			return checkParseFile(d, 0, c.Input)
		}
		r.Watch(127, c.Input)
		defer r.WatchDone(127)
		return checkBytes(c.Input)
	}
	r.Stuck = func(input []byte) kit.V {
		return kit.V{Key: "no-return input=" + kit.Q(input), What: fmt.Sprintf("Parse/Format of %q does not return", input), Case: kase{Kind: "bytes", Input: input}}
	}
	r.ConcurrentReplay = true
	r.Noise = func(i int) {
		x := []byte(fmt.Sprintf("c%d\n-- f%d --\r\nbody %d\n-- g --\n", i, i%5, i))
		txtar.Parse(txtar.Format(txtar.Parse(x)))
	}
	r.MaybeReplay()

	maxLen := 10
	if r.Thorough() {
		maxLen = 13
	}
	scratch, err := os.MkdirTemp(os.Getenv("VERIF_SCRATCH"), "c03")
	if err != nil {
		kit.Harness("mkdtemp: %v", err)
	}
	defer os.RemoveAll(scratch)
	var viaFile int64
	alphas := []struct {
		name    string
		toks    [][]byte
		max     int
		viaFile bool // also through ParseFile (one file per input: the smaller family only)
	}{
		{"{- SP a LF CR}", enum.Bytes("-", " ", "a", "\n", "\r"), maxLen, false},
		{"{- SP TAB LF CR >}", enum.Bytes("-", " ", "\t", "\n", "\r", ">"), maxLen - 1, false},
		// whole marker pieces as tokens, so that bytes a text tool might treat
		// specially (byte-order marks, NUL, invalid UTF-8, Unicode line and space
		// characters, form feed) reach every position around a marker
		{"{'-- ' ' --' a LF CRLF BOM NUL 0xFF U+2028 NBSP FF UTF16-BOM}", enum.Bytes("-- ", " --", "a", "\n", "\r\n", "\xef\xbb\xbf", "\x00", "\xff", "\u2028", "\u00a0", "\f", "\xff\xfe"), maxLen - 5, true},
	}
	var evals, nontrivial, crlf int64
	var bounds []string
	for _, al := range alphas {
		var stop int32
		enum.Strings(al.toks, al.max, r.Workers(), func(w int, s []byte) {
			if atomic.LoadInt32(&stop) != 0 {
				return
			}
			n := atomic.AddInt64(&evals, 1)
			if n&0xfffff == 0 && r.Expired() {
				atomic.StoreInt32(&stop, 1)
			}
			if bytes.HasPrefix(s, []byte("-- ")) || bytes.Contains(s, []byte("\n-- ")) {
				atomic.AddInt64(&nontrivial, 1)
			}
			r.Watch(w, s)
			for _, v := range checkBytes(s) {
				r.Violation(v.Key, v.What, v.Case)
			}
			r.WatchDone(w)
			if n%509 == 0 && len(s) > 2 {
				for _, v := range checkSequence(s, append([]byte("-- z --\nqq\n"), s[2:]...)) {
					r.Violation(v.Key, v.What, v.Case)
				}
			}
			if n%3000017 == 1 {
				r.Sample(string(s))
			}
		})
		_ = crlf
		bounds = append(bounds, fmt.Sprintf("alphabet %s: all strings of length <= %d", al.name, al.max))
	}
	// the same through ParseFile: every string of up to 5 tokens of the alphabet of
	// whole marker pieces, one file each (the bound does not grow with the tier:
	// a file per input is slow)
	for _, al := range alphas {
		if !al.viaFile {
			continue
		}
		enum.Strings(al.toks, 5, r.Workers(), func(w int, s []byte) {
			if r.Capped() {
				return
			}
			r.Watch(w, s)
			for _, v := range checkParseFile(scratch, w, s) {
				r.Violation(v.Key, v.What, v.Case)
			}
			r.WatchDone(w)
			atomic.AddInt64(&viaFile, 1)
		})
	}
	// well-formed archives
	names := []string{"a", "a b", "-- x --", "é/ü"}
	bodies := []string{"", "x\n", "x\r\n", "> q\n", "--\n", "-- --x\n", "--  --\n", " -- a --\n"}
	comments := []string{"", "c\n", "c\r\n", "--\n", "\ufeffc\n", "\ufeff\n", "\x00\n"}
	var archives int64
	for _, cm := range comments {
		for nf := 0; nf <= 2; nf++ {
			var gen func(files [][2]string)
			gen = func(files [][2]string) {
				if len(files) == nf {
					archives++
					ar := &arch{Comment: cm, Files: append([][2]string(nil), files...)}
					if archives%97 == 1 {
						r.Sample(ar)
					}
					for _, v := range checkArchive(ar) {
						r.Violation(v.Key, v.What, v.Case)
					}
					return
				}
				for _, n := range names {
					for _, b := range bodies {
						gen(append(files, [2]string{n, b}))
					}
				}
			}
			gen(nil)
		}
	}
	r.Set("evaluations", evals+archives)
	r.Set("distinct_nontrivial", nontrivial+archives)
	r.Set("rule", "every token string over each alphabet up to the stated length, each visited once (distinct by construction); non-trivial = contains \"-- \" at a line start; plus every archive of <=2 files from the well-formed generator; the strings of up to 5 tokens of the third alphabet are also written to a file and read through ParseFile")
	r.Set("bounds", bounds)
	r.Set("byte_strings", evals)
	r.Set("wellformed_archives", archives)
	r.Set("inputs_also_read_through_ParseFile", viaFile)
	r.Set("exhaustive", !r.Capped())
	r.Assume("golang.org/x/tools/txtar v0.26.0 (the module /repo itself requires) is the reference definition for CR-free input; an independent 30-line reference parser is compared as well")
	r.Finish()
}
