// C13 — cache.Trim removes only stale entries and only when a trim is due
// (DESIGN.md §6 C13). Engine B with a virtual clock: breadth-first search over
// histories of (advance, operation) steps on the real Cache, deduplicated on the
// exact state (files with mtimes relative to now, trim record, last-use model);
// plus all small populations of entry / non-entry files x last-trim records.
package main

import (
	"bytes"
	"crypto/sha256"
	"encoding/json"
	"fmt"
	"golang.org/x/sys/unix"
	"os"
	"path/filepath"
	"sort"
	"strconv"
	"strings"
	"sync"
	"sync/atomic"
	"time"
	_ "time/tzdata"

	"github.com/rogpeppe/go-internal/cache"

	"verif/kit"
)

const (
	hour = time.Hour
	day  = 24 * time.Hour
)

var contents = [][]byte{[]byte("x1\n"), []byte("yy22\n"), {}}
var contentName = []string{"X", "Y", "E"}
var outIDs [3]cache.OutputID
var ids [2]cache.ActionID
var idName = []string{"A", "B"}

func init() {
	for i, c := range contents {
		outIDs[i] = sha256.Sum256(c)
	}
	for i := range ids[0] {
		ids[0][i] = 0xa0 + byte(i%7)
		ids[1][i] = 0xb0 + byte(i%5)
	}
}

func rel(id [32]byte, key string) string {
	return filepath.Join(fmt.Sprintf("%02x", id[0]), fmt.Sprintf("%x-%s", id, key))
}

type env struct {
	dir     string
	c       *cache.Cache
	t0      time.Time
	clk     time.Time
	lastUse map[string]time.Time // relative path -> true time of last store / lookup
	content map[int]int          // id -> content stored
}

func (e *env) now() time.Time { return e.clk }

func catch(f func()) (pan any) {
	defer func() { pan = recover() }()
	f()
	return nil
}

type fileInfo struct {
	Rel   string
	Data  string
	Mtime time.Time
}

// knownSub are the two-hex-digit subdirectories the harness ever puts files in.
var knownSub = map[string]bool{}

func init() {
	knownSub["00"] = true
	for _, id := range ids {
		knownSub[fmt.Sprintf("%02x", id[0])] = true
	}
	for _, o := range outIDs {
		knownSub[fmt.Sprintf("%02x", o[0])] = true
	}
}

// listing returns every regular file below dir: the top level, every directory
// there that is not one of the 256 cache subdirectories (fuzz/...), and the
// cache subdirectories the harness uses (directory mtimes are exempt; the other
// ~250 empty subdirectories are only checked to be listed at top level).
func listing(dir string) []fileInfo {
	var out []fileInfo
	var walk func(relDir string)
	walk = func(relDir string) {
		ents, _ := os.ReadDir(filepath.Join(dir, relDir))
		for _, ent := range ents {
			r := filepath.Join(relDir, ent.Name())
			if ent.IsDir() {
				if relDir == "" && len(ent.Name()) == 2 && !knownSub[ent.Name()] {
					continue
				}
				walk(r)
				continue
			}
			info, err := ent.Info()
			if err != nil {
				continue
			}
			if info.Mode()&os.ModeSymlink != 0 {
				// an entry behind a symbolic link: its age is the age of the file it
				// names (that is what lookups and stores refresh)
				ti, err := os.Stat(filepath.Join(dir, r))
				if err != nil {
					continue
				}
				info = ti
			}
			data, _ := os.ReadFile(filepath.Join(dir, r))
			out = append(out, fileInfo{r, string(data), info.ModTime()})
		}
	}
	walk("")
	sort.Slice(out, func(i, j int) bool { return out[i].Rel < out[j].Rel })
	return out
}

func isEntry(rel string) bool {
	// entries are the *-a and *-d files inside the two-hex-digit subdirectories
	d, f := filepath.Split(rel)
	d = strings.TrimSuffix(d, "/")
	if len(d) != 2 || strings.Contains(f, "/") {
		return false
	}
	return strings.HasSuffix(f, "-a") || strings.HasSuffix(f, "-d")
}

func maskEntryTime(rel string, data string) string {
	if !strings.HasSuffix(rel, "-a") || len(data) != cache.EntrySizeVerif {
		return data
	}
	off := 3 + 64 + 1 + 64 + 1 + 20 + 1
	return data[:off] + "<time>" + data[off+20:]
}

// trimRecord classifies trim.txt relative to now.
//
//	"recent"  a trim completed less than a day ago: Trim must do nothing
//	"due"     missing, unparsable, a day or more old, or more than an hour in the future: Trim must run
//	"either"  up to an hour in the future (clock skew): the statement decides nothing
func trimRecord(dir string, now time.Time) string {
	data, err := os.ReadFile(filepath.Join(dir, "trim.txt"))
	if err != nil {
		return "due"
	}
	t, err := strconv.ParseInt(strings.TrimSpace(string(data)), 10, 64)
	if err != nil {
		return "due"
	}
	d := now.Sub(time.Unix(t, 0))
	switch {
	case d >= 0 && d < day:
		return "recent"
	case d >= day:
		return "due"
	case d >= -hour:
		return "either"
	default:
		return "due"
	}
}

// doTrim calls Trim and checks every clause of the statement against the
// before/after listings.
func (e *env) doTrim() string {
	before := listing(e.dir)
	rec := trimRecord(e.dir, e.clk)
	var err error
	if p := catch(func() { err = e.c.Trim() }); p != nil {
		return fmt.Sprintf("Trim panics: %v", p)
	}
	if err != nil {
		return fmt.Sprintf("Trim fails: %v", err)
	}
	after := listing(e.dir)
	am := map[string]fileInfo{}
	for _, f := range after {
		am[f.Rel] = f
	}
	ran := false
	if t, ok := am["trim.txt"]; ok && strings.TrimSpace(t.Data) == fmt.Sprint(e.clk.Unix()) {
		// trim.txt holds now: either it ran now or it ran earlier at this very second
		ran = true
		for _, b := range before {
			if b.Rel == "trim.txt" && b.Data == t.Data && b.Mtime.Equal(t.Mtime) {
				ran = rec != "recent" // unchanged record: only counts as "ran" if it was not recent
			}
		}
	}
	same := len(before) == len(after)
	if same {
		for i := range before {
			if before[i] != after[i] {
				same = false
			}
		}
	}
	switch rec {
	case "recent":
		if !same {
			return fmt.Sprintf("a trim completed less than a day ago (trim.txt=%q, now=%d) but Trim changed the cache: before %s after %s", readTrim(e.dir, before), e.clk.Unix(), showList(before, e.clk), showList(after, e.clk))
		}
		return ""
	case "due":
		if !ran {
			return fmt.Sprintf("a trim was due (last-trim record %q, now=%d) but Trim did not record the trim time: trim.txt=%q", readTrim(e.dir, before), e.clk.Unix(), am["trim.txt"].Data)
		}
	case "either":
		if !ran {
			if !same {
				return fmt.Sprintf("Trim neither ran nor left the cache alone: before %s after %s", showList(before, e.clk), showList(after, e.clk))
			}
			return ""
		}
	}
	// it ran
	for _, b := range before {
		a, present := am[b.Rel]
		if b.Rel == "trim.txt" {
			continue
		}
		if !isEntry(b.Rel) {
			if !present || a != b {
				return fmt.Sprintf("Trim touched %q, which is not a cache entry (before %v, after present=%v %v)", b.Rel, b, present, a)
			}
			continue
		}
		age := e.clk.Sub(b.Mtime)
		lu, ok := e.lastUse[b.Rel]
		if !ok {
			lu = b.Mtime
		}
		if e.clk.Sub(lu) <= 5*day && !present {
			return fmt.Sprintf("Trim removed entry file %s that was stored or looked up %v ago (mtime %v ago)", b.Rel, e.clk.Sub(lu), age)
		}
		if age > 5*day+hour && present {
			return fmt.Sprintf("Trim ran but kept entry file %s unused for %v (> 5d+1h)", b.Rel, age)
		}
		if present && (a.Data != b.Data || !a.Mtime.Equal(b.Mtime)) {
			return fmt.Sprintf("Trim modified surviving file %s", b.Rel)
		}
	}
	for _, a := range after {
		found := false
		for _, b := range before {
			if a.Rel == b.Rel {
				found = true
			}
		}
		if !found && a.Rel != "trim.txt" {
			return fmt.Sprintf("Trim created %s", a.Rel)
		}
	}
	return ""
}

func readTrim(dir string, l []fileInfo) string {
	for _, f := range l {
		if f.Rel == "trim.txt" {
			return f.Data
		}
	}
	return "<missing>"
}

func showList(l []fileInfo, now time.Time) string {
	var sb strings.Builder
	for _, f := range l {
		name := f.Rel
		if len(name) > 14 {
			name = name[:5] + ".." + name[len(name)-4:]
		}
		fmt.Fprintf(&sb, "[%s age=%v] ", name, now.Sub(f.Mtime))
	}
	return sb.String()
}

// ---------- operations ----------

type opDef struct {
	name  string
	apply func(e *env) string
}

func (e *env) touch(rels ...string) {
	for _, r := range rels {
		e.lastUse[r] = e.clk
	}
}

func buildOps() []opDef {
	var ops []opDef
	put := func(i, ci int) opDef {
		return opDef{fmt.Sprintf("Put(%s,%s)", idName[i], contentName[ci]), func(e *env) string {
			var err error
			dpath := filepath.Join(e.dir, rel(outIDs[ci], "d"))
			_, statErr := os.Stat(dpath)
			if p := catch(func() { _, _, err = e.c.Put(ids[i], bytes.NewReader(contents[ci])) }); p != nil {
				return fmt.Sprintf("Put panics: %v", p)
			}
			if err != nil {
				return fmt.Sprintf("Put fails: %v", err)
			}
			if statErr != nil && len(contents[ci]) == 0 {
				// A file that Put creates carries the time of its creation. For
				// non-empty outputs copyFile sets it from c.now ("mainly for
				// tests"); the size-0 branch returns before that line, so under
				// the virtual clock the harness dates a newly created empty
				// output itself. An empty output that already existed is left
				// to the code under test.
				os.Chtimes(dpath, e.clk, e.clk)
			}
			e.content[i] = ci
			e.touch(rel(ids[i], "a"), rel(outIDs[ci], "d"))
			return ""
		}}
	}
	ops = append(ops, put(0, 0), put(1, 1), put(1, 0), put(0, 2), put(1, 2))
	lookup := func(kind string, i int) opDef {
		return opDef{fmt.Sprintf("%s(%s)", kind, idName[i]), func(e *env) string {
			var err error
			var ent cache.Entry
			p := catch(func() {
				switch kind {
				case "Get":
					ent, err = e.c.Get(ids[i])
				case "GetBytes":
					_, ent, err = e.c.GetBytes(ids[i])
				case "GetFile":
					_, ent, err = e.c.GetFile(ids[i])
				}
			})
			if p != nil {
				return fmt.Sprintf("%s panics: %v", kind, p)
			}
			if err == nil {
				e.touch(rel(ids[i], "a"))
				if kind != "Get" {
					e.touch(rel(ent.OutputID, "d"))
				}
			}
			return ""
		}}
	}
	ops = append(ops, lookup("Get", 0), lookup("GetBytes", 0), lookup("GetFile", 0), lookup("GetBytes", 1))
	ops = append(ops, opDef{"Trim", func(e *env) string { return e.doTrim() }})
	return ops
}

var deltas = []time.Duration{0, 59*time.Minute + 59*time.Second, hour, hour + time.Second, 23*hour + 59*time.Minute, day, day + time.Second,
	4*day + 23*hour, 5 * day, 5*day + 30*time.Minute, 5*day + hour, 5*day + hour + time.Second, 30 * day}

// ---------- workers ----------

type worker struct {
	base, dir string
	seq       int
	tmpl      *cache.Cache
	ops       []opDef
}

func newWorker(root string, n int, ops []opDef) *worker {
	return newWorkerAt(filepath.Join(root, fmt.Sprintf("w%d", n)), ops)
}

// newWorkerAt: a worker whose cache directories live under base (whose name the
// directory-name family chooses).
func newWorkerAt(base string, ops []opDef) *worker {
	w := &worker{base: base, ops: ops}
	os.MkdirAll(w.base, 0o777)
	w.dir = filepath.Join(w.base, "h0")
	os.MkdirAll(w.dir, 0o777)
	c, err := cache.Open(w.dir)
	if err != nil {
		kit.UnderTestFailed("cache.Open of a fresh directory fails: %v", err)
	}
	w.tmpl = c
	return w
}

// clockBase shifts the start of the virtual clock (set by the store-lookup-trim
// family to place "now" at several positions within the hour).
var clockBase time.Duration

// clockStart, if set, replaces the fixed start instant (used to run the
// store-lookup-trim family on clocks in a zone with daylight saving time, a few
// days after each of the two transitions of a year).
var clockStart *time.Time

func (w *worker) fresh() *env {
	w.seq++
	nd := filepath.Join(w.base, fmt.Sprintf("h%d", w.seq))
	if os.Getenv("NORENAME") != "" {
		nd = w.dir
	} else if err := os.Rename(w.dir, nd); err != nil {
		kit.Harness("rename: %v", err)
	}
	w.dir = nd
	// clear regular files and extra directories
	top, _ := os.ReadDir(nd)
	for _, t := range top {
		if t.IsDir() && len(t.Name()) == 2 {
			if knownSub[t.Name()] {
				ents, _ := os.ReadDir(filepath.Join(nd, t.Name()))
				for _, f := range ents {
					os.RemoveAll(filepath.Join(nd, t.Name(), f.Name()))
				}
			}
			continue
		}
		os.RemoveAll(filepath.Join(nd, t.Name()))
	}
	e := &env{dir: nd, lastUse: map[string]time.Time{}, content: map[int]int{}}
	// The virtual clock starts at a fixed instant (minute 7, second 11 of an hour),
	// not at the real time: whether a defect that rounds times to the hour shows
	// must not depend on when the check is run. clockBase may move it.
	e.t0 = time.Date(2026, 10, 2, 12, 7, 11, 0, time.UTC).Add(clockBase)
	if clockStart != nil {
		e.t0 = clockStart.Add(clockBase)
	}
	e.clk = e.t0
	e.c = cache.WithDirVerif(w.tmpl, nd)
	cache.SetNowVerif(e.c, e.now)
	return e
}

type step struct {
	Delta int `json:"delta"` // index into deltas, -1 none
	Op    int `json:"op"`
}

func (w *worker) stepName(s step) string {
	if s.Delta < 0 {
		return w.ops[s.Op].name
	}
	return fmt.Sprintf("+%v %s", deltas[s.Delta], w.ops[s.Op].name)
}

func (e *env) key() string {
	var sb strings.Builder
	for _, f := range listing(e.dir) {
		d := f.Data
		if f.Rel == "trim.txt" {
			if t, err := strconv.ParseInt(strings.TrimSpace(d), 10, 64); err == nil {
				d = fmt.Sprintf("trim@%v", e.clk.Sub(time.Unix(t, 0)))
			}
		}
		if f.Rel == "trim.txt" {
			// its modification time is the real time of the write (nothing sets or
			// reads it): not part of the state
			fmt.Fprintf(&sb, "%s=%q;", f.Rel, d)
			continue
		}
		fmt.Fprintf(&sb, "%s=%q@%v;", f.Rel, maskEntryTime(f.Rel, d), e.clk.Sub(f.Mtime))
	}
	var lu []string
	for r, t := range e.lastUse {
		lu = append(lu, fmt.Sprintf("%s:%v", r, e.clk.Sub(t)))
	}
	sort.Strings(lu)
	sb.WriteString(strings.Join(lu, ","))
	return sb.String()
}

// run replays the steps; the oracle lives inside the Trim operation, which is
// checked at every occurrence. Returns the violation (and at which step) or the
// state key.
func (w *worker) run(steps []step) (viol string, at int, key string) {
	e := w.fresh()
	for i, s := range steps {
		if s.Delta >= 0 {
			e.clk = e.clk.Add(deltas[s.Delta])
		}
		if v := w.ops[s.Op].apply(e); v != "" {
			return v, i, ""
		}
	}
	return "", -1, e.key()
}

// ---------- populations ----------

type popFile struct {
	Kind int `json:"kind"`
	Age  int `json:"age"` // index into ages
}

var popKinds = []string{"00/<hexA>-a", "00/<hexB>-d", "00/README", "00/x-b", "00/hex-a.tmp", "README", "fuzz/f-a", "zz-a", "00/sub/k-a", "00/<hexC>-a (symbolic link, itself 30 days old, to a file outside the entry directories)", "00/<hexD>-d (symbolic link, likewise)",
	// foreign names that look almost like entries (used alone and next to one real entry)
	"00/-", "00/<hex>-", "00/<hex>-ad", "00/<hex>-da", "00/<hex>-A", "00/<hex>-a~", "00/<hex>-a (trailing blank)", "00/<hex>.a", "00/a", "00/d"}

// pairKinds: the kinds that are combined freely; the look-alike names after them
// appear alone and next to one real entry.
const pairKinds = 11

// linkTarget: kinds 9 and 10 are entries relocated to a store and linked back.
// Lookups and stores refresh the file the link points to, so that file's age is
// the entry's age; the link itself is always 30 days old.
func linkTarget(kind int) string {
	switch kind {
	case 9:
		return "store/c-index"
	case 10:
		return "store/d-output"
	}
	return ""
}

var ages = append(append([]time.Duration{}, deltas...), -2*hour)

func popPath(kind int) string {
	switch kind {
	case 0:
		return "00/" + strings.Repeat("0a", 32) + "-a"
	case 1:
		return "00/" + strings.Repeat("0b", 32) + "-d"
	case 2:
		return "00/README"
	case 3:
		return "00/x-b"
	case 4:
		return "00/" + strings.Repeat("0c", 32) + "-a.tmp"
	case 5:
		return "README"
	case 6:
		return "fuzz/f-a"
	case 7:
		return "zz-a"
	case 9:
		return "00/" + strings.Repeat("0c", 32) + "-a"
	case 10:
		return "00/" + strings.Repeat("0d", 32) + "-d"
	case 11:
		return "00/-"
	case 12, 13, 14, 15, 16, 17, 18:
		return "00/" + strings.Repeat("0e", 32) + []string{"-", "-ad", "-da", "-A", "-a~", "-a ", ".a"}[kind-12]
	case 19:
		return "00/a"
	case 20:
		return "00/d"
	default:
		return "00/sub/k-a"
	}
}

// trim records relative to now; "" = missing
var trimRecs = []string{"<missing>", "<empty>", "abc", "pad:-1h", "-1h", "-23h59m", "-24h", "-24h1s", "+30m", "+1h", "+1h1s", "+30d", "12345678901234567890123"}

func trimRecContent(spec string, now time.Time) (string, bool) {
	switch spec {
	case "<missing>":
		return "", false
	case "<empty>":
		return "", true
	case "abc", "12345678901234567890123":
		return spec, true
	}
	pad := false
	if strings.HasPrefix(spec, "pad:") {
		pad = true
		spec = spec[4:]
	}
	d, err := time.ParseDuration(strings.Replace(spec, "30d", "720h", 1))
	if err != nil {
		kit.Harness("bad trim spec %q", spec)
	}
	s := fmt.Sprint(now.Add(d).Unix())
	if pad {
		s = "  " + s + " \n"
	}
	return s, true
}

type popCase struct {
	Files []popFile `json:"files"`
	Trim  string    `json:"trim"`
}

func (p popCase) String() string {
	var fs []string
	for _, f := range p.Files {
		fs = append(fs, fmt.Sprintf("%s age %v", popKinds[f.Kind], ages[f.Age]))
	}
	return fmt.Sprintf("{%s} trim.txt=%s", strings.Join(fs, ", "), p.Trim)
}

func (w *worker) runPop(p popCase) string {
	e := w.fresh()
	for _, f := range p.Files {
		path := filepath.Join(e.dir, popPath(f.Kind))
		os.MkdirAll(filepath.Dir(path), 0o777)
		mt := e.clk.Add(-ages[f.Age])
		if t := linkTarget(f.Kind); t != "" {
			target := filepath.Join(e.dir, t)
			os.MkdirAll(filepath.Dir(target), 0o777)
			os.WriteFile(target, []byte("data\n"), 0o666)
			os.Chtimes(target, mt, mt)
			os.Remove(path)
			if err := os.Symlink(target, path); err != nil {
				kit.Harness("symlink: %v", err)
			}
			old := unix.NsecToTimeval(e.clk.Add(-30 * day).UnixNano())
			if err := unix.Lutimes(path, []unix.Timeval{old, old}); err != nil {
				kit.Harness("lutimes: %v", err)
			}
			continue
		}
		os.WriteFile(path, []byte("data\n"), 0o666)
		os.Chtimes(path, mt, mt)
	}
	if s, ok := trimRecContent(p.Trim, e.clk); ok {
		path := filepath.Join(e.dir, "trim.txt")
		os.WriteFile(path, []byte(s), 0o666)
		mt := e.clk.Add(-3 * hour)
		os.Chtimes(path, mt, mt)
	}
	return e.doTrim()
}

type kase struct {
	Kind  string   `json:"kind"`
	Steps []step   `json:"steps,omitempty"`
	Names []string `json:"names,omitempty"`
	Pop   *popCase `json:"pop,omitempty"`
	// Base: shift of the virtual clock's start (store-lookup-trim family)
	Base   time.Duration `json:"clock_base,omitempty"`
	Family string        `json:"family,omitempty"` // "slt": the store-lookup-trim family
	Clock  string        `json:"clock,omitempty"`  // "", "New York, 5 March", "New York, 29 October"
	// DirName: the cache lives in a directory of this name (relative to the
	// scratch root); "" = the worker's ordinary directory
	DirName string `json:"dir_name,omitempty"`
}

func violClass(v string) string {
	f := strings.Fields(v)
	if len(f) > 4 {
		f = f[:4]
	}
	return strings.Join(f, "-")
}

func main() {
	r := kit.Start("C13", "model_checking")
	ops := buildOps()
	root, err := os.MkdirTemp(os.Getenv("VERIF_SCRATCH"), "c13")
	if err != nil {
		kit.Harness("mkdtemp: %v", err)
	}
	defer os.RemoveAll(root)
	var replaySeq int64
	r.Replayer = func(raw json.RawMessage) []kit.V {
		var c kase
		if err := json.Unmarshal(raw, &c); err != nil {
			kit.Harness("bad case: %v", err)
		}
		w := newWorker(root, 1000+int(atomic.AddInt64(&replaySeq, 1)), ops)
		if c.Kind == "population" {
			if v := w.runPop(*c.Pop); v != "" {
				return []kit.V{{Key: violClass(v) + " population=" + c.Pop.String(), What: v, Case: c}}
			}
			return nil
		}
		if c.DirName != "" {
			w = newWorkerAt(filepath.Join(root, fmt.Sprintf("replay%d", atomic.AddInt64(&replaySeq, 1)), c.DirName), ops)
		}
		clockBase = c.Base
		if ny, err := time.LoadLocation("America/New_York"); err == nil {
			switch c.Clock {
			case "New York, 5 March":
				t := time.Date(2026, 3, 5, 9, 7, 11, 0, ny)
				clockStart = &t
			case "New York, 29 October":
				t := time.Date(2026, 10, 29, 9, 7, 11, 0, ny)
				clockStart = &t
			}
		}
		defer func() { clockBase, clockStart = 0, nil }()
		v, at, _ := w.run(c.Steps)
		if v == "" {
			return nil
		}
		var names []string
		for _, s := range c.Steps[:at+1] {
			names = append(names, w.stepName(s))
		}
		if c.DirName != "" {
			return []kit.V{{Key: violClass(v) + fmt.Sprintf(" directory=%q history=", c.DirName) + strings.Join(names, "; "), What: v, Case: c}}
		}
		if c.Family == "slt" {
			return []kit.V{{Key: violClass(v) + fmt.Sprintf(" clock+%v%s history=", c.Base, c.Clock) + strings.Join(names, "; "), What: v, Case: c}}
		}
		return []kit.V{{Key: violClass(v) + " history=" + strings.Join(names, "; "), What: v, Case: c}}
	}
	r.MaybeReplay()

	nw := r.Workers()
	workers := make([]*worker, nw)
	for i := range workers {
		workers[i] = newWorker(root, i, ops)
	}
	var transitions, states, trims int64
	var perLevel []string
	var depthDone []string
	bfs := func(label string, deltaIdx []int, depth int) {
		var allSteps []step
		for _, d := range deltaIdx {
			for o := range ops {
				allSteps = append(allSteps, step{d, o})
			}
		}
		seen := map[string]bool{}
		_, _, k0 := workers[0].run(nil)
		seen[k0] = true
		frontier := [][]step{nil}
		states++
		completed := 0
		for d := 1; d <= depth && len(frontier) > 0; d++ {
			type out struct {
				steps []step
				viol  string
				at    int
				key   string
			}
			outs := make([][]out, nw)
			var next int64 = -1
			var wg sync.WaitGroup
			for wi := 0; wi < nw; wi++ {
				wg.Add(1)
				go func(wi int) {
					defer wg.Done()
					w := workers[wi]
					for {
						i := int(atomic.AddInt64(&next, 1))
						if i >= len(frontier) || r.Expired() {
							return
						}
						for _, s := range allSteps {
							st := append(append([]step(nil), frontier[i]...), s)
							v, at, key := w.run(st)
							atomic.AddInt64(&transitions, 1)
							if ops[s.Op].name == "Trim" {
								atomic.AddInt64(&trims, 1)
							}
							outs[wi] = append(outs[wi], out{st, v, at, key})
						}
					}
				}(wi)
			}
			wg.Wait()
			if r.Capped() {
				break
			}
			var all []out
			for _, o := range outs {
				all = append(all, o...)
			}
			sort.Slice(all, func(a, b int) bool {
				x, y := all[a].steps, all[b].steps
				for i := range x {
					if x[i] != y[i] {
						if x[i].Delta != y[i].Delta {
							return x[i].Delta < y[i].Delta
						}
						return x[i].Op < y[i].Op
					}
				}
				return false
			})
			var nf [][]step
			for _, o := range all {
				if o.viol != "" {
					var names []string
					for _, s := range o.steps[:o.at+1] {
						names = append(names, workers[0].stepName(s))
					}
					r.Violation(violClass(o.viol)+" history="+strings.Join(names, "; "), fmt.Sprintf("after %s: %s", strings.Join(names, "; "), o.viol), kase{Kind: "history", Steps: o.steps, Names: names})
					continue
				}
				if seen[o.key] {
					continue
				}
				seen[o.key] = true
				states++
				nf = append(nf, o.steps)
				if states%1499 == 5 {
					var names []string
					for _, s := range o.steps {
						names = append(names, workers[0].stepName(s))
					}
					r.Sample(strings.Join(names, "; "))
				}
			}
			frontier = nf
			completed = d
			perLevel = append(perLevel, fmt.Sprintf("%s, step %d: %d new states", label, d, len(nf)))
		}

		depthDone = append(depthDone, fmt.Sprintf("%s: %d steps completed", label, completed))
	}
	full := []int{-1}
	for i := range deltas {
		full = append(full, i)
	}
	// reduced: none, 1h+1s, 24h, 5d, 5d+1h+1s
	reduced := []int{-1, 3, 5, 8, 11}
	if r.Thorough() {
		bfs("all 13 deltas", full, 3)
		bfs("5 boundary deltas", reduced, 4)
	} else {
		bfs("all 13 deltas", full, 2)
		bfs("5 boundary deltas", reduced, 3)
	}

	// ----- store, lookup, trim: every pair of deltas, at three positions of the
	// clock within the hour (the one-hour allowance for stale mtimes is what
	// keeps an entry that was looked up within five days of the trim) -----
	var slt int64
	opIdx := map[string]int{}
	for i, o := range ops {
		opIdx[o.name] = i
	}
	type clockCase struct {
		name  string
		start *time.Time
		base  time.Duration
	}
	clocks := []clockCase{{"", nil, 0}, {"", nil, 30 * time.Minute}, {"", nil, 52*time.Minute + 40*time.Second}}
	if ny, err := time.LoadLocation("America/New_York"); err == nil {
		// three days before the clocks go forward / back, so that a trim five days
		// later looks back across the change: a cutoff computed in calendar days would
		// be an hour off
		spring := time.Date(2026, 3, 5, 9, 7, 11, 0, ny)
		autumn := time.Date(2026, 10, 29, 9, 7, 11, 0, ny)
		clocks = append(clocks, clockCase{"New York, 5 March", &spring, 0}, clockCase{"New York, 29 October", &autumn, 0})
	}
	for _, ck := range clocks {
		base := ck.base
		clockBase = base
		clockStart = ck.start
		for _, first := range []string{"Put(A,X)", "Put(B,X)"} {
			for _, look := range []string{"Get(A)", "GetBytes(A)", "GetFile(A)", "Put(A,X)"} {
				if first == "Put(B,X)" && look != "Put(A,X)" {
					continue
				}
				for d1 := range deltas {
					for d2 := range deltas {
						st := []step{{-1, opIdx[first]}, {d1, opIdx[look]}, {d2, opIdx["Trim"]}}
						if first == "Put(B,X)" {
							st = append([]step{{-1, opIdx["Put(A,X)"]}}, st...)
						}
						slt++
						if v, at, _ := workers[0].run(st); v != "" {
							var names []string
							for _, s := range st[:at+1] {
								names = append(names, workers[0].stepName(s))
							}
							r.Violation(violClass(v)+fmt.Sprintf(" clock+%v%s history=", base, ck.name)+strings.Join(names, "; "), fmt.Sprintf("clock %s started %v into the hour; after %s: %s", ck.name, 7*time.Minute+11*time.Second+base, strings.Join(names, "; "), v), kase{Kind: "history", Steps: st, Names: names, Base: base, Family: "slt", Clock: ck.name})
						}
					}
				}
			}
		}
	}
	clockBase = 0
	clockStart = nil
	r.Set("store_lookup_trim_histories", slt)

	// ----- the same family in cache directories whose names hold characters that
	// mean something to pattern matching, to shells or to the cache's own naming
	var dn int64
	dirNames := []string{"go-build[ci]", "a*b", "x?y", "back\\slash", "sp ace", "builds/[3]/go-build", "{a,b}", "%41", "~", "it-a", "it-d", "00", "trim.txt", "dot.", "-x", "caf\u00e9"}
	for di, name := range dirNames {
		wn := newWorkerAt(filepath.Join(root, fmt.Sprintf("named%d", di), name), ops)
		for _, look := range []string{"Get(A)", "Put(A,X)"} {
			for d1 := range deltas {
				for d2 := range deltas {
					st := []step{{-1, opIdx["Put(A,X)"]}, {d1, opIdx[look]}, {d2, opIdx["Trim"]}}
					dn++
					if v, at, _ := wn.run(st); v != "" {
						var names []string
						for _, s := range st[:at+1] {
							names = append(names, wn.stepName(s))
						}
						r.Violation(violClass(v)+fmt.Sprintf(" directory=%q history=", name)+strings.Join(names, "; "), fmt.Sprintf("cache in a directory named %q; after %s: %s", name, strings.Join(names, "; "), v), kase{Kind: "history", Steps: st, Names: names, DirName: name})
					}
				}
			}
		}
	}
	r.Set("histories_in_oddly_named_directories", dn)

	// ----- populations -----
	maxFiles := 2
	if r.Thorough() {
		maxFiles = 3
	}
	var pops []popCase
	var rec func(start int, cur []popFile)
	var allPF []popFile
	for k := 0; k < pairKinds; k++ {
		for a := range ages {
			allPF = append(allPF, popFile{k, a})
		}
	}
	// three-file populations (thorough) use the boundary ages and a reduced set of
	// trim records: the full product would be 3 million Trim calls
	boundaryAge := map[int]bool{0: true, 3: true, 8: true, 10: true, 11: true, 13: true}
	reducedRecs := []string{"<missing>", "abc", "-1h", "-24h", "+1h1s", "12345678901234567890123"}
	rec = func(start int, cur []popFile) {
		recs := trimRecs
		if len(cur) == 3 {
			for _, c := range cur {
				if !boundaryAge[c.Age] {
					return
				}
			}
			recs = reducedRecs
		}
		for _, tr := range recs {
			pops = append(pops, popCase{append([]popFile(nil), cur...), tr})
		}
		if len(cur) == maxFiles {
			return
		}
		for i := start; i < len(allPF); i++ {
			dup := false
			for _, c := range cur {
				if c.Kind == allPF[i].Kind {
					dup = true
				}
			}
			if !dup {
				rec(i+1, append(cur, allPF[i]))
			}
		}
	}
	rec(0, nil)
	// look-alike names: alone, and next to a real index entry of every age
	for k := pairKinds; k < len(popKinds); k++ {
		for a := range ages {
			for _, tr := range reducedRecs {
				pops = append(pops, popCase{[]popFile{{k, a}}, tr})
				if boundaryAge[a] {
					for ea := range ages {
						pops = append(pops, popCase{[]popFile{{0, ea}, {k, a}}, tr})
					}
				}
			}
		}
	}
	var popDone int64
	var next int64 = -1
	var wg sync.WaitGroup
	for wi := 0; wi < nw; wi++ {
		wg.Add(1)
		go func(wi int) {
			defer wg.Done()
			for {
				i := int(atomic.AddInt64(&next, 1))
				if i >= len(pops) || r.Expired() {
					return
				}
				if v := workers[wi].runPop(pops[i]); v != "" {
					p := pops[i]
					r.Violation(violClass(v)+" population="+p.String(), fmt.Sprintf("population %s: %s", p, v), kase{Kind: "population", Pop: &p})
				}
				atomic.AddInt64(&popDone, 1)
			}
		}(wi)
	}
	wg.Wait()
	r.Sample(map[string]any{"population": pops[len(pops)/2].String()})

	r.Set("states", states)
	r.Set("transitions", transitions+popDone)
	r.Set("traces_validated_against_impl", transitions+popDone)
	r.Set("history_depths_completed", depthDone)
	r.Set("histories_executed", transitions)
	r.Set("trim_calls_checked_in_histories", trims)
	r.Set("new_states_per_level", perLevel)
	r.Set("populations_checked", popDone)
	r.Set("populations_total", len(pops))
	r.Set("exhaustive", !r.Capped())
	r.Set("explanation", "a step = optional clock advance from a 13-value delta alphabet (boundaries of 1h, 24h, 5d, 5d+1h) followed by one of Put/Get/GetBytes/GetFile/Trim; all histories up to the step counts in history_depths_completed (full delta alphabet to the smaller depth, the five boundary deltas one step deeper), deduplicated on the exact state (files, mtimes relative to the virtual clock, trim record, last-use model); every Trim call is judged against the statement's reference model. populations = all sets of <= 2 files from 9 entry/non-entry kinds x 14 ages x 13 last-trim records (thorough: also all sets of 3 files over the 6 boundary ages x 6 records), each followed by one Trim; the store-lookup-trim family also in 16 cache directories whose names hold characters special to pattern matching, shells or the cache's own naming ([ ] * ? \\ { } % ~ blank, names ending in -a / -d, 00, trim.txt)")
	r.Assume("the clock is virtual (c.now replaced through an add-only export file, as the package's own tests do); file mtimes are real mtimes on the scratch file system; a newly created empty output is dated by the harness (copyFile's size-0 branch returns before the Chtimes that dates new files under a fake clock)")
	r.Assume("a last-trim record that is missing, unparsable, >= 24h old or more than an hour in the future means no trim completed less than a day ago, so the trim must run; within an hour in the future either behaviour is accepted")
	r.Finish()
}
