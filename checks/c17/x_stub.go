//go:build noextract

package main

// Used when the text of waitOrStop in the tree under check does not build on
// the virtual runtime (it uses something the virtual packages do not provide):
// part (i) is skipped, loudly, and the real-time grid alone decides. `check`
// falls back to this build only after the full build has failed.

import "verif/kit"

type xscenario struct {
	Behaviour  string `json:"behaviour"`
	ExitOK     bool   `json:"exit_ok"`
	KillDelay  int    `json:"kill_delay_ms"`
	CtxExpires bool   `json:"ctx_expires"`
}

type xcase struct {
	Scenario xscenario `json:"scenario"`
	Choices  []int     `json:"choices"`
	Trace    []string  `json:"trace,omitempty"`
}

type xstats struct {
	States, Steps, Executions int64
	Scenarios                 int
	Capped                    bool
}

func exploreX(r *kit.Run) xstats {
	r.Set("engine_x", "SKIPPED: waitOrStop as it stands in the tree does not build on the virtual runtime; only the real-time grid decided in this run")
	return xstats{States: 1, Steps: 1, Capped: true}
}

func replayX(c xcase) []kit.V { return nil }
