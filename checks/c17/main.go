// C17 — testscript honours its deadline: blocked commands are stopped and
// reported (DESIGN.md §6 C17). Part (i): the current text of waitOrStop is
// extracted from testscript.go by vinstr onto a virtual runtime and every
// interleaving of caller, helper goroutine, context expiry, timer and process
// events is explored (engine X + S; see virt.go / the generated wos package).
// Part (ii): a grid of real scripts x deadline distances on the real RunT with
// the real clock and real processes, with one-sided timing assertions only.
package main

import (
	"encoding/json"
	"fmt"
	"os"
	"path/filepath"
	"sort"
	"strconv"
	"strings"
	"sync"
	"syscall"
	"time"

	"github.com/rogpeppe/go-internal/testscript"

	"verif/kit"
	"verif/tsh"
)

// ---------- part (ii): real-time grid ----------

type gscript struct {
	Kind string `json:"kind"`
}

// script kinds. Every blocking helper writes its pid to "p" first.
var gkinds = map[string][]string{
	// blocks forever, exits 0 on SIGQUIT/SIGINT (a program that shuts down gracefully)
	"graceful0": {"ok 1", "exec hpid p 0 20", "ok 3"},
	// blocks forever, exits 3 on the interrupt
	"graceful3": {"ok 1", "exec hpid p 3 20", "ok 3"},
	// negated: the failure caused by the time-out must not count as the expected failure
	"negated": {"ok 1", "! exec hpid p 3 20", "ok 3"},
	// ignores the interrupt: must be killed one grace period later
	"stubborn": {"ok 1", "exec hstubborn p", "ok 3"},
	// finishes at once: unaffected by the deadline
	"early": {"ok 1", "exec hexit 0", "exec hsleep 50ms p", "ok 4", "mkdir done"},
	// runs for a while and finishes well before the deadline: unaffected too,
	// whatever its siblings do meanwhile
	"slowok": {"ok 1", "exec hsleep 300ms p", "ok 4", "mkdir done"},
	// a launcher: exits 0 at once while a descendant keeps the output pipe open
	// for 700 ms, well before the deadline: unaffected as well
	"lingerok": {"ok 1", "exec hlinger 700", "ok 4", "mkdir done"},
	// a background program that shrugs off SIGQUIT and exits on SIGINT, next to a
	// foreground command blocked until the deadline: the end-of-script clean-up
	// must still stop it
	"bgquitproof": {"ok 1", "exec hquitproof q &", "waitq", "exec hpid p 0 20", "ok 3"},
	// exits at about the moment the context expires
	"edge": {"ok 1", "exec hsleep EDGE p", "ok 3"},
	// terminal input larger than the pty buffer, given to a program that never reads it
	"ttyblock": {"ok 1", "ttyin big", "exec hpid p 3 20", "ok 3"},
}

type gcase struct {
	Scripts    []string `json:"scripts"`
	DistanceMS int      `json:"distance_ms"`
	Sequential bool     `json:"sequential"` // one test slot: later scripts start when earlier ones have ended
	Keep       bool     `json:"keep"`       // WorkdirRoot given (then RunT's own end-of-run bookkeeping is skipped)
}

func (g gcase) String() string {
	m := "parallel"
	if g.Sequential {
		m = "one-slot"
	}
	if g.Keep {
		m += ", WorkdirRoot"
	}
	return fmt.Sprintf("[%s] deadline in %dms, %s", strings.Join(g.Scripts, " "), g.DistanceMS, m)
}

func grace(dist time.Duration) time.Duration {
	g := 100 * time.Millisecond
	if gp := dist / 20; gp > g {
		g = gp
	}
	return g
}

type gobs struct {
	effects map[string][]string
	last    map[string]time.Time // time of the script's latest probe line
	pid     map[string]int
	pid2    map[string]int // a background helper of the script
	sig     map[string]string
	done    map[string]bool
	mu      sync.Mutex
}

var gseq int64
var gmu sync.Mutex

func blocking(kind string) bool {
	return kind != "early" && kind != "edge" && kind != "slowok" && kind != "lingerok"
}

// warmFarDeadline runs one trivial script under a deadline 200 s away. The grid's
// own deadlines are near; whatever a run with a distant deadline leaves behind in
// the process (the grace period is derived from the distance) must not reach
// later runs. It is called before the grid and before every replay.
func warmFarDeadline(root string) string {
	gmu.Lock()
	gseq++
	dir := filepath.Join(root, fmt.Sprintf("warm%d", gseq))
	gmu.Unlock()
	os.MkdirAll(filepath.Join(dir, "work"), 0o777)
	defer os.RemoveAll(dir)
	file := tsh.WriteScript(dir, "far.txt", "exists f\n-- f --\nx\n")
	t := tsh.NewT("goexit", false)
	p := testscript.Params{Files: []string{file}, Deadline: time.Now().Add(200 * time.Second), WorkdirRoot: filepath.Join(dir, "work")}
	t.RunRoot(func() { testscript.RunT(t, p) })
	if len(t.Results) != 1 || t.Results[0].Verdict != tsh.Pass {
		log := t.RootFatal
		if len(t.Results) == 1 {
			log = t.Results[0].Log
		}
		return "far-deadline-run: a script that only checks a file, run with a deadline 200 s away, does not pass: " + log
	}
	return ""
}

func runGrid(root string, g gcase) string {
	gmu.Lock()
	gseq++
	dir := filepath.Join(root, fmt.Sprintf("g%d", gseq))
	gmu.Unlock()
	work := filepath.Join(dir, "work")
	os.MkdirAll(work, 0o777)
	defer os.RemoveAll(dir)
	dist := time.Duration(g.DistanceMS) * time.Millisecond
	gr := grace(dist)
	var files []string
	for i, k := range g.Scripts {
		lines := append([]string{"watch"}, gkinds[k]...)
		for j := range lines {
			// the edge program sleeps until the moment the context is due to expire
			lines[j] = strings.Replace(lines[j], "EDGE", (dist - 2*gr).String(), 1)
		}
		text := strings.Join(lines, "\n") + "\n"
		if k == "ttyblock" {
			text += "-- big --\n" + strings.Repeat("0123456789abcdef\n", 16*1024)
		}
		files = append(files, tsh.WriteScript(dir, fmt.Sprintf("s%d%s.txt", i, k), text))
	}
	obs := &gobs{effects: map[string][]string{}, last: map[string]time.Time{}, pid: map[string]int{}, pid2: map[string]int{}, sig: map[string]string{}, done: map[string]bool{}}
	t := tsh.NewT("goexit", false)
	ended := map[string]time.Time{}
	var wg sync.WaitGroup
	gate := make(chan struct{})
	if !g.Sequential {
		t.RunHook = func(name string, body func()) {
			wg.Add(1)
			go func() {
				defer wg.Done()
				// a failing script ends its goroutine (runtime.Goexit): note the time on the way out
				defer func() {
					obs.mu.Lock()
					ended[name] = time.Now()
					obs.mu.Unlock()
				}()
				body()
			}()
		}
		t.ParallelHook = func(string) { <-gate }
	} else {
		t.RunHook = func(name string, body func()) {
			done := make(chan struct{})
			go func() { defer close(done); body() }()
			<-done
			obs.mu.Lock()
			ended[name] = time.Now()
			obs.mu.Unlock()
		}
	}
	start := time.Now()
	deadline := start.Add(dist)
	p := testscript.Params{
		Files:    files,
		Deadline: deadline,
		Cmds: map[string]func(ts *testscript.TestScript, neg bool, args []string){
			"ok": func(ts *testscript.TestScript, neg bool, args []string) {
				obs.mu.Lock()
				obs.effects[ts.Name()] = append(obs.effects[ts.Name()], args[0])
				obs.last[ts.Name()] = time.Now()
				obs.mu.Unlock()
			},
			// watch: at the end of the run (before the work directory goes away) note
			// the pid file, the signal record and the marker directory
			// waitq: the background helper has written its pid to "q"
			"waitq": func(ts *testscript.TestScript, neg bool, args []string) {
				name := ts.Name()
				for deadline := time.Now().Add(5 * time.Second); time.Now().Before(deadline); time.Sleep(time.Millisecond) {
					if data, err := os.ReadFile(ts.MkAbs("q")); err == nil {
						if pid, _ := strconv.Atoi(strings.TrimSpace(string(data))); pid > 0 {
							obs.mu.Lock()
							obs.pid2[name] = pid
							obs.mu.Unlock()
							return
						}
					}
				}
				ts.Fatalf("waitq: the background helper never wrote its pid")
			},
			"watch": func(ts *testscript.TestScript, neg bool, args []string) {
				name := ts.Name()
				wd := ts.MkAbs(".")
				ts.Defer(func() {
					obs.mu.Lock()
					defer obs.mu.Unlock()
					if data, err := os.ReadFile(filepath.Join(wd, "p")); err == nil {
						obs.pid[name], _ = strconv.Atoi(strings.TrimSpace(string(data)))
					}
					if data, err := os.ReadFile(filepath.Join(wd, "p.sig")); err == nil {
						obs.sig[name] = string(data)
					}
					if _, err := os.Stat(filepath.Join(wd, "done")); err == nil {
						obs.done[name] = true
					}
				})
			},
		},
	}
	if g.Keep {
		p.WorkdirRoot = work
	}
	// watchdog: a run that is still going long after its deadline is abandoned (its
	// goroutines stay parked for the rest of the process) and reported
	allDone := make(chan struct{})
	go func() {
		t.RunRoot(func() { testscript.RunT(t, p) })
		close(gate)
		wg.Wait()
		close(allDone)
	}()
	select {
	case <-allDone:
	case <-time.After(dist + 10*time.Second):
		for _, k := range g.Scripts {
			if k == "ttyblock" {
				return "hang-with-ttyin: RunT is still running 10 s after the deadline: a script gave terminal input larger than the pty buffer (ttyin) to a program that never reads it and blocks; after the program was stopped, exec's clean-up waits for its pty writer forever"
			}
		}
		return "hang: RunT is still running 10 s after the deadline"
	}
	finished := time.Now()
	slack := 3 * time.Second
	if len(t.Results) != len(g.Scripts) {
		return fmt.Sprintf("harness: RunT ran %d scripts: %s", len(t.Results), t.RootFatal)
	}
	// everything has ended by the deadline (plus scheduling slack)
	if finished.After(deadline.Add(slack)) {
		return fmt.Sprintf("overrun: RunT and its subtests finished %v after the deadline", finished.Sub(deadline).Round(time.Millisecond))
	}
	if os.Getenv("C17_DEBUG") != "" {
		obs.mu.Lock()
		for n, e := range ended {
			fmt.Fprintf(os.Stderr, "debug: %s ended %v after start (deadline %v) pid=%d sig=%q\n", n, e.Sub(start).Round(time.Millisecond), dist, obs.pid[n], obs.sig[n])
		}
		for _, r := range t.Results {
			fmt.Fprintf(os.Stderr, "debug: %s %s\n%s\n", r.Name, r.Verdict, r.Log)
		}
		obs.mu.Unlock()
	}
	for i, k := range g.Scripts {
		name := fmt.Sprintf("s%d%s", i, k)
		var res *tsh.Result
		for _, r := range t.Results {
			if r.Name == name {
				res = r
			}
		}
		if res == nil {
			return "harness: no result for " + name
		}
		obs.mu.Lock()
		pid, sigRec, markerMade, lastProbe := obs.pid[name], obs.sig[name], obs.done[name], obs.last[name]
		obs.mu.Unlock()
		if pid > 0 && tsh.PidAlive(pid) {
			syscall.Kill(pid, syscall.SIGKILL)
			return fmt.Sprintf("child-left-behind: script %s (%s): its child process %d is still alive after the run", name, k, pid)
		}
		obs.mu.Lock()
		pid2 := obs.pid2[name]
		obs.mu.Unlock()
		if pid2 > 0 && tsh.PidAlive(pid2) {
			syscall.Kill(pid2, syscall.SIGKILL)
			return fmt.Sprintf("child-left-behind: script %s (%s): its background process %d is still alive after the run", name, k, pid2)
		}
		eff := strings.Join(obs.effects[name], ",")
		switch {
		case k == "early" || k == "slowok" || k == "lingerok":
			if g.Sequential && i > 0 {
				// it may legitimately start after the deadline machinery has fired
				blockedBefore := false
				for _, kk := range g.Scripts[:i] {
					if blocking(kk) {
						blockedBefore = true
					}
				}
				if blockedBefore {
					break
				}
			}
			if !lastProbe.IsZero() && lastProbe.After(deadline.Add(-2*gr-150*time.Millisecond)) {
				break // the machine was so slow that the script itself ran into the deadline: inconclusive
			}
			if res.Verdict != tsh.Pass || eff != "1,4" {
				return fmt.Sprintf("early-finisher-affected: script %s finishes long before the deadline but is reported %s, lines run: %s; log:\n%s", name, res.Verdict, eff, res.Log)
			}
			if !markerMade {
				return fmt.Sprintf("early-finisher-affected: script %s did not run to its last line", name)
			}
		case k == "edge":
			// exits at about the moment the deadline machinery fires: pass or fail, but in time and without a child
		default:
			startedLate := g.Sequential && i > 0
			if res.Verdict != tsh.Fail {
				return fmt.Sprintf("blocked-script-not-failed: script %s (%s) was blocked in a foreground command until the deadline machinery stopped it, but is reported %s; log:\n%s", name, k, res.Verdict, res.Log)
			}
			if !strings.Contains(res.Log, "test timed out while running command") {
				return fmt.Sprintf("no-timed-out-message: script %s (%s) failed without the timed-out message; log:\n%s", name, k, res.Log)
			}
			if strings.Contains(eff, "3") {
				return fmt.Sprintf("line-after-timeout-ran: script %s (%s): a line after the timed-out command ran (%s)", name, k, eff)
			}
			if !startedLate && pid > 0 {
				// timers do not fire early: the interrupt is not delivered before
				// deadline - 2*grace (minus a small epsilon for clock granularity)
				if sigRec != "" {
					f := strings.Fields(sigRec)
					if ns, err := strconv.ParseInt(f[len(f)-1], 10, 64); err == nil {
						sigAt := time.Unix(0, ns)
						if sigAt.Before(deadline.Add(-2*gr - 30*time.Millisecond)) {
							return fmt.Sprintf("interrupted-too-early: script %s was interrupted %v before the deadline, earlier than two grace periods (%v)", name, deadline.Sub(sigAt).Round(time.Millisecond), 2*gr)
						}
						// ... and not a whole grace period late either (judged only where a grace
						// period is long against scheduling noise)
						if gr >= 400*time.Millisecond && sigAt.After(deadline.Add(-gr)) {
							return fmt.Sprintf("interrupted-too-late: script %s was interrupted %v before the deadline; it is due two grace periods (%v) before it", name, deadline.Sub(sigAt).Round(time.Millisecond), 2*gr)
						}
					}
				} else if k != "stubborn" {
					return fmt.Sprintf("no-interrupt: script %s (%s): the blocked program never received the interrupt", name, k)
				}
				if k == "stubborn" {
					obs.mu.Lock()
					e := ended[name]
					obs.mu.Unlock()
					if !e.IsZero() && e.Before(deadline.Add(-gr-30*time.Millisecond)) {
						return fmt.Sprintf("killed-too-early: script %s ended %v before the deadline, earlier than one grace period (%v) although its program ignores the interrupt", name, deadline.Sub(e).Round(time.Millisecond), gr)
					}
				}
			}
		}
	}
	return ""
}

func gridCases(th bool) []gcase {
	dists := []int{600, 1500}
	if th {
		dists = append(dists, 4000)
	}
	var out []gcase
	for _, d := range dists {
		for _, k := range []string{"graceful0", "graceful3", "negated", "stubborn", "early", "edge"} {
			out = append(out, gcase{[]string{k}, d, false, false})
		}
		out = append(out,
			gcase{[]string{"graceful0", "early"}, d, false, false},
			gcase{[]string{"stubborn", "early", "graceful3"}, d, false, false},
			gcase{[]string{"edge", "negated"}, d, false, false},
			// one test slot: the second and third script start when the first was stopped
			gcase{[]string{"graceful3", "graceful0", "stubborn"}, d, true, false},
			gcase{[]string{"early", "negated"}, d, true, false},
			gcase{[]string{"early", "early", "early"}, d, true, false},
			// a chain: every script after the first starts when the deadline machinery has
			// already fired and must be stopped at once, not after a timeout of its own
			gcase{[]string{"graceful3", "graceful0", "negated", "graceful0", "graceful3", "graceful0"}, d, true, false},
			gcase{[]string{"early", "graceful0"}, d, true, true},
			gcase{[]string{"stubborn", "early"}, d, false, true},
		)
		if d >= 1500 {
			out = append(out,
				gcase{[]string{"early", "slowok"}, d, false, true},
				gcase{[]string{"early", "slowok"}, d, true, true},
				gcase{[]string{"early", "slowok", "early"}, d, false, false})
		}
	}
	// a deadline far enough away for the grace period to grow beyond its floor
	out = append(out, gcase{[]string{"graceful3"}, 10000, false, false}, gcase{[]string{"stubborn", "early"}, 10000, false, false})
	out = append(out, gcase{[]string{"bgquitproof"}, 1500, false, false}, gcase{[]string{"early", "bgquitproof"}, 1500, true, false})
	out = append(out, gcase{[]string{"lingerok"}, 4000, false, false}, gcase{[]string{"early", "lingerok"}, 4000, false, true}, gcase{[]string{"lingerok", "early"}, 4000, true, false})
	out = append(out, gcase{[]string{"ttyblock"}, 600, false, false})
	return out
}

type kase struct {
	Kind string `json:"kind"` // grid | schedule
	Grid *gcase `json:"grid,omitempty"`
	X    *xcase `json:"x,omitempty"`
}

func gclass(v string) string {
	if i := strings.Index(v, ":"); i > 0 {
		return v[:i]
	}
	return "grid"
}

func main() { tsh.Main(func() int { realMain(); return 0 }) }

func realMain() {
	if os.Getenv(ignquitEnv) != "" {
		ignquitChild()
		return
	}
	r := kit.Start("C17", "model_checking")
	root, err := os.MkdirTemp(os.Getenv("VERIF_SCRATCH"), "c17")
	if err != nil {
		kit.Harness("mkdtemp: %v", err)
	}
	defer os.RemoveAll(root)
	r.Replayer = func(raw json.RawMessage) []kit.V {
		var c kase
		if err := json.Unmarshal(raw, &c); err != nil {
			kit.Harness("bad case: %v", err)
		}
		if c.Kind == "schedule" {
			return replayX(*c.X)
		}
		// real clock, real processes: every assertion is one-sided, so a violation seen
		// on any run is genuine, but it need not show on every run
		if c.Kind == "ignquit" {
			for try := 0; try < 3; try++ {
				if v := runIgnquit(); v != "" {
					return []kit.V{{Key: "interrupt-ignored-from-birth " + gclass(v), What: v, Case: c}}
				}
			}
			return nil
		}
		if c.Grid == nil {
			if v := warmFarDeadline(root); v != "" {
				return []kit.V{{Key: "far-deadline-run", What: v, Case: c}}
			}
			return nil
		}
		warmFarDeadline(root)
		for try := 0; try < 6; try++ {
			if v := runGrid(root, *c.Grid); v != "" {
				key := "grid=" + c.Grid.String()
				if gclass(v) == "hang-with-ttyin" {
					key = "hang-with-ttyin"
				}
				return []kit.V{{Key: key, What: v, Case: c}}
			}
		}
		return nil
	}
	r.MaybeReplay()

	// part (i)
	xs := exploreX(r)

	// part (ii): first one run with a distant deadline, then all grid cases
	// concurrently (they mostly wait for their deadlines)
	if v := warmFarDeadline(root); v != "" {
		r.Violation("far-deadline-run", v, kase{Kind: "grid"})
	}
	if v := runIgnquit(); v != "" {
		r.ViolationV(kit.V{Key: "interrupt-ignored-from-birth " + gclass(v), What: v, Case: kase{Kind: "ignquit"}, Timing: true})
	}
	cases := gridCases(r.Thorough())
	var wg sync.WaitGroup
	sem := make(chan struct{}, 8)
	var mu sync.Mutex
	var lines []string
	for _, g := range cases {
		g := g
		wg.Add(1)
		go func() {
			defer wg.Done()
			sem <- struct{}{}
			defer func() { <-sem }()
			v := runGrid(root, g)
			mu.Lock()
			defer mu.Unlock()
			if v != "" {
				gg := g
				key := "grid=" + g.String()
				if gclass(v) == "hang-with-ttyin" {
					key = "hang-with-ttyin"
				}
				r.ViolationV(kit.V{Key: key, What: fmt.Sprintf("%s: %s (%s)", g, v, gclass(v)), Case: kase{Kind: "grid", Grid: &gg}, Timing: true})
			}
			lines = append(lines, g.String())
		}()
	}
	wg.Wait()
	sort.Strings(lines)
	r.Sample(map[string]any{"grid_case": cases[len(cases)/2].String()})
	r.Set("states", xs.States)
	r.Set("transitions", xs.Steps)
	r.Set("traces_validated_against_impl", int64(len(cases))+xs.Executions)
	r.Set("virtual_executions_of_waitOrStop", xs.Executions)
	r.Set("virtual_scenarios", xs.Scenarios)
	r.Set("real_time_grid_cases", len(cases))
	r.Set("grid", lines)
	r.Set("exhaustive", !r.Capped() && !xs.Capped)
	r.Set("explanation", "(i) waitOrStop, extracted from the live testscript.go with go/channel/select syntax rewritten onto a virtual runtime, explored exhaustively (no bound, pruning on the global state) against scripted process behaviours x kill delay x context expiry; states/transitions are from (i). (ii) real RunT, real clock, real processes: scripts whose foreground command blocks and exits 0 / non-zero on the interrupt, is negated, ignores the interrupt, finishes early, or exits at about the moment of expiry; alone, in parallel batches and in one-slot batches where later scripts start after earlier ones were stopped; deadline 0.6 s and 1.5 s away (thorough also 4 s). Timing assertions are one-sided (nothing is required to happen fast except 'finished by deadline + 3 s')")
	r.Assume("(ii) is a finite grid on the real clock, not a schedule enumeration; the race between process exit and context expiry is enumerated only in (i)")
	r.Finish()
}
