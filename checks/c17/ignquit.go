// A program that ignores the interrupt from its first instruction on (the
// signal is ignored in the process that starts it, and an ignored signal stays
// ignored across exec): in a script that starts after the deadline machinery
// has fired it can only be ended by the kill one grace period later. The case
// runs in a process of its own, because the disposition is process-wide.
package main

import (
	"bytes"
	"fmt"
	"os"
	"os/exec"
	"os/signal"
	"path/filepath"
	"strconv"
	"strings"
	"syscall"
	"time"

	"github.com/rogpeppe/go-internal/testscript"

	"verif/kit"
	"verif/tsh"
)

const ignquitEnv = "C17_IGNQUIT_CASE"

// childrenOf lists the processes whose parent is pid.
func childrenOf(pid int) []int {
	var out []int
	ents, _ := os.ReadDir("/proc")
	for _, e := range ents {
		p, err := strconv.Atoi(e.Name())
		if err != nil {
			continue
		}
		data, err := os.ReadFile(filepath.Join("/proc", e.Name(), "stat"))
		if err != nil {
			continue
		}
		// pid (comm) state ppid ...
		i := bytes.LastIndexByte(data, ')')
		f := strings.Fields(string(data[i+1:]))
		if len(f) > 1 && f[1] == strconv.Itoa(pid) {
			out = append(out, p)
		}
	}
	return out
}

// ignquitChild is the body of the separate process: prints one RESULT line.
func ignquitChild() {
	signal.Ignore(syscall.SIGQUIT)
	dir, err := os.MkdirTemp(os.Getenv("VERIF_SCRATCH"), "c17iq")
	if err != nil {
		fmt.Println("RESULT harness: " + err.Error())
		return
	}
	defer os.RemoveAll(dir)
	var files []string
	for i := 0; i < 2; i++ {
		files = append(files, tsh.WriteScript(dir, fmt.Sprintf("s%d.txt", i), "exec sleep 600\n"))
	}
	start := time.Now()
	deadline := start.Add(1500 * time.Millisecond)
	// a T that runs its subtests one after another, as cmd/testscript's does
	t := tsh.NewT("panic", false)
	t.RunRoot(func() {
		testscript.RunT(t, testscript.Params{Files: files, Deadline: deadline})
	})
	took := time.Since(start)
	if left := childrenOf(os.Getpid()); len(left) > 0 {
		for _, p := range left {
			syscall.Kill(p, syscall.SIGKILL)
		}
		fmt.Printf("RESULT child-left-behind: %d programs started by the scripts are still alive after RunT returned\n", len(left))
		return
	}
	if len(t.Results) != 2 {
		fmt.Printf("RESULT harness: RunT ran %d scripts: %s\n", len(t.Results), t.RootFatal)
		return
	}
	for i, res := range t.Results {
		if res.Verdict != tsh.Fail || !strings.Contains(res.Log, "test timed out while running command") {
			fmt.Printf("RESULT blocked-script-not-failed: script %d (a program that ignores the interrupt, %s) is reported %s without the timed-out message\n", i, map[int]string{0: "running when the deadline machinery fired", 1: "started after it had fired"}[i], res.Verdict)
			return
		}
	}
	fmt.Printf("RESULT ok %v\n", took.Round(time.Millisecond))
}

// runIgnquit starts the separate process and returns a violation text or "".
func runIgnquit() string {
	if _, err := exec.LookPath("sleep"); err != nil {
		return ""
	}
	cmd := exec.Command(os.Args[0])
	cmd.Env = append(os.Environ(), ignquitEnv+"=1")
	cmd.SysProcAttr = &syscall.SysProcAttr{Pdeathsig: syscall.SIGKILL}
	var out bytes.Buffer
	cmd.Stdout, cmd.Stderr = &out, &out
	if err := cmd.Start(); err != nil {
		return ""
	}
	done := make(chan error, 1)
	go func() { done <- cmd.Wait() }()
	select {
	case <-done:
	case <-time.After(20 * time.Second):
		kids := childrenOf(cmd.Process.Pid)
		cmd.Process.Kill()
		for _, p := range kids {
			syscall.Kill(p, syscall.SIGKILL)
		}
		<-done
		return fmt.Sprintf("hang: two scripts run one after another, each blocked in a program that ignores the interrupt, deadline 1.5 s away: RunT is still running after 20 s (%d programs alive); the second script starts when the deadline machinery has already fired, and its program can only be ended by the kill one grace period later", len(kids))
	}
	if os.Getenv("C17_DEBUG") != "" {
		fmt.Fprintf(os.Stderr, "debug: ignquit child output:\n%s\n", out.String())
	}
	for _, l := range strings.Split(out.String(), "\n") {
		if r, ok := strings.CutPrefix(l, "RESULT "); ok {
			if strings.HasPrefix(r, "ok") {
				return ""
			}
			if strings.HasPrefix(r, "harness") {
				kit.Harness("C17 interrupt-ignored-from-birth case: %s", r)
			}
			return r
		}
	}
	return ""
}
