// C04 — testscript runs are isolated from each other and leave nothing behind
// (DESIGN.md §6 C04). Engine S at script-line granularity on the real RunT with
// real files and real child processes: every interleaving (preemption-bounded)
// of the lines of 2-3 concurrently running scripts and of RunT's end-of-run
// cleanup steps; plus a sequential part for the fresh and closed start state,
// plus a free-running -race pass.
package main

import (
	"context"
	"encoding/json"
	"flag"
	"fmt"
	"os"
	"os/exec"
	"path/filepath"
	"runtime"
	"sort"
	"strconv"
	"strings"
	"sync"
	"syscall"
	"time"

	"github.com/rogpeppe/go-internal/testscript"

	"verif/kit"
	"verif/sched"
	"verif/tsh"
	"verif/virt/vsync"
)

// script kinds (lines are given without the `yield` that precedes each of them)
var kinds = map[string][]string{
	"P":  {"mkdir sub", "cd sub", "env V=p", "snapshot"},
	"F":  {"mkdir made", "bad", "snapshot"},
	"K":  {"env V=k", "skip", "snapshot"},
	"T":  {"env V=t", "snapshot", "stop", "bad"},
	"B":  {"exec hpid pidfile 0 30 &", "waitfile pidfile", "recordpid pidfile"},
	"BF": {"exec hpid pidfile 0 30 &", "waitfile pidfile", "recordpid pidfile", "bad"},
	"BW": {"exec hexit 3 &", "exec hpid pidfile 0 30 &", "waitfile pidfile", "recordpid pidfile", "wait"},
	"BS": {"exec hpid pidfile 0 30 &", "waitfile pidfile", "recordpid pidfile", "skip"},
	"BD": {"exec hpid pidfile 0 30 &srv&", "waitfile pidfile", "recordpid pidfile", "watchpid pidfile2", "exec hpid pidfile2 0 30 &srv&", "snapshot"},
	"BN": {"exec hexit 0 &first&", "exec hpid pidfile 0 30 &", "exec hpid pidfile2 0 30 &", "waitfile pidfile", "recordpid pidfile", "waitfile pidfile2", "recordpid pidfile2", "wait first", "snapshot"},
	"BM": {"exec hpid pidfile 0 30 &a&", "exec hpid pidfile2 0 30 &", "exec hexit 0 &b&", "exec hpid pidfile3 0 30 &", "waitfile pidfile", "recordpid pidfile", "waitfile pidfile2", "recordpid pidfile2", "waitfile pidfile3", "recordpid pidfile3", "wait b"},
	"R":  {"mkdir ro/sub", "cp f ro/sub/f", "chmod 555 ro/sub", "chmod 555 ro", "snapshot"},
	"X":  {"env PATH=/nonexistent", "[exec:hexit] ok", "snapshot"},
	"Y":  {"[exec:hexit] ok", "snapshot"},
	"D":  {"deferlog a", "deferlog b", "deferlog c", "snapshot"},
	"DA": {"deferlog a", "deferlog b", "deferabort", "bad"},
	"E":  {"env V=e", "cd d", "snapshot", "exists ../f"},
	// a background program still running when the script ends early, and a
	// clean-up function that itself ends the test
	"BDA": {"exec hpid pidfile 0 30 &", "waitfile pidfile", "recordpid pidfile", "deferabort", "bad"},
	"BDK": {"exec hpid pidfile 0 30 &", "waitfile pidfile", "recordpid pidfile", "deferlog a", "deferabort", "skip"},
	// a program run in the foreground
	"EX": {"exec hexit 0", "env V=ex", "snapshot", "exec hexit 0"},
}

type scenario struct {
	Scripts []string `json:"scripts"` // kinds, run concurrently by one RunT
	Keep    bool     `json:"keep"`    // WorkdirRoot set (retention)
	Bound   int      `json:"bound"`
	// SameBase: the script files all have the same base name, in different
	// directories (RunT disambiguates the test names: same, same#1, ...)
	SameBase bool `json:"same_base"`
	// Bases: the base names (without .txt) of the script files, each file in a
	// directory of its own; names that RunT has to tell apart ("foo#1" next to
	// two files called "foo")
	Bases []string `json:"bases,omitempty"`
	// OneAtATime: the T runs every script to its end inside Run and its Parallel
	// does not pause (cmd/testscript's T and the package's own fakeT work that
	// way); Params.Deadline is set, an hour away
	OneAtATime bool `json:"one_at_a_time,omitempty"`
	// TestWork: Params.TestWork set without WorkdirRoot: work directories (and
	// with them the shared root) are to be kept
	TestWork bool `json:"test_work,omitempty"`
}

func (s scenario) String() string {
	b := fmt.Sprintf("preemptions<=%d", s.Bound)
	if s.Bound < 0 {
		b = "all schedules"
	}
	sb := ""
	if s.SameBase {
		sb = " same-file-base-name"
	}
	if s.Bases != nil {
		sb += fmt.Sprintf(" file-base-names=%q", s.Bases)
	}
	if s.OneAtATime {
		sb += " one-at-a-time-T deadline-in-1h"
	}
	if s.TestWork {
		sb += " TestWork"
	}
	return fmt.Sprintf("[%s] keep=%v%s %s", strings.Join(s.Scripts, " || "), s.Keep, sb, b)
}

// per-script observations
type scriptObs struct {
	Verdict   string
	FailLine  int
	Snapshots []string
	Effects   []string
	Deferred  []string
	Pids      []int
}

func (o scriptObs) String() string {
	return fmt.Sprintf("verdict=%s failline=%d snapshots=%v effects=%v deferred=%v", o.Verdict, o.FailLine, o.Snapshots, o.Effects, o.Deferred)
}

type instance struct {
	sc      scenario
	root    string
	dir     string
	tmp     string
	keepDir string
	obs     map[string]*scriptObs
	mu      sync.Mutex
	t       *tsh.T
	solo    map[string]string
	ts      map[string]testscript.T // script name -> its T (from Setup)
	post    string                  // post-run violation
}

var instSeq int

func scriptName(i int, kind string) string { return fmt.Sprintf("s%d%s", i, strings.ToLower(kind)) }

// testName is the name RunT gives script i of the scenario.
func (s scenario) testName(i int) string {
	if s.Bases != nil {
		// every script has a name of its own: the base name, or if that is taken
		// the base name followed by #1, #2, ... (the first that is free)
		taken := map[string]bool{}
		name := ""
		for k := 0; k <= i; k++ {
			name = s.Bases[k]
			for n := 1; taken[name]; n++ {
				name = fmt.Sprintf("%s#%d", s.Bases[k], n)
			}
			taken[name] = true
		}
		return name
	}
	if !s.SameBase {
		return scriptName(i, s.Scripts[i])
	}
	if i == 0 {
		return "same"
	}
	return fmt.Sprintf("same#%d", i)
}

func (in *instance) scriptText(kind string) string {
	var sb strings.Builder
	for _, l := range kinds[kind] {
		sb.WriteString("yield\n" + l + "\n")
	}
	sb.WriteString("yield\n")
	sb.WriteString("-- f --\nx\n-- d/e --\ne\n")
	return sb.String()
}

func (in *instance) cmds() map[string]func(ts *testscript.TestScript, neg bool, args []string) {
	get := func(ts *testscript.TestScript) *scriptObs {
		in.mu.Lock()
		defer in.mu.Unlock()
		o := in.obs[ts.Name()]
		if o == nil {
			o = &scriptObs{FailLine: -1}
			in.obs[ts.Name()] = o
		}
		return o
	}
	return map[string]func(ts *testscript.TestScript, neg bool, args []string){
		"yield": func(ts *testscript.TestScript, neg bool, args []string) {
			sched.Point(sched.Op{Kind: "line", Obj: ts.Name()})
		},
		"ok": func(ts *testscript.TestScript, neg bool, args []string) {
			o := get(ts)
			o.Effects = append(o.Effects, "ok")
		},
		"bad": func(ts *testscript.TestScript, neg bool, args []string) {
			o := get(ts)
			o.Effects = append(o.Effects, "bad")
			ts.Fatalf("bad")
		},
		"snapshot": func(ts *testscript.TestScript, neg bool, args []string) {
			o := get(ts)
			work := ts.Getenv("WORK")
			cwd, _ := filepath.Rel(work, ts.MkAbs("."))
			var names []string
			ents, _ := os.ReadDir(work)
			for _, e := range ents {
				names = append(names, e.Name())
			}
			sort.Strings(names)
			o.Snapshots = append(o.Snapshots, fmt.Sprintf("cwd=%s V=%q canary=%q files=%v", cwd, ts.Getenv("V"), ts.Getenv("VERIF_CANARY"), names))
		},
		"waitfile": func(ts *testscript.TestScript, neg bool, args []string) {
			deadline := time.Now().Add(10 * time.Second)
			for time.Now().Before(deadline) {
				if _, err := os.Stat(ts.MkAbs(args[0])); err == nil {
					return
				}
				time.Sleep(time.Millisecond)
			}
			ts.Fatalf("waitfile: %s never appeared", args[0])
		},
		// watchpid FILE: at the end of the run (before the work directory goes
		// away) note the process id a helper may have written to FILE after the
		// script line that started it was already declared failed
		"watchpid": func(ts *testscript.TestScript, neg bool, args []string) {
			o := get(ts)
			path := ts.MkAbs(args[0])
			ts.Defer(func() {
				for deadline := time.Now().Add(400 * time.Millisecond); time.Now().Before(deadline); time.Sleep(2 * time.Millisecond) {
					if data, err := os.ReadFile(path); err == nil {
						if pid, _ := strconv.Atoi(strings.TrimSpace(string(data))); pid > 0 {
							o.Pids = append(o.Pids, pid)
							return
						}
					}
				}
			})
		},
		"recordpid": func(ts *testscript.TestScript, neg bool, args []string) {
			o := get(ts)
			// the helper creates the file and then writes its pid: wait for the content
			pid := 0
			for deadline := time.Now().Add(10 * time.Second); pid <= 0 && time.Now().Before(deadline); {
				pid, _ = strconv.Atoi(strings.TrimSpace(ts.ReadFile(args[0])))
				if pid <= 0 {
					time.Sleep(time.Millisecond)
				}
			}
			if pid <= 0 {
				ts.Fatalf("recordpid: %s never held a process id", args[0])
			}
			o.Pids = append(o.Pids, pid)
		},
		"deferlog": func(ts *testscript.TestScript, neg bool, args []string) {
			o := get(ts)
			tag := args[0]
			ts.Defer(func() { o.Deferred = append(o.Deferred, tag) })
		},
		// a deferred function that does not return normally: a clean-up that calls
		// T.FailNow, which (like testing.T) ends the goroutine with runtime.Goexit
		"deferabort": func(ts *testscript.TestScript, neg bool, args []string) {
			o := get(ts)
			in.mu.Lock()
			t := in.ts[ts.Name()]
			in.mu.Unlock()
			ts.Defer(func() {
				o.Deferred = append(o.Deferred, "abort")
				t.FailNow()
			})
		},
	}
}

func (in *instance) body() {
	vsync.ResetNames()
	testscript.ResetExecCacheVerif()
	instSeq++
	in.dir = filepath.Join(in.root, fmt.Sprintf("x%d-%d", os.Getpid(), instSeq))
	in.tmp = filepath.Join(in.dir, "gotmp")
	scripts := filepath.Join(in.dir, "scripts")
	os.MkdirAll(in.tmp, 0o777)
	os.MkdirAll(scripts, 0o777)
	os.Setenv("GOTMPDIR", in.tmp)
	os.Setenv("VERIF_CANARY", "leaked")
	in.obs = map[string]*scriptObs{}
	in.ts = map[string]testscript.T{}
	in.post = ""
	var files []string
	for i, k := range in.sc.Scripts {
		if in.sc.Bases != nil {
			d := filepath.Join(scripts, fmt.Sprintf("dir%d", i))
			os.MkdirAll(d, 0o777)
			files = append(files, tsh.WriteScript(d, in.sc.Bases[i]+".txt", in.scriptText(k)))
			continue
		}
		if in.sc.SameBase {
			d := filepath.Join(scripts, fmt.Sprintf("dir%d", i))
			os.MkdirAll(d, 0o777)
			files = append(files, tsh.WriteScript(d, "same.txt", in.scriptText(k)))
			continue
		}
		files = append(files, tsh.WriteScript(scripts, scriptName(i, k)+".txt", in.scriptText(k)))
	}
	t := tsh.NewT("goexit", false)
	in.t = t
	rootDone := false
	if sched.Active() {
		t.RunHook = func(name string, body func()) { sched.Go(name, body) }
		t.ParallelHook = func(name string) {
			// like package testing: a parallel subtest resumes only after the function
			// that started it has returned
			sched.Block(sched.Op{Kind: "parallel", Obj: name}, func() bool { return rootDone })
		}
	} else {
		var wg sync.WaitGroup
		gate := make(chan struct{})
		t.RunHook = func(name string, body func()) {
			wg.Add(1)
			go func() { defer wg.Done(); body() }()
		}
		t.ParallelHook = func(string) { <-gate }
		defer func() { close(gate); wg.Wait() }()
	}
	if in.sc.OneAtATime {
		t.ParallelHook = func(string) {}
		if sched.Active() {
			t.RunHook = func(name string, body func()) {
				done := false
				sched.Go(name, func() {
					defer func() { done = true }()
					body()
				})
				sched.Block(sched.Op{Kind: "run-returns", Obj: name}, func() bool { return done })
			}
		} else {
			t.RunHook = func(name string, body func()) {
				done := make(chan struct{})
				go func() { defer close(done); body() }()
				<-done
			}
		}
	}
	p := testscript.Params{Files: files, Cmds: in.cmds(), Setup: func(e *testscript.Env) error {
		in.mu.Lock()
		in.ts[strings.TrimPrefix(filepath.Base(e.WorkDir), "script-")] = e.T()
		in.mu.Unlock()
		return nil
	}}
	if in.sc.Keep {
		in.keepDir = filepath.Join(in.dir, "keep")
		os.MkdirAll(in.keepDir, 0o777)
		p.WorkdirRoot = in.keepDir
	}
	p.TestWork = in.sc.TestWork
	if in.sc.OneAtATime {
		p.Deadline = time.Now().Add(time.Hour)
	}
	testscript.RunT(t, p)
	rootDone = true
}

// after: checks once every subtest has ended.
func (in *instance) after() (string, string) {
	for _, r := range in.t.Results {
		o := in.obs[r.Name]
		if o == nil {
			o = &scriptObs{FailLine: -1}
			in.obs[r.Name] = o
		}
		o.Verdict = string(r.Verdict)
		o.FailLine = tsh.FailLine(r.Log)
		if r.Verdict == tsh.Panicked {
			return "panic", fmt.Sprintf("script %s: a panic escaped the run: %s", r.Name, r.Panic)
		}
	}
	if len(in.t.Results) != len(in.sc.Scripts) {
		return "harness", fmt.Sprintf("RunT ran %d scripts: %s", len(in.t.Results), in.t.RootFatal)
	}
	for i, k := range in.sc.Scripts {
		name := in.sc.testName(i)
		o := in.obs[name]
		if o == nil {
			return "harness", fmt.Sprintf("no observations for script %s (results: %d)", name, len(in.t.Results))
		}
		if len("script-"+name) > 255 {
			// no directory of that name can be made: the script cannot be set up and
			// is reported failed; all that is asked is that the rest is unaffected
			// and everything is cleaned away (checked below)
			if o.Verdict != string(tsh.Fail) {
				return "long-name", fmt.Sprintf("script %s...: its work directory name is longer than a file name may be, yet it is reported %s", name[:20], o.Verdict)
			}
			continue
		}
		// (1) same results as when run alone
		if want, ok := in.solo[k]; ok && o.String() != want {
			class := "interference"
			if k == "X" || k == "Y" {
				class = "interference-exec-condition"
			}
			return class, fmt.Sprintf("script %s (kind %s) observed %s; run alone it observes %s", name, k, o, want)
		}
		// (2) deferred functions ran, in reverse order, exactly once
		var regs []string
		for _, l := range kinds[k] {
			switch {
			case strings.HasPrefix(l, "deferlog "):
				regs = append(regs, strings.TrimPrefix(l, "deferlog "))
			case l == "deferabort":
				regs = append(regs, "abort")
			}
		}
		var want []string
		for j := len(regs) - 1; j >= 0; j-- {
			want = append(want, regs[j])
		}
		if fmt.Sprint(o.Deferred) != fmt.Sprint(want) {
			return "deferred-functions", fmt.Sprintf("script %s registered deferred functions %v; at the end of the run these ran: %v (want each once, in reverse order)", name, regs, o.Deferred)
		}
		// (3) no process it started is still alive
		for _, pid := range o.Pids {
			if pid > 0 && tsh.PidAlive(pid) {
				syscall.Kill(pid, syscall.SIGKILL)
				return "process-left-behind", fmt.Sprintf("script %s: process %d it started is still alive after the run ended", name, pid)
			}
		}
	}
	// (4) work directories and the shared root
	ents, _ := os.ReadDir(in.tmp)
	if in.sc.TestWork && !in.sc.Keep {
		// retention without WorkdirRoot: one shared root holding every work directory
		if len(ents) != 1 {
			return "retention", fmt.Sprintf("TestWork was set but GOTMPDIR holds %v, want the one shared root", names(ents))
		}
		kept, _ := os.ReadDir(filepath.Join(in.tmp, ents[0].Name()))
		if len(kept) != len(in.sc.Scripts) {
			return "retention", fmt.Sprintf("TestWork was set but %d of %d work directories remain (%v)", len(kept), len(in.sc.Scripts), names(kept))
		}
		os.RemoveAll(filepath.Join(in.tmp, ents[0].Name()))
		return "", ""
	}
	if in.sc.Keep {
		kept, _ := os.ReadDir(in.keepDir)
		if len(kept) != len(in.sc.Scripts) {
			return "retention", fmt.Sprintf("work-directory retention was requested but %d of %d work directories remain", len(kept), len(in.sc.Scripts))
		}
		if len(ents) != 0 {
			return "temp-root-left", fmt.Sprintf("GOTMPDIR holds %v although WorkdirRoot was given", names(ents))
		}
	} else if len(ents) != 0 {
		var detail []string
		for _, e := range ents {
			sub, _ := os.ReadDir(filepath.Join(in.tmp, e.Name()))
			detail = append(detail, fmt.Sprintf("%s(%v)", e.Name(), names(sub)))
		}
		return "temp-root-left", fmt.Sprintf("after the last script ended GOTMPDIR is not empty: %v", detail)
	}
	return "", ""
}

func names(ents []os.DirEntry) []string {
	var n []string
	for _, e := range ents {
		n = append(n, e.Name())
	}
	return n
}

func cleanup(dir string) {
	filepath.Walk(dir, func(p string, info os.FileInfo, err error) error {
		if err == nil && info.IsDir() {
			os.Chmod(p, 0o777)
		}
		return nil
	})
	os.RemoveAll(dir)
}

func judge(in *instance, e *sched.Exec) (string, string) {
	switch {
	case e.PanicVal != nil:
		return "panic", fmt.Sprintf("panic: %v\n%s", e.PanicVal, e.PanicStack)
	case e.Deadlock:
		return "deadlock", "deadlock: " + e.DeadlockAt
	case e.Livelock:
		return "livelock", e.LivelockWhy()
	}
	return in.after()
}

// soloLogs runs every kind alone (free-running) and records its observations.
func soloLogs(root string, ks []string) map[string]string {
	out := map[string]string{}
	for _, k := range ks {
		if _, ok := out[k]; ok {
			continue
		}
		in := &instance{sc: scenario{Scripts: []string{k}}, root: root}
		in.body()
		in.after()
		out[k] = in.obs[scriptName(0, k)].String()
		cleanup(in.dir)
	}
	return out
}

type kase struct {
	Scenario scenario `json:"scenario"`
	Choices  []int    `json:"choices"`
	Trace    []string `json:"trace,omitempty"`
	Race     bool     `json:"race,omitempty"`
	Start    bool     `json:"start,omitempty"`
}

type shardResult struct {
	Executions int64   `json:"executions"`
	Steps      int64   `json:"steps"`
	MaxDepth   int     `json:"max_depth"`
	Capped     bool    `json:"capped"`
	Violations []kit.V `json:"violations"`
	Sample     []int   `json:"sample"`
	Wall       float64 `json:"wall"`
}

func runOnce(root string, sc scenario, solo map[string]string, choices []int, trace bool) (*instance, *sched.Exec) {
	in := &instance{sc: sc, root: root, solo: solo}
	e := sched.Run(in.body, sched.Options{Prefix: choices, Trace: trace, Horizon: 2000})
	return in, e
}

func vkey(class string, sc scenario) string {
	if class == "interference-exec-condition" {
		return "interference-exec-condition"
	}
	return fmt.Sprintf("%s scenario=%q", class, sc.String())
}

func explore(r *kit.Run, root string, sc scenario) (res shardResult) {
	t0 := time.Now()
	defer func() { res.Wall = time.Since(t0).Seconds() }()
	solo := soloLogs(root, sc.Scripts)
	in := &instance{sc: sc, root: root, solo: solo}
	seenExec := false
	x := &sched.Explorer{Body: func() { in.body() }, Bound: sc.Bound, Horizon: 2000, Stop: r.Expired}
	x.Check = func(e *sched.Exec) bool {
		res.Steps += int64(e.Steps)
		class, what := judge(in, e)
		dir := in.dir
		defer cleanup(dir)
		if class == "interference-exec-condition" && seenExec {
			return true
		}
		if class != "" {
			in2, te := runOnce(root, sc, solo, e.Choices, true)
			cleanup(in2.dir)
			res.Violations = append(res.Violations, kit.V{
				Key:  vkey(class, sc),
				What: fmt.Sprintf("%s: %s\nschedule: %s", sc, what, strings.Join(te.Trace, " | ")),
				Case: kase{Scenario: sc, Choices: e.Choices, Trace: te.Trace},
			})
			if class == "interference-exec-condition" && !e.Deadlock && e.PanicVal == nil {
				seenExec = true
				return true
			}
			return false
		}
		if res.Sample == nil && len(e.Choices) > 3 {
			res.Sample = append([]int(nil), e.Choices...)
		}
		return true
	}
	x.Run()
	res.Executions, res.MaxDepth, res.Capped = x.Executions, x.MaxDepth, x.Capped
	return res
}

func scenarios(th bool) []scenario {
	b2 := 2
	if th {
		b2 = 3
	}
	var scs []scenario
	pairs := [][]string{
		{"P", "F"}, {"P", "K"}, {"P", "T"}, {"F", "K"}, {"P", "P"}, {"F", "F"}, {"E", "P"}, {"E", "F"},
		{"P", "R"}, {"R", "F"}, {"R", "R"}, {"D", "F"}, {"D", "K"}, {"DA", "P"}, {"D", "T"},
		{"B", "P"}, {"BF", "P"}, {"BW", "P"}, {"BS", "P"}, {"B", "B"}, {"BN", "P"}, {"BM", "F"}, {"BDA", "P"},
		{"X", "Y"}, {"Y", "X"},
	}
	for _, p := range pairs {
		scs = append(scs, scenario{Scripts: p, Bound: b2})
	}
	for _, p := range [][]string{{"P", "F"}, {"P", "R"}, {"B", "K"}, {"D", "T"}} {
		scs = append(scs, scenario{Scripts: p, Keep: true, Bound: b2})
	}
	for _, p := range [][]string{{"P", "F"}, {"E", "P"}, {"P", "P"}} {
		scs = append(scs, scenario{Scripts: p, Bound: b2, SameBase: true}, scenario{Scripts: p, Keep: true, Bound: b2, SameBase: true})
	}
	for _, p := range [][]string{{"P", "F"}, {"K", "T"}, {"B", "D"}, {"P"}, {"F"}} {
		scs = append(scs, scenario{Scripts: p, TestWork: true, Bound: b2})
	}
	// file names that collide with the names RunT makes up to tell duplicates apart
	for _, bases := range [][]string{{"foo#1", "foo", "foo"}, {"foo", "foo#1", "foo"}, {"foo", "foo", "foo#1"}, {"foo#2", "foo#1", "foo"}} {
		scs = append(scs, scenario{Scripts: []string{"P", "E", "F"}, Bound: 1, Bases: bases})
	}
	for _, p := range [][]string{{"P", "EX", "EX"}, {"F", "EX"}, {"K", "EX", "B"}, {"EX", "T", "EX"}} {
		scs = append(scs, scenario{Scripts: p, Bound: 0, OneAtATime: true}, scenario{Scripts: p, Bound: 0, OneAtATime: true, Keep: true})
	}
	// names that differ only in what a normalisation might fold together
	// (blank / underscore / hyphen, letter case, a trailing dot)
	scs = append(scs, scenario{Scripts: []string{"P", "E", "F"}, Bound: 1, Bases: []string{"a b", "a_b", "a-b"}}, scenario{Scripts: []string{"P", "E", "F", "P"}, Bound: 0, Bases: []string{"ab", "AB", "ab.", "Ab"}})
	// a file name so long that "script-<name>" is no legal directory name any more:
	// that script cannot be set up, and everything must still be cleaned away
	long := strings.Repeat("n", 250)
	scs = append(scs, scenario{Scripts: []string{"P", "P"}, Bound: 1, Bases: []string{"plain", long}}, scenario{Scripts: []string{"P", "F", "P"}, Bound: 0, Bases: []string{long, "other", "plain"}})
	scs = append(scs, scenario{Scripts: []string{"P", "F"}, Bound: b2, Bases: []string{"foo#1", "foo#1"}}, scenario{Scripts: []string{"P", "E", "F", "P"}, Bound: 0, Bases: []string{"foo#1", "foo", "foo", "foo"}})
	// single scripts: every exit path on its own (cleanup with one script)
	for k := range kinds {
		if k == "X" || k == "Y" {
			continue
		}
		if k == "BD" {
			// its deferred observer waits 0.4 s for a file that must not appear: one schedule
			scs = append(scs, scenario{Scripts: []string{k}, Bound: 0})
			continue
		}
		scs = append(scs, scenario{Scripts: []string{k}, Bound: -1})
	}
	triples := [][]string{{"P", "F", "K"}, {"R", "P", "T"}, {"D", "F", "P"}}
	if th {
		triples = append(triples, []string{"B", "P", "F"}, []string{"R", "R", "F"}, []string{"E", "K", "T"})
	}
	for _, t := range triples {
		scs = append(scs, scenario{Scripts: t, Bound: 2})
	}
	sort.Slice(scs, func(i, j int) bool { return scs[i].String() < scs[j].String() })
	return scs
}

var racePass = flag.Bool("racepass", false, "free-running pass (build with -race, no overlay)")

func main() { tsh.Main(func() int { realMain(); return 0 }) }

func realMain() {
	r := kit.Start("C04", "model_checking")
	root, err := os.MkdirTemp(os.Getenv("VERIF_SCRATCH"), "c04")
	if err != nil {
		kit.Harness("mkdtemp: %v", err)
	}
	defer func() {
		if !kit.IsWorker() {
			cleanup(root)
		}
	}()
	if *racePass {
		raceMain(root)
		return
	}
	r.Replayer = func(raw json.RawMessage) []kit.V {
		var c kase
		if err := json.Unmarshal(raw, &c); err != nil {
			kit.Harness("bad case: %v", err)
		}
		if c.Race {
			return raceCheck()
		}
		if c.Start {
			return startState(root)
		}
		solo := soloLogs(root, c.Scenario.Scripts)
		in, e := runOnce(root, c.Scenario, solo, c.Choices, true)
		class, what := judge(in, e)
		cleanup(in.dir)
		if class == "" {
			return nil
		}
		return []kit.V{{Key: vkey(class, c.Scenario), What: what + "\nschedule: " + strings.Join(e.Trace, " | "), Case: c}}
	}
	r.MaybeReplay()
	scs := scenarios(r.Thorough())
	var tot shardResult
	var per []string
	r.JobName = func(j int) string { return fmt.Sprintf("scenario %v", scs[j]) }
	r.Sharded(len(scs), func(j int) any { return explore(r, root, scs[j]) }, func(j int, raw json.RawMessage) {
		var sr shardResult
		if err := json.Unmarshal(raw, &sr); err != nil {
			kit.Harness("shard result: %v", err)
		}
		tot.Executions += sr.Executions
		tot.Steps += sr.Steps
		tot.Capped = tot.Capped || sr.Capped
		if sr.MaxDepth > tot.MaxDepth {
			tot.MaxDepth = sr.MaxDepth
		}
		for _, v := range sr.Violations {
			r.Violation(v.Key, v.What, v.Case)
		}
		per = append(per, fmt.Sprintf("%s: executions=%d wall=%.1fs", scs[j], sr.Executions, sr.Wall))
		if sr.Sample != nil && j%4 == 0 {
			r.Sample(map[string]any{"scenario": scs[j].String(), "choices": sr.Sample})
		}
	})
	if kit.IsWorker() {
		cleanup(root)
		return
	}
	sort.Strings(per)
	for _, v := range startState(root) {
		r.Violation(v.Key, v.What, v.Case)
	}
	for _, v := range raceCheck() {
		r.ViolationV(v)
	}
	r.Set("states", tot.Steps)
	r.Set("transitions", tot.Steps)
	r.Set("traces_validated_against_impl", tot.Executions)
	r.Set("executions", tot.Executions)
	r.Set("scenarios", per)
	r.Set("max_decisions_in_one_execution", tot.MaxDepth)
	r.Set("exhaustive", !tot.Capped && !r.Capped())
	r.Set("explanation", "stateless exploration at script-line granularity: a scheduling point before every line of every script (a `yield` probe), at T.Parallel, and before the statements of RunT that remove the work directory, decrement the reference count and remove the shared root (inserted by vinstr from the live source). states = scheduling steps visited. Every execution runs the real RunT with real files and real child processes")
	r.Assume("goroutines that testscript starts itself for background commands are not controlled; they only wait for the script's own child")
	r.Assume("the helper program exits 30 ms after the interrupt, so code that forgets to wait for it is caught right after RunT returns; correct code has waited and cannot be reported")
	r.Finish()
}

// startState: the fresh and closed start of a script, checked sequentially:
// cwd, files, variables; host variables invisible; GOCOVERDIR / GORACE passed on.
func startState(root string) []kit.V {
	dir := filepath.Join(root, fmt.Sprintf("start%d", time.Now().UnixNano()))
	os.MkdirAll(dir, 0o777)
	defer cleanup(dir)
	os.Setenv("GOTMPDIR", dir)
	os.Setenv("VERIF_CANARY", "leaked")
	os.Setenv("GOCOVERDIR", "/cover/dir")
	os.Setenv("GORACE", "halt_on_error=0")
	defer os.Unsetenv("GOCOVERDIR")
	defer os.Unsetenv("GORACE")
	script := "snap\nexec henv\ncapenv\n-- a.txt --\nA\n-- sub/b.txt --\nB\n"
	file := tsh.WriteScript(dir, "st.txt", script)
	var got struct {
		cwd, work string
		files     []string
		env       map[string]string
		child     map[string]string
		childCwd  string
	}
	t := tsh.NewT("goexit", false)
	p := testscript.Params{
		Files: []string{file},
		Setup: func(e *testscript.Env) error {
			e.Vars = append(e.Vars, "FROMSETUP=1")
			return nil
		},
		Cmds: map[string]func(ts *testscript.TestScript, neg bool, args []string){
			"snap": func(ts *testscript.TestScript, neg bool, args []string) {
				got.work = ts.Getenv("WORK")
				got.cwd = ts.MkAbs(".")
				filepath.Walk(got.work, func(p string, info os.FileInfo, err error) error {
					if rel, _ := filepath.Rel(got.work, p); rel != "." {
						got.files = append(got.files, rel)
					}
					return nil
				})
				got.env = map[string]string{}
				for _, k := range []string{"VERIF_CANARY", "GOCOVERDIR", "GORACE", "FROMSETUP", "HOME", "TMPDIR", "devnull", "/", ":", "$", "exe", "GOTRACEBACK"} {
					got.env[k] = ts.Getenv(k)
				}
			},
			"capenv": func(ts *testscript.TestScript, neg bool, args []string) {
				got.child = map[string]string{}
				for _, kv := range strings.Split(ts.ReadFile("stdout"), "\x00") {
					if strings.HasPrefix(kv, "\x01CWD=") {
						got.childCwd = kv[5:]
						continue
					}
					if i := strings.IndexByte(kv, '='); i > 0 {
						got.child[kv[:i]] = kv[i+1:]
					}
				}
			},
		},
	}
	t.RunRoot(func() { testscript.RunT(t, p) })
	c := kase{Start: true}
	bad := func(what string) []kit.V {
		return []kit.V{{Key: "start-state " + strings.Fields(what)[0], What: what, Case: c}}
	}
	if len(t.Results) != 1 || t.Results[0].Verdict != tsh.Pass {
		return bad(fmt.Sprintf("run: the start-state script did not pass: %+v %s", t.Results, t.RootFatal))
	}
	if got.cwd != got.work {
		return bad(fmt.Sprintf("cwd: the script starts in %s, not in its work directory %s", got.cwd, got.work))
	}
	sort.Strings(got.files)
	if fmt.Sprint(got.files) != "[.tmp a.txt sub sub/b.txt]" {
		return bad(fmt.Sprintf("files: the work directory holds %v at start, want exactly the archive's files (and .tmp)", got.files))
	}
	want := map[string]string{"VERIF_CANARY": "", "GOCOVERDIR": "/cover/dir", "GORACE": "halt_on_error=0", "FROMSETUP": "1", "HOME": "/no-home", "TMPDIR": filepath.Join(got.work, ".tmp"), "devnull": os.DevNull, "/": "/", ":": ":", "$": "$", "exe": "", "GOTRACEBACK": "system"}
	for k, v := range want {
		if got.env[k] != v {
			return bad(fmt.Sprintf("env: variable %s is %q in the script, want %q", k, got.env[k], v))
		}
	}
	documented := map[string]bool{"WORK": true, "PATH": true, "GOTRACEBACK": true, "HOME": true, "TMPDIR": true, "devnull": true, "/": true, ":": true, "$": true, "exe": true, "GOCOVERDIR": true, "GORACE": true, "FROMSETUP": true, "PWD": true}
	for k := range got.child {
		if !documented[k] {
			return bad(fmt.Sprintf("child-env: an executed program sees variable %s=%q, which is neither documented, nor added by Setup, nor GOCOVERDIR/GORACE", k, got.child[k]))
		}
	}
	for _, k := range []string{"GOCOVERDIR", "GORACE", "FROMSETUP", "WORK"} {
		if _, ok := got.child[k]; !ok {
			return bad(fmt.Sprintf("child-env: an executed program does not see %s", k))
		}
	}
	if got.childCwd != got.work {
		return bad(fmt.Sprintf("child-cwd: an executed program runs in %s, want %s", got.childCwd, got.work))
	}
	return nil
}

// ---------- race pass ----------

func raceMain(root string) {
	for it := 0; it < 6; it++ {
		for _, ks := range [][]string{{"P", "F", "K", "T"}, {"R", "D", "B", "P"}, {"BF", "BW", "E", "F"}} {
			in := &instance{sc: scenario{Scripts: ks}, root: root}
			in.body()
			class, what := in.after()
			cleanup(in.dir)
			if class != "" && class != "interference-exec-condition" {
				fmt.Printf("RACEPASS-ORACLE %s: %s\n", class, what)
				os.Exit(3)
			}
		}
	}
	fmt.Println("racepass done")
}

func raceCheck() []kit.V {
	bin := os.Getenv("VERIF_RACE_BIN")
	if bin == "" {
		return nil
	}
	// it normally takes seconds: five minutes without finishing is reported
	ctx, cancel := context.WithTimeout(context.Background(), 5*time.Minute)
	defer cancel()
	cmd := exec.CommandContext(ctx, bin, "-racepass")
	// the pass must not outlive this process (which may end early); the signal is
	// tied to the thread that starts the child, so this goroutine keeps its thread
	runtime.LockOSThread()
	defer runtime.UnlockOSThread()
	cmd.SysProcAttr = &syscall.SysProcAttr{Pdeathsig: syscall.SIGKILL}
	cmd.Env = append(os.Environ(), "GORACE=halt_on_error=1 exitcode=66")
	out, err := cmd.CombinedOutput()
	if err == nil {
		return nil
	}
	s := string(out)
	l := strings.Split(s, "\n")
	if len(l) > 30 {
		l = l[:30]
	}
	if ctx.Err() != nil {
		return []kit.V{{Key: "free-running-hang testscript", What: "the free-running pass did not finish within 5 minutes (a run never returned):\n" + strings.Join(l, "\n"), Case: kase{Race: true}, NoConfirm: true}}
	}
	if strings.Contains(s, "WARNING: DATA RACE") {
		return []kit.V{{Key: "data-race testscript", What: "race detector report in the free-running pass:\n" + strings.Join(l, "\n"), Case: kase{Race: true}, NoConfirm: true}}
	}
	if strings.Contains(s, "RACEPASS-ORACLE") {
		return []kit.V{{Key: "free-running-oracle testscript", What: strings.Join(l, "\n"), Case: kase{Race: true}, NoConfirm: true}}
	}
	if strings.Contains(s, "panic: ") || strings.Contains(s, "fatal error: ") {
		return []kit.V{{Key: "free-running-crash testscript", What: "the free-running pass crashed:\n" + strings.Join(l, "\n"), Case: kase{Race: true}, NoConfirm: true}}
	}
	kit.Harness("race pass failed: %v\n%s", err, strings.Join(l, "\n"))
	return nil
}
