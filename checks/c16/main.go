// C16 — UpdateScripts rewrites only the mismatching golden entries (DESIGN.md §6
// C16). Engine E over generated scripts; custom commands supply stdout / stderr
// / files without processes. The script file is parsed before and after.
package main

import (
	"bytes"
	"encoding/json"
	"fmt"
	"os"
	"path/filepath"
	"strconv"
	"strings"
	"sync"
	"sync/atomic"
	"unicode/utf8"

	"github.com/rogpeppe/go-internal/testscript"
	"github.com/rogpeppe/go-internal/txtar"

	"verif/kit"
	"verif/tsh"
)

// actual contents (what the command under test "produced")
var contents = []string{"", "x\n", "x y\n", "x", "-- m --\n", "a\n-- m --\n", ">q\n", "-- m --", "\n", "x\r\n", "a\n-- m --", "-- x\n", "y\n-- --\n-- a -- b\n", "r\r\n-- m --\r\nb\r\n"}

type cmpLine struct {
	Kind    string `json:"kind"` // stdout | stderr | file | outside | cmpenv | neg | respell
	Content int    `json:"content"`
	Match   bool   `json:"match"` // golden initially equals the actual content
}

type scase struct {
	Lines []cmpLine `json:"lines"`
	// Second: a second script run by the same RunT call (batch)
	Second []cmpLine `json:"second,omitempty"`
	// Dup: the archive holds an earlier entry with the same name as the first
	// golden (legal unless RequireUniqueNames); the later copy is the one on disk
	Dup bool `json:"dup,omitempty"`
	// End: a line after the comparisons that ends the script early and passed
	// ("stop", also behind a condition)
	End string `json:"end,omitempty"`
	// Again: the first comparison is made a second time, with the same actual
	// content against the same golden entry
	Again bool `json:"again,omitempty"`
	// Spell: the golden entries are named g<i>+Spell in the archive, where Spell
	// is a variable reference that expands to nothing when the archive is
	// unpacked ("$exe" on this platform, "${nosuchvar}"); the script says g<i>
	Spell string `json:"spell,omitempty"`
	// StreamNames: the golden entries are named stdout, stderr, ttyout (words
	// that as a first argument of cmp mean a stream; as the second they are files)
	StreamNames bool `json:"stream_names,omitempty"`
	// RelRoot: Params.WorkdirRoot is a relative path
	RelRoot bool `json:"rel_root,omitempty"`
	// DupSpell: an earlier entry "g0" and the effective first golden spelled
	// "./g0" name the same file; the later one is on disk and is "this entry"
	DupSpell bool `json:"dup_spell,omitempty"`
	// Noncanon: the script file is valid but not in the form Format writes (a
	// padded marker line, no final newline after the last entry)
	Noncanon bool `json:"noncanon,omitempty"`
	// CaseTwin: later entries G0, G1, ... whose names differ from the goldens'
	// only in the case of a letter (different files on this platform)
	CaseTwin bool `json:"case_twin,omitempty"`
	// CdFirst: the script changes into a subdirectory before its first
	// comparison and names the goldens from there (../g0)
	CdFirst bool `json:"cd_first,omitempty"`
	// Old: what a mismatching golden entry holds before the run (default "OLD\n")
	Old string `json:"old,omitempty"`
}

func oldOf(c scase) string {
	if c.Old != "" {
		return c.Old
	}
	return oldGolden
}

// entryName is the name of the i-th golden entry as written in the archive.
func entryName(c scase, i int) string {
	if c.DupSpell && i == 0 {
		return "./g0"
	}
	return goldenName(c, i) + c.Spell
}

// goldenName is the name the script uses for its i-th golden file.
func goldenName(c scase, i int) string {
	if c.StreamNames {
		// never the word that is the line's own first argument: cmp refuses to
		// compare a name with itself
		switch {
		case i > 0:
			return "ttyout"
		case c.Lines[0].Kind == "stderr":
			return "stdout"
		}
		return "stderr"
	}
	return fmt.Sprintf("g%d", i)
}

func (c scase) String() string {
	if c.Second != nil {
		return scase{Lines: c.Lines}.String() + " || " + scase{Lines: c.Second}.String()
	}
	var p []string
	if c.Dup {
		p = append(p, "duplicate-entry-name")
	}
	if c.Spell != "" {
		p = append(p, "entries-named-g<i>"+c.Spell)
	}
	if c.StreamNames {
		p = append(p, "entries-named-stdout-stderr-ttyout")
	}
	if c.RelRoot {
		p = append(p, "relative-work-root")
	}
	if c.DupSpell {
		p = append(p, "entry-g0-then-entry-./g0")
	}
	if c.Noncanon {
		p = append(p, "script-not-in-Format's-form")
	}
	if c.CaseTwin {
		p = append(p, "entries-G<i>-beside-g<i>")
	}
	if c.Old != "" {
		p = append(p, fmt.Sprintf("old-golden-content:%q", c.Old))
	}
	if c.CdFirst {
		p = append(p, "cd-sub-first")
	}
	for _, l := range c.Lines {
		m := "mismatch"
		if l.Match {
			m = "match"
		}
		p = append(p, fmt.Sprintf("%s:%q:%s", l.Kind, contents[l.Content], m))
	}
	if c.Again {
		p = append(p, "first-comparison-again")
	}
	if c.End != "" {
		p = append(p, c.End)
	}
	return strings.Join(p, " ; ")
}

func fixNL(s string) string {
	if s == "" || strings.HasSuffix(s, "\n") {
		return s
	}
	return s + "\n"
}

// hasMarker: would s, stored as a file body, change how the archive parses?
// (decided by the parser itself, as in C14, not by NeedsQuote)
func hasMarker(s string) bool {
	a := txtar.Parse(txtar.Format(&txtar.Archive{Files: []txtar.File{{Name: "f", Data: []byte(s)}}}))
	return !(len(a.Comment) == 0 && len(a.Files) == 1 && a.Files[0].Name == "f" && string(a.Files[0].Data) == fixNL(s))
}

func representable(s string) bool { return s == "" || strings.HasSuffix(s, "\n") }

const oldGolden = "OLD\n"

// build returns the script text.
func build(c scase) (string, bool) {
	var script strings.Builder
	var files []txtar.File
	files = append(files, txtar.File{Name: "pre", Data: []byte("untouched pre\n")})
	script.WriteString("# generated\n")
	if c.Dup || c.DupSpell {
		files = append(files, txtar.File{Name: "g0", Data: []byte("SHADOWED\n")})
	}
	if c.CdFirst {
		script.WriteString("cd sub\n")
	}
	for i, l := range c.Lines {
		g := goldenName(c, i)
		if c.CdFirst {
			if l.Kind == "respell" || l.Kind == "outside" {
				return "", false
			}
			g = "../" + g
		}
		golden := oldOf(c)
		if l.Match {
			if !representable(contents[l.Content]) || hasMarker(contents[l.Content]) {
				return "", false // a golden entry cannot hold this content verbatim
			}
			golden = contents[l.Content]
		} else if contents[l.Content] == oldGolden || contents[l.Content] == c.Old {
			return "", false
		}
		switch l.Kind {
		case "stdout":
			fmt.Fprintf(&script, "emit stdout %d\ncmp stdout %s\n", l.Content, g)
		case "stderr":
			fmt.Fprintf(&script, "emit stderr %d\ncmp stderr %s\n", l.Content, g)
		case "file":
			fmt.Fprintf(&script, "mkfile act%d %d\ncmp act%d %s\n", i, l.Content, i, g)
		case "respell":
			fmt.Fprintf(&script, "emit stdout %d\ncmp stdout ./sub/../%s\n", l.Content, g)
		case "neg":
			fmt.Fprintf(&script, "emit stdout %d\n! cmp stdout %s\n", l.Content, g)
		case "cmpenv":
			fmt.Fprintf(&script, "emit stdout %d\ncmpenv stdout %s\n", l.Content, g)
		case "outside":
			// the golden lives outside the archive (created by a command)
			fmt.Fprintf(&script, "mkgolden ../outside%d %v %d\nemit stdout %d\ncmp stdout ../outside%d\n", i, l.Match, l.Content, l.Content, i)
		}
		if l.Kind != "outside" {
			files = append(files, txtar.File{Name: entryName(c, i), Data: []byte(golden)})
		} else {
			files = append(files, txtar.File{Name: entryName(c, i), Data: []byte("decoy, never compared\n")})
		}
		files = append(files, txtar.File{Name: fmt.Sprintf("mid%d", i), Data: []byte(fmt.Sprintf("untouched %d\n> keep\n", i))})
	}
	files = append(files, txtar.File{Name: "sub/keep", Data: nil}, txtar.File{Name: "post", Data: []byte("untouched post\n")})
	if c.CaseTwin {
		for i := range c.Lines {
			files = append(files, txtar.File{Name: strings.ToUpper(entryName(c, i)), Data: []byte(fmt.Sprintf("TWIN %d\n", i))})
		}
	}
	if c.Again {
		l := c.Lines[0]
		switch l.Kind {
		case "stdout":
			fmt.Fprintf(&script, "emit stdout %d\ncmp stdout g0\n", l.Content)
		case "stderr":
			fmt.Fprintf(&script, "emit stderr %d\ncmp stderr g0\n", l.Content)
		case "file":
			fmt.Fprintf(&script, "cmp act0 g0\n")
		case "respell":
			fmt.Fprintf(&script, "emit stdout %d\ncmp stdout g0\n", l.Content)
		default:
			return "", false
		}
	}
	if c.End != "" {
		// the script ends here, passed; the line after it must not matter
		fmt.Fprintf(&script, "%s\ncmp pre post\n", c.End)
	}
	script.WriteString("\n\n")
	text := string(txtar.Format(&txtar.Archive{Comment: []byte(script.String()), Files: files}))
	if c.Noncanon {
		text = strings.Replace(text, "-- pre --", "--   pre   --", 1)
		text = strings.TrimSuffix(text, "\n")
	}
	return text, true
}

var runSeq int64

// relRoot: the work-directory root is given as a path relative to the process's
// current directory (which realMain sets to the scratch root).
func runOn(root string, files []string, update bool, relRoot ...bool) []*tsh.Result {
	t := tsh.NewT("goexit", false)
	wr := filepath.Join(root, fmt.Sprintf("work%d", atomic.AddInt64(&runSeq, 1)))
	if len(relRoot) > 0 && relRoot[0] {
		cwd, err := os.Getwd()
		if err != nil {
			kit.Harness("getwd: %v", err)
		}
		if wr, err = filepath.Rel(cwd, wr); err != nil {
			kit.Harness("rel: %v", err)
		}
	}
	p := testscript.Params{
		Files:         files,
		UpdateScripts: update,
		WorkdirRoot:   wr,
		Cmds: map[string]func(ts *testscript.TestScript, neg bool, args []string){
			"emit": func(ts *testscript.TestScript, neg bool, args []string) {
				var k int
				fmt.Sscan(args[1], &k)
				if args[0] == "stdout" {
					fmt.Fprint(ts.Stdout(), contents[k])
				} else {
					fmt.Fprint(ts.Stderr(), contents[k])
				}
			},
			"mkfile": func(ts *testscript.TestScript, neg bool, args []string) {
				var k int
				fmt.Sscan(args[1], &k)
				ts.Check(os.WriteFile(ts.MkAbs(args[0]), []byte(contents[k]), 0o666))
			},
			"mkgolden": func(ts *testscript.TestScript, neg bool, args []string) {
				var k int
				fmt.Sscan(args[2], &k)
				data := oldGolden
				if args[1] == "true" {
					data = contents[k]
				}
				ts.Check(os.WriteFile(ts.MkAbs(args[0]), []byte(data), 0o666))
			},
		},
	}
	os.MkdirAll(p.WorkdirRoot, 0o777)
	defer os.RemoveAll(p.WorkdirRoot)
	t.RunRoot(func() { testscript.RunT(t, p) })
	if len(t.Results) != len(files) {
		kit.UnderTestFailed("RunT was given %d scripts and ran %d subtests: %s", len(files), len(t.Results), t.RootFatal)
	}
	return t.Results
}

type counters struct{ updated, quoted, unquotable, untouched, reruns int64 }

func check(root string, c scase, st *counters) string {
	text, ok := build(c)
	if !ok {
		return ""
	}
	dir := filepath.Join(root, fmt.Sprintf("c%d", atomic.AddInt64(&runSeq, 1)))
	os.MkdirAll(dir, 0o777)
	defer os.RemoveAll(dir)
	file := tsh.WriteScript(dir, "s.txt", text)
	res := runOn(dir, []string{file}, true, c.RelRoot)[0]
	return verify(dir, file, text, c, res, st)
}

// verify judges one script file after a run with UpdateScripts.
func verify(dir, file, text string, c scase, res *tsh.Result, st *counters) string {
	before := txtar.Parse([]byte(text))
	afterBytes, err := os.ReadFile(file)
	if err != nil {
		return fmt.Sprintf("script file unreadable after the run: %v", err)
	}
	after := txtar.Parse(afterBytes)

	// reference: walk the comparison lines in order
	wantFail := false
	updates := map[string]string{}
	unquotable := false
	for i, l := range c.Lines {
		g := entryName(c, i)
		act := contents[l.Content]
		equal := l.Match
		if wantFail {
			break
		}
		switch l.Kind {
		case "stdout", "stderr", "file", "respell":
			if !equal {
				updates[g] = act
			}
		case "neg":
			if equal {
				wantFail = true
			}
		case "cmpenv", "outside":
			if !equal {
				wantFail = true
			}
		}
	}
	wantEntry := map[string]string{}
	for g, act := range updates {
		switch {
		case !hasMarker(act):
			wantEntry[g] = fixNL(act)
		case representable(act) && utf8.ValidString(act):
			q, qerr := txtar.Quote([]byte(act))
			if qerr != nil {
				kit.UnderTestFailed("txtar.Quote(%q) fails: %v (the content is newline-terminated valid UTF-8)", act, qerr)
			}
			wantEntry[g] = string(q)
		default:
			unquotable = true
		}
	}
	if unquotable {
		// no implementation can store this content: only require that the script is not corrupted
		if st != nil {
			atomic.AddInt64(&st.unquotable, 1)
		}
		if !bytes.Equal(afterBytes, []byte(text)) {
			if len(after.Files) != len(before.Files) {
				return fmt.Sprintf("unquotable actual content: the rewritten script has %d entries, had %d (corrupted)", len(after.Files), len(before.Files))
			}
			for i := range before.Files {
				if after.Files[i].Name != before.Files[i].Name {
					return fmt.Sprintf("unquotable actual content: entry %d renamed %q -> %q (corrupted)", i, before.Files[i].Name, after.Files[i].Name)
				}
			}
		}
		return ""
	}
	if res.Verdict == tsh.Panicked {
		return "the run panicked: " + res.Panic
	}
	if wantFail {
		if res.Verdict != tsh.Fail {
			return fmt.Sprintf("a comparison that UpdateScripts must not rescue (outside file / cmpenv / negated cmp) failed, but the run is reported %s", res.Verdict)
		}
	} else if res.Verdict != tsh.Pass {
		return fmt.Sprintf("run with UpdateScripts reported %s, want pass; log:\n%s", res.Verdict, res.Log)
	}
	// script text and structure
	if !bytes.Equal(after.Comment, before.Comment) {
		return fmt.Sprintf("the script text changed: %q -> %q", before.Comment, after.Comment)
	}
	if len(after.Files) != len(before.Files) {
		return fmt.Sprintf("the archive has %d entries after the run, had %d", len(after.Files), len(before.Files))
	}
	for i := range before.Files {
		b, a := before.Files[i], after.Files[i]
		if a.Name != b.Name {
			return fmt.Sprintf("entry %d is named %q after the run, was %q (order/names must not change)", i, a.Name, b.Name)
		}
		want, upd := wantEntry[b.Name]
		if c.Dup && i == 1 {
			// the shadowed earlier copy of g0: which copies of a repeated name
			// receive the update is not specified beyond the effective (last) one
			if string(a.Data) != want && !bytes.Equal(a.Data, b.Data) {
				return fmt.Sprintf("the shadowed first copy of entry %q holds %q, neither its old content nor the actual content", b.Name, a.Data)
			}
			continue
		}
		if upd && !wantFail {
			if string(a.Data) != want {
				return fmt.Sprintf("golden entry %q holds %q after the run, want %q (actual content %q)", b.Name, a.Data, want, updates[b.Name])
			}
			if st != nil {
				atomic.AddInt64(&st.updated, 1)
				if want != fixNL(updates[b.Name]) {
					atomic.AddInt64(&st.quoted, 1)
				}
			}
			continue
		}
		if upd && wantFail {
			// the run failed at a later line: whether earlier recorded updates are
			// still written is not specified; either the old or the new content
			if string(a.Data) != want && !bytes.Equal(a.Data, b.Data) {
				return fmt.Sprintf("golden entry %q holds %q, neither the old nor the actual content", b.Name, a.Data)
			}
			continue
		}
		if !bytes.Equal(a.Data, b.Data) {
			return fmt.Sprintf("entry %q was modified (%q -> %q) although it is not a mismatching golden of a plain cmp", b.Name, b.Data, a.Data)
		}
		if st != nil {
			atomic.AddInt64(&st.untouched, 1)
		}
	}
	if len(updates) == 0 && !bytes.Equal(afterBytes, []byte(text)) {
		return "the script file was rewritten although no golden entry mismatched"
	}
	// second run without UpdateScripts
	if !wantFail && len(updates) > 0 {
		simple := true
		for g, act := range updates {
			if !representable(act) || wantEntry[g] != act {
				simple = false
			}
		}
		if simple {
			res2 := runOn(dir, []string{file}, false, c.RelRoot)[0]
			if st != nil {
				atomic.AddInt64(&st.reruns, 1)
			}
			if res2.Verdict != tsh.Pass {
				return fmt.Sprintf("re-running the updated script without UpdateScripts reports %s; log:\n%s", res2.Verdict, res2.Log)
			}
			again, _ := os.ReadFile(file)
			if !bytes.Equal(again, afterBytes) {
				return "re-running the updated script changed the script file"
			}
		}
	}
	return ""
}

// violClass: the message up to its first quoted or numeric detail, so that the
// class does not depend on which of several entries was hit first (the
// implementation walks a map).
// checkBatch: two scripts run by one RunT call; each file is judged on its own
// (updates recorded for one script must not reach the other).
func checkBatch(root string, c1, c2 scase, st *counters) string {
	t1, ok1 := build(c1)
	t2, ok2 := build(c2)
	if !ok1 || !ok2 {
		return ""
	}
	dir := filepath.Join(root, fmt.Sprintf("b%d", atomic.AddInt64(&runSeq, 1)))
	os.MkdirAll(dir, 0o777)
	defer os.RemoveAll(dir)
	f1 := tsh.WriteScript(dir, "one.txt", t1)
	f2 := tsh.WriteScript(dir, "two.txt", t2)
	rs := runOn(dir, []string{f1, f2}, true)
	if v := verify(dir, f1, t1, c1, rs[0], st); v != "" {
		return "first script of a batch: " + v
	}
	if v := verify(dir, f2, t2, c2, rs[1], st); v != "" {
		return "second script of a batch: " + v
	}
	return ""
}

func violClass(v string) string {
	f := strings.Fields(v)
	var out []string
	for _, w := range f {
		if strings.ContainsAny(w, "\"0123456789(") || len(out) == 5 {
			break
		}
		out = append(out, strings.Trim(w, ":,"))
	}
	return strings.Join(out, "-")
}

func main() { tsh.Main(func() int { realMain(); return 0 }) }

func realMain() {
	r := kit.Start("C16", "exploration")
	root, err := os.MkdirTemp(os.Getenv("VERIF_SCRATCH"), "c16")
	if err != nil {
		kit.Harness("mkdtemp: %v", err)
	}
	defer os.RemoveAll(root)
	// relative work-directory roots are relative to this
	if err := os.Chdir(root); err != nil {
		kit.Harness("chdir: %v", err)
	}
	r.Replayer = func(raw json.RawMessage) []kit.V {
		var c scase
		if err := json.Unmarshal(raw, &c); err != nil {
			kit.Harness("bad case: %v", err)
		}
		// The implementation applies recorded updates in map order, which the Go
		// runtime randomises: a defect there need not show on every run. The oracle
		// itself is a deterministic function of the files a run leaves, so a
		// violation seen on any run is genuine; the replay retries up to 40 times.
		for try := 0; try < 40; try++ {
			v := ""
			if c.Second != nil {
				v = checkBatch(root, scase{Lines: c.Lines}, scase{Lines: c.Second}, nil)
			} else {
				v = check(root, c, nil)
			}
			if v != "" {
				return []kit.V{{Key: "update-wrong script=" + c.String(), What: v, Case: c}}
			}
		}
		return nil
	}
	r.MaybeReplay()
	kinds := []string{"stdout", "stderr", "file", "respell", "neg", "cmpenv", "outside"}
	var lines []cmpLine
	for _, k := range kinds {
		for ci := range contents {
			lines = append(lines, cmpLine{k, ci, true}, cmpLine{k, ci, false})
		}
	}
	var cases []scase
	for _, a := range lines {
		cases = append(cases, scase{Lines: []cmpLine{a}})
		for _, b := range lines {
			cases = append(cases, scase{Lines: []cmpLine{a, b}})
		}
	}
	if r.Thorough() {
		// three comparisons over a reduced alphabet
		var red []cmpLine
		for _, k := range kinds {
			for _, ci := range []int{1, 3, 4, 5, 7, 9, 11, 13} {
				red = append(red, cmpLine{k, ci, false})
			}
			red = append(red, cmpLine{k, 1, true}, cmpLine{k, 8, true})
		}
		for _, a := range red {
			for _, b := range red {
				for _, c := range red {
					cases = append(cases, scase{Lines: []cmpLine{a, b, c}})
				}
			}
		}
	}
	// batches of two scripts in one RunT call
	var batchLines []cmpLine
	for _, k := range []string{"stdout", "file", "neg", "outside"} {
		for _, ci := range []int{1, 3, 4} {
			batchLines = append(batchLines, cmpLine{k, ci, false})
		}
		batchLines = append(batchLines, cmpLine{k, 1, true})
	}
	for _, a := range batchLines {
		for _, b := range batchLines {
			cases = append(cases, scase{Lines: []cmpLine{a}, Second: []cmpLine{b}})
		}
	}
	// an archive that repeats the name of the first golden entry
	var dupLines []cmpLine
	for _, k := range []string{"stdout", "file", "respell", "neg", "outside"} {
		for _, ci := range []int{1, 3, 4} {
			dupLines = append(dupLines, cmpLine{k, ci, false})
		}
		dupLines = append(dupLines, cmpLine{k, 1, true})
	}
	// the first comparison is made twice
	for _, a := range dupLines {
		cases = append(cases, scase{Lines: []cmpLine{a}, Again: true})
		for _, b := range dupLines {
			cases = append(cases, scase{Lines: []cmpLine{a, b}, Again: true})
		}
	}
	// the script is ended early by stop after the comparisons
	for _, end := range []string{"stop", "[linux] stop", "stop reason"} {
		for _, a := range dupLines {
			cases = append(cases, scase{Lines: []cmpLine{a}, End: end})
			for _, b := range dupLines {
				cases = append(cases, scase{Lines: []cmpLine{a, b}, End: end})
			}
		}
	}
	// an earlier entry g0 and the golden ./g0: two spellings of one file
	for _, a := range dupLines {
		cases = append(cases, scase{Lines: []cmpLine{a}, DupSpell: true})
		for _, b := range dupLines {
			cases = append(cases, scase{Lines: []cmpLine{a, b}, DupSpell: true})
		}
	}
	// a script file that Format would write differently
	for _, a := range dupLines {
		cases = append(cases, scase{Lines: []cmpLine{a}, Noncanon: true})
		for _, b := range dupLines {
			cases = append(cases, scase{Lines: []cmpLine{a, b}, Noncanon: true})
		}
	}
	// entries whose names differ only in case; goldens whose old content looks
	// quoted, is empty, or lacks its final newline
	for _, a := range dupLines {
		cases = append(cases, scase{Lines: []cmpLine{a}, CaseTwin: true})
		for _, b := range dupLines {
			cases = append(cases, scase{Lines: []cmpLine{a, b}, CaseTwin: true})
		}
	}
	for _, old := range []string{">OLD\n", ">\n", ">a\n>-- m --\n", " \n", "OLD"} {
		for ci := range contents {
			for _, k := range []string{"stdout", "file"} {
				cases = append(cases, scase{Lines: []cmpLine{{k, ci, false}}, Old: old})
			}
		}
		for _, a := range dupLines {
			for _, b := range dupLines {
				cases = append(cases, scase{Lines: []cmpLine{a, b}, Old: old})
			}
		}
	}
	// a cd before the first comparison
	for _, a := range dupLines {
		cases = append(cases, scase{Lines: []cmpLine{a}, CdFirst: true})
		for _, b := range dupLines {
			cases = append(cases, scase{Lines: []cmpLine{a, b}, CdFirst: true})
		}
	}
	// the work-directory root given as a relative path
	for _, a := range dupLines {
		cases = append(cases, scase{Lines: []cmpLine{a}, RelRoot: true})
		for _, b := range dupLines {
			cases = append(cases, scase{Lines: []cmpLine{a, b}, RelRoot: true})
		}
	}
	// golden entries named like the streams
	for _, a := range dupLines {
		cases = append(cases, scase{Lines: []cmpLine{a}, StreamNames: true})
		for _, b := range dupLines {
			cases = append(cases, scase{Lines: []cmpLine{a, b}, StreamNames: true})
		}
	}
	// entry names that hold a variable reference
	for _, sp := range []string{"$exe", "${nosuchvar}"} {
		for _, a := range dupLines {
			cases = append(cases, scase{Lines: []cmpLine{a}, Spell: sp})
			for _, b := range dupLines {
				cases = append(cases, scase{Lines: []cmpLine{a, b}, Spell: sp})
			}
		}
	}
	for _, a := range dupLines {
		cases = append(cases, scase{Lines: []cmpLine{a}, Dup: true})
		for _, b := range dupLines {
			cases = append(cases, scase{Lines: []cmpLine{a, b}, Dup: true})
		}
	}
	st := &counters{}
	var done, built int64
	var next int64 = -1
	var wg sync.WaitGroup
	r.Stuck = func(in []byte) kit.V {
		c := scase{}
		if i, err := strconv.Atoi(string(in)); err == nil && i >= 0 && i < len(cases) {
			c = cases[i]
		}
		return kit.V{Key: "update-wrong script=" + c.String(), What: fmt.Sprintf("script [%s]: the run with UpdateScripts does not return", c), Case: c}
	}
	for w := 0; w < r.Workers(); w++ {
		wg.Add(1)
		go func() {
			defer wg.Done()
			var wb []byte
			for {
				i := int(atomic.AddInt64(&next, 1))
				if i >= len(cases) || r.Expired() {
					r.WatchDone(w)
					return
				}
				c := cases[i]
				wb = strconv.AppendInt(wb[:0], int64(i), 10)
				r.Watch(w, wb)
				if c.Second != nil {
					if v := checkBatch(root, scase{Lines: c.Lines}, scase{Lines: c.Second}, st); v != "" {
						r.Violation("update-wrong script="+c.String(), fmt.Sprintf("scripts [%s]: %s (%s)", c, v, violClass(v)), c)
					}
					atomic.AddInt64(&done, 1)
					continue
				}
				if _, ok := build(c); !ok {
					continue
				}
				atomic.AddInt64(&built, 1)
				if v := check(root, c, st); v != "" {
					r.Violation("update-wrong script="+c.String(), fmt.Sprintf("script [%s]: %s (%s)", c, v, violClass(v)), c)
				}
				atomic.AddInt64(&done, 1)
				if i%3001 == 7 {
					r.Sample(c.String())
				}
			}
		}()
	}
	wg.Wait()
	r.Set("evaluations", done)
	r.Set("distinct_nontrivial", st.updated)
	r.Set("rule", "every script with 1 or 2 comparison lines (thorough: 3 over a reduced alphabet) from 7 kinds (cmp stdout / stderr / file against an archive golden, the same golden through another path spelling, negated cmp, cmpenv, cmp against a file outside the archive) x 14 actual contents (empty, no final newline, marker lines, a CRLF marker line, lines that start like a marker but are none, quoted-looking, CRLF, unquotable) x golden matching or not; untouched entries before, between and after; batches of two scripts in one RunT call; archives that repeat the first golden's name; scripts ended early by stop after the comparisons; scripts that make their first comparison twice; golden entries whose archive name holds a variable reference ($exe, ${nosuchvar}) that expands to nothing; golden entries named stdout / stderr / ttyout; Params.WorkdirRoot given as a relative path; an earlier entry g0 next to the golden ./g0; script files not in the form Format writes (padded marker, no final newline). non-trivial = golden entries actually rewritten and verified, counted")
	r.Set("golden_entries_rewritten_and_verified", st.updated)
	r.Set("of_which_quoted", st.quoted)
	r.Set("entries_verified_untouched", st.untouched)
	r.Set("scripts_with_unquotable_content", st.unquotable)
	r.Set("second_runs_without_update", st.reruns)
	r.Set("exhaustive", !r.Capped())
	r.Assume("when a later line of the same script fails, whether updates recorded earlier are still written is unspecified: either the old or the new content is accepted there; for actual content that txtar cannot hold (marker line and no final newline) only 'the script is not corrupted' is required")
	r.Finish()
}
