package main

import (
	"fmt"
	"os"
	"path/filepath"
	"sort"
	"strings"

	"github.com/rogpeppe/go-internal/txtar"

	"verif/fsched"
	"verif/kit"
	"verif/sched"
	"verif/virt/vos"
)

// Concurrent writers (engine S): several callers extract archives into the same
// directory at once, every file operation of txtar.Write being a scheduling
// point. "Never overwrites an existing file" and "on success each file holds
// exactly the entry's data" are judged at the end of every interleaving: a
// file that one caller created is an existing file for every other caller.

type centry struct {
	Name string `json:"name"`
	Data string `json:"data"`
}

type cscenario struct {
	Name    string     `json:"name"`
	Pre     []centry   `json:"pre,omitempty"`
	Threads [][]centry `json:"threads"`
	Bound   int        `json:"bound"`
}

type cinstance struct {
	sc   cscenario
	root string
	dir  string
	errs []error
	done []bool
}

func (in *cinstance) body() {
	fsched.Install()
	in.dir = filepath.Join(in.root, "w")
	os.RemoveAll(in.dir)
	if err := os.MkdirAll(in.dir, 0o777); err != nil {
		kit.Harness("mkdir: %v", err)
	}
	for _, p := range in.sc.Pre {
		fp := filepath.Join(in.dir, p.Name)
		os.MkdirAll(filepath.Dir(fp), 0o777)
		if err := os.WriteFile(fp, []byte(p.Data), 0o666); err != nil {
			kit.Harness("pre-existing file: %v", err)
		}
	}
	in.errs = make([]error, len(in.sc.Threads))
	in.done = make([]bool, len(in.sc.Threads))
	for ti, ents := range in.sc.Threads {
		ti, ents := ti, ents
		a := new(txtar.Archive)
		for _, e := range ents {
			a.Files = append(a.Files, txtar.File{Name: e.Name, Data: []byte(e.Data)})
		}
		dir := in.dir
		sched.Go(fmt.Sprintf("W%d", ti+1), func() {
			in.errs[ti] = txtar.Write(a, dir)
			in.done[ti] = true
		})
	}
}

// judge returns a class and a description ("" = fine) for the finished execution.
func (in *cinstance) judge(e *sched.Exec) (string, string) {
	if e.NoYield != "" {
		return "spins", e.NoYield
	}
	if e.PanicVal != nil {
		return "panics", fmt.Sprint(e.PanicVal)
	}
	if e.Deadlock || e.Livelock {
		return "hangs", "the writers do not finish: " + e.DeadlockAt
	}
	got := takeSnap(in.dir)
	pre := map[string]string{}
	for _, p := range in.sc.Pre {
		pre[filepath.Clean(p.Name)] = p.Data
		if c, ok := got[filepath.Clean(p.Name)]; !ok || c != "f:"+p.Data {
			return "overwrites-existing", fmt.Sprintf("the file %q that existed before (%q) is now %q", p.Name, p.Data, c)
		}
	}
	for ti, ents := range in.sc.Threads {
		if !in.done[ti] {
			return "hangs", fmt.Sprintf("writer %d did not return", ti+1)
		}
		if in.errs[ti] != nil {
			continue
		}
		for _, en := range ents {
			if c := got[filepath.Clean(en.Name)]; c != "f:"+en.Data {
				return "success-without-data", fmt.Sprintf("writer %d returned nil, but its entry %q (%q) is on disk as %q", ti+1, en.Name, en.Data, c)
			}
		}
	}
	// every file is something somebody was asked to put there
	for p, c := range got {
		if !strings.HasPrefix(c, "f:") {
			continue
		}
		ok := pre[p] == c[2:] && c == "f:"+pre[p]
		if _, isPre := pre[p]; !isPre {
			ok = false
		}
		for _, ents := range in.sc.Threads {
			for _, en := range ents {
				if filepath.Clean(en.Name) == p && "f:"+en.Data == c {
					ok = true
				}
			}
		}
		if !ok {
			return "mixed-content", fmt.Sprintf("%q holds %q, which is no entry's data", p, c)
		}
	}
	return "", ""
}

func (in *cinstance) outcome() string {
	var parts []string
	for ti := range in.sc.Threads {
		if in.errs[ti] == nil {
			parts = append(parts, fmt.Sprintf("W%d=ok", ti+1))
		} else {
			parts = append(parts, fmt.Sprintf("W%d=err", ti+1))
		}
	}
	got := takeSnap(in.dir)
	var fs []string
	for p, c := range got {
		if strings.HasPrefix(c, "f:") {
			fs = append(fs, p+"="+c[2:])
		}
	}
	sort.Strings(fs)
	return strings.Join(parts, ",") + " " + strings.Join(fs, ",")
}

func concScenarios(th bool) []cscenario {
	one, two, three := "one\n", "two two\n", ""
	b3 := 2
	if th {
		b3 = 3
	}
	return []cscenario{
		{"same-name", nil, [][]centry{{{"x", one}}, {{"x", two}}}, -1},
		{"same-name-empty-data", nil, [][]centry{{{"x", one}}, {{"x", three}}}, -1},
		{"same-name-other-spelling", nil, [][]centry{{{"x", one}}, {{"./d/../x", two}}}, -1},
		{"same-name-in-new-subdirectory", nil, [][]centry{{{"d/x", one}}, {{"d/x", two}}}, -1},
		{"crossed-pairs", nil, [][]centry{{{"x", one}, {"y", one}}, {{"y", two}, {"x", two}}}, -1},
		{"pre-existing", []centry{{"x", "old\n"}}, [][]centry{{{"x", one}}, {{"y", two}, {"x", two}}}, -1},
		{"three-writers", nil, [][]centry{{{"x", one}}, {{"x", two}}, {{"x", three}}}, b3},
		{"three-writers-chain", nil, [][]centry{{{"x", one}, {"y", one}}, {{"y", two}}, {{"x", three}}}, b3},
	}
}

type concStats struct {
	Executions, Steps int64
	Outcomes          map[string]bool
	Capped            bool
}

func runConc(root string, sc cscenario, choices []int, trace bool) (*cinstance, *sched.Exec) {
	in := &cinstance{sc: sc, root: root}
	e := sched.Run(in.body, sched.Options{Prefix: choices, Trace: trace, Horizon: 2000})
	vos.Reset()
	return in, e
}

func concKey(class string, sc cscenario) string {
	return fmt.Sprintf("concurrent-writers %s scenario=%s", class, sc.Name)
}

// replayConc re-runs one recorded schedule.
func replayConc(root string, c *concCase) []kit.V {
	in, e := runConc(root, c.Scenario, c.Choices, true)
	defer os.RemoveAll(in.dir)
	if class, what := in.judge(e); class != "" {
		return []kit.V{{Key: concKey(class, c.Scenario), What: what, Case: kase{Kind: "concurrent", Conc: c}}}
	}
	return nil
}

type concCase struct {
	Scenario cscenario `json:"scenario"`
	Choices  []int     `json:"choices"`
	Trace    []string  `json:"trace,omitempty"`
}

func exploreConc(r *kit.Run, root string, st *concStats) {
	for _, sc := range concScenarios(r.Thorough()) {
		sc := sc
		in := &cinstance{sc: sc, root: root}
		// the same schedule twice must give the same trace
		i1, e1 := runConc(root, sc, nil, true)
		os.RemoveAll(i1.dir)
		i2, e2 := runConc(root, sc, e1.Choices, true)
		os.RemoveAll(i2.dir)
		if e1.NoYield == "" && strings.Join(e1.Trace, "|") != strings.Join(e2.Trace, "|") {
			kit.Harness("concurrent writers %s: replaying a schedule gives another trace:\n%v\n%v", sc.Name, e1.Trace, e2.Trace)
		}
		x := &sched.Explorer{Body: in.body, Bound: sc.Bound, Horizon: 2000, Stop: r.Expired}
		x.Check = func(e *sched.Exec) bool {
			vos.Reset()
			defer os.RemoveAll(in.dir)
			st.Steps += int64(e.Steps)
			class, what := in.judge(e)
			if class != "" {
				ti, te := runConc(root, sc, e.Choices, true)
				os.RemoveAll(ti.dir)
				r.Violation(concKey(class, sc), fmt.Sprintf("%s: %s\nschedule: %s", sc.Name, what, strings.Join(te.Trace, " | ")),
					kase{Kind: "concurrent", Conc: &concCase{Scenario: sc, Choices: append([]int(nil), e.Choices...), Trace: te.Trace}})
				return false
			}
			st.Outcomes[sc.Name+": "+in.outcome()] = true
			return true
		}
		x.Run()
		st.Executions += x.Executions
		if x.Capped {
			st.Capped = true
		}
	}
	os.RemoveAll(root)
}
