// C15 — txtar extraction stays inside its directory and round-trips with txtar-c
// (DESIGN.md §6 C15). Engine E with the real file system as observed state:
// every entry name from a segment alphabet against pre-populated directories
// (txtar.Write in-process and the txtar-x binary), and every small tree through
// the freshly built txtar-c and txtar-x binaries. Engine S (conc.go): every
// interleaving of the file operations of 2-3 concurrent Write calls.
package main

import (
	"bytes"
	"encoding/json"
	"fmt"
	xtxtar "golang.org/x/tools/txtar"
	"os"
	"os/exec"
	"path/filepath"
	"sort"
	"strings"
	"sync"
	"sync/atomic"
	"unicode/utf8"

	"github.com/rogpeppe/go-internal/txtar"

	"verif/kit"
)

// ---------- snapshots ----------

type snap map[string]string // relative path -> "d" for directories, "f:<content>" for files, "l:<target>" for symlinks

func takeSnap(root string) snap {
	s := snap{}
	filepath.Walk(root, func(p string, info os.FileInfo, err error) error {
		if err != nil {
			return nil
		}
		rel, _ := filepath.Rel(root, p)
		switch {
		case info.IsDir():
			s[rel] = "d"
		case info.Mode()&os.ModeSymlink != 0:
			t, _ := os.Readlink(p)
			s[rel] = "l:" + t
		default:
			data, _ := os.ReadFile(p)
			s[rel] = "f:" + string(data)
		}
		return nil
	})
	return s
}

// ---------- containment ----------

type containCase struct {
	Names []string `json:"names"`
	Pre   string   `json:"pre"` // "", "a", "a/b"
	ViaX  bool     `json:"via_txtar_x"`
	// NoDir: the target directory does not exist yet (Write creates it)
	NoDir bool `json:"no_dir,omitempty"`
	// Deep: neither the target directory nor its parent exist yet
	Deep bool `json:"deep,omitempty"`
}

const depth = "l1/l2/l3/l4/l5/parent"

func dataFor(i int) string { return fmt.Sprintf("data%d\n", i) }

// isOutside: the cleaned name is absolute or begins with "..".
func isOutside(name string) bool {
	c := filepath.Clean(filepath.FromSlash(name))
	return filepath.IsAbs(c) || c == ".." || strings.HasPrefix(c, "../")
}

func checkContain(root string, c containCase) string {
	os.RemoveAll(root)
	parent := filepath.Join(root, depth)
	dir := filepath.Join(parent, "dir")
	dirRel := filepath.Join(depth, "dir")
	if c.Deep {
		// neither the target directory nor its parent exist yet
		dir = filepath.Join(parent, "nx", "dir")
		dirRel = filepath.Join(depth, "nx", "dir")
	}
	if c.NoDir || c.Deep {
		os.MkdirAll(parent, 0o777)
	} else {
		os.MkdirAll(dir, 0o777)
	}
	os.WriteFile(filepath.Join(parent, "sibling.txt"), []byte("sibling\n"), 0o666)
	os.WriteFile(filepath.Join(root, "top.txt"), []byte("top\n"), 0o666)
	switch c.Pre {
	case "a":
		os.WriteFile(filepath.Join(dir, "a"), []byte("pre-existing\n"), 0o666)
	case "a/b":
		os.MkdirAll(filepath.Join(dir, "a"), 0o777)
		os.WriteFile(filepath.Join(dir, "a", "b"), []byte("pre-existing\n"), 0o666)
	default:
		// "a=>TARGET": dir/a is a symbolic link. The targets: a directory outside
		// the target directory (relative and absolute), a directory inside it, an
		// existing file outside, and nothing (dangling, pointing outside).
		if t, ok := strings.CutPrefix(c.Pre, "a/l=>"); ok {
			// dir/a is a real directory, dir/a/l a symbolic link
			os.MkdirAll(filepath.Join(parent, "outdir"), 0o777)
			os.MkdirAll(filepath.Join(dir, "a", "sub"), 0o777)
			t = strings.ReplaceAll(t, "$PARENT", parent)
			if err := os.Symlink(t, filepath.Join(dir, "a", "l")); err != nil {
				kit.Harness("symlink: %v", err)
			}
		} else if t, ok := strings.CutPrefix(c.Pre, "a=>"); ok {
			os.MkdirAll(filepath.Join(parent, "outdir"), 0o777)
			os.MkdirAll(filepath.Join(dir, "sub"), 0o777)
			t = strings.ReplaceAll(t, "$PARENT", parent)
			if err := os.Symlink(t, filepath.Join(dir, "a")); err != nil {
				kit.Harness("symlink: %v", err)
			}
		} else if c.Pre != "" {
			kit.Harness("unknown pre-existing kind %q", c.Pre)
		}
	}
	before := takeSnap(root)
	a := &txtar.Archive{}
	for i, n := range c.Names {
		a.Files = append(a.Files, txtar.File{Name: n, Data: []byte(dataFor(i))})
	}
	var err error
	if c.ViaX {
		cmd := exec.Command(filepath.Join(os.Getenv("VERIF_BIN"), "txtar-x"), "-C", dir)
		// txtar-x parses the archive text: names are trimmed by the format
		cmd.Stdin = bytes.NewReader(txtar.Format(a))
		var out bytes.Buffer
		cmd.Stderr = &out
		cmd.Stdout = &out
		if rerr := cmd.Run(); rerr != nil {
			if _, ok := rerr.(*exec.ExitError); !ok {
				kit.Harness("txtar-x: %v", rerr)
			}
			err = fmt.Errorf("txtar-x: %s", strings.TrimSpace(out.String()))
		}
	} else {
		pan := func() (p any) {
			defer func() { p = recover() }()
			err = txtar.Write(a, dir)
			return nil
		}()
		if pan != nil {
			return fmt.Sprintf("panic: Write panics: %v", pan)
		}
	}
	after := takeSnap(root)
	var afterPaths []string
	for p := range after {
		afterPaths = append(afterPaths, p)
	}
	sort.Strings(afterPaths)
	for _, p := range afterPaths {
		v := after[p]
		inside := p == dirRel || strings.HasPrefix(p, dirRel+"/")
		b, existed := before[p]
		if c.Deep && p == filepath.Join(depth, "nx") && v == "d" {
			continue // the missing parent of the target, made as a directory on the way
		}
		if !inside && (!existed || b != v) {
			return fmt.Sprintf("escape: %q outside the target directory was created or changed (err=%v)", p, err)
		}
		if existed && b != v {
			return fmt.Sprintf("overwrite: pre-existing %q was changed from %q to %q (err=%v)", p, b, v, err)
		}
	}
	var beforePaths []string
	for p := range before {
		beforePaths = append(beforePaths, p)
	}
	sort.Strings(beforePaths)
	for _, p := range beforePaths {
		if _, ok := after[p]; !ok {
			return fmt.Sprintf("removed: %q disappeared (err=%v)", p, err)
		}
	}
	anyOutside := false
	for _, n := range c.Names {
		if isOutside(n) {
			anyOutside = true
		}
	}
	if anyOutside && err == nil {
		return "no-error: an entry name is absolute or climbs out through '..' but no error was reported"
	}
	if err != nil && !anyOutside && plainNames(c.Names) && nothingInTheWay(c.Pre, c.Names) {
		return fmt.Sprintf("spurious-error: every entry name is a plain path inside the directory, nothing is in the way, and yet: %v", err)
	}
	if err == nil {
		for i, n := range c.Names {
			p := filepath.Join(dirRel, filepath.Clean(filepath.FromSlash(n)))
			got, ok := after[p]
			if !ok {
				// below a symbolic link to a directory: read through it
				if data, rerr := os.ReadFile(filepath.Join(root, p)); rerr == nil {
					got = "f:" + string(data)
				}
			}
			if got != "f:"+dataFor(i) {
				return fmt.Sprintf("wrong-data: success reported but entry %q: file %q holds %q, want %q", n, p, got, dataFor(i))
			}
		}
	}
	return ""
}

// nothingInTheWay: the pre-existing content is a plain file (or none) that no
// name is, lies below, or has as a directory on its way.
func nothingInTheWay(pre string, names []string) bool {
	if pre == "" {
		return true
	}
	if strings.Contains(pre, "=>") {
		return false
	}
	for _, n := range names {
		if n == pre || strings.HasPrefix(n, pre+"/") || strings.HasPrefix(pre, n+"/") {
			return false
		}
	}
	return true
}

// plainNames: every name is already clean (no empty, "." or ".." segment, no
// trailing slash), relative, not repeated, and none is a directory on the way to another.
func plainNames(names []string) bool {
	for i, n := range names {
		if n == "" || n == "." || filepath.Clean(n) != n || filepath.IsAbs(n) || strings.ContainsAny(n, "\x00\n\r") || strings.TrimSpace(n) != n {
			return false
		}
		for j, m := range names {
			// a file is never overwritten: a repeated name is refused
			if strings.HasPrefix(m, n+"/") || (j != i && m == n) {
				return false
			}
		}
	}
	return true
}

func containNames() []string {
	segs := []string{"a", "b", ".", "..", ""}
	var names []string
	var rec func(cur []string)
	rec = func(cur []string) {
		if len(cur) > 0 {
			base := strings.Join(cur, "/")
			names = append(names, base, "/"+base, base+"/", "/"+base+"/")
		}
		if len(cur) == 4 {
			return
		}
		for _, s := range segs {
			rec(append(cur, s))
		}
	}
	rec(nil)
	names = append(names, "..a", "a..", "...", "a/..b", "..a/b", "a/...", `..\a`, `a\..\..\b`, "a//..//..//c", "./../c", "a/b/../../../c")
	// siblings whose names begin like the target directory's ("dir"): a test of the
	// joined path by string prefix lets them through
	names = append(names, "../dir2/x", "../dir.old/evil.txt", "../dir-evil.txt", "../dirx", "a/b/../../../dir_x/y", "../dir/../dir2/x", "../dir/x")
	seen := map[string]bool{}
	var out []string
	for _, n := range names {
		if !seen[n] {
			seen[n] = true
			out = append(out, n)
		}
	}
	return out
}

// ---------- round trip ----------

type treeFile struct {
	Path    string `json:"path"`
	Content string `json:"content"`
}

type rtCase struct {
	Files []treeFile `json:"files"`
	Flags []string   `json:"flags"`
	Abs   bool       `json:"abs_dir_arg"`
	// Arg: another spelling of the directory argument: "." and "./" (run from
	// inside the tree), "d/", "./d", "../w/d"; empty: "d" (or absolute with Abs)
	Arg string `json:"dir_arg,omitempty"`
}

func (c rtCase) String() string {
	var fs []string
	for _, f := range c.Files {
		fs = append(fs, fmt.Sprintf("%s=%q", f.Path, f.Content))
	}
	if c.Arg != "" {
		return fmt.Sprintf("{%s} flags=%v dir-argument=%q", strings.Join(fs, ", "), c.Flags, c.Arg)
	}
	return fmt.Sprintf("{%s} flags=%v abs=%v", strings.Join(fs, ", "), c.Flags, c.Abs)
}

func has(flags []string, f string) bool {
	for _, x := range flags {
		if x == f {
			return true
		}
	}
	return false
}

func dotted(p string) bool {
	for _, s := range strings.Split(p, "/") {
		if strings.HasPrefix(s, ".") {
			return true
		}
	}
	return false
}

type rtStats struct{ archived, quoted, skipped int64 }

func checkRoundTrip(root string, c rtCase, st *rtStats) string {
	os.RemoveAll(root)
	// the tree root is deliberately called "d", like one of the nested directories
	work := filepath.Join(root, "w")
	tree := filepath.Join(work, "d")
	out := filepath.Join(root, "out")
	os.MkdirAll(tree, 0o777)
	os.MkdirAll(out, 0o777)
	for _, f := range c.Files {
		p := filepath.Join(tree, f.Path)
		os.MkdirAll(filepath.Dir(p), 0o777)
		if err := os.WriteFile(p, []byte(f.Content), 0o666); err != nil {
			kit.Harness("write tree: %v", err)
		}
	}
	arg := "d"
	if c.Abs {
		arg = tree
	}
	if c.Arg != "" {
		arg = c.Arg
	}
	cmd := exec.Command(filepath.Join(os.Getenv("VERIF_BIN"), "txtar-c"), append(append([]string{}, c.Flags...), arg)...)
	cmd.Dir = work
	if c.Arg == "." || c.Arg == "./" {
		cmd.Dir = tree
	}
	var archive, errb bytes.Buffer
	cmd.Stdout = &archive
	cmd.Stderr = &errb
	if err := cmd.Run(); err != nil {
		return fmt.Sprintf("txtar-c fails: %v: %s", err, errb.String())
	}
	ar := txtar.Parse(archive.Bytes())
	unq := map[string]bool{}
	for _, l := range strings.Split(string(ar.Comment), "\n") {
		if strings.HasPrefix(l, "unquote ") {
			unq[strings.TrimPrefix(l, "unquote ")] = true
		}
	}
	x := exec.Command(filepath.Join(os.Getenv("VERIF_BIN"), "txtar-x"), "-C", out)
	x.Stdin = bytes.NewReader(archive.Bytes())
	var xerr bytes.Buffer
	x.Stderr = &xerr
	if err := x.Run(); err != nil {
		return fmt.Sprintf("txtar-x fails on the archive txtar-c produced: %v: %s (archive %q)", err, xerr.String(), archive.String())
	}
	orig := map[string]string{}
	for _, f := range c.Files {
		orig[f.Path] = f.Content
	}
	got := takeSnap(out)
	extracted := 0
	var gotPaths []string
	for p := range got {
		gotPaths = append(gotPaths, p)
	}
	sort.Strings(gotPaths)
	for _, p := range gotPaths {
		v := got[p]
		if v == "d" {
			continue
		}
		extracted++
		o, ok := orig[p]
		if !ok {
			return fmt.Sprintf("extracted file %q was not in the tree (archive %q)", p, archive.String())
		}
		content := strings.TrimPrefix(v, "f:")
		if unq[p] {
			u, err := txtar.Unquote([]byte(content))
			if err != nil {
				return fmt.Sprintf("file %q is listed for unquote but Unquote fails: %v", p, err)
			}
			content = string(u)
			if st != nil {
				atomic.AddInt64(&st.quoted, 1)
			}
		}
		want := o
		if want != "" && !strings.HasSuffix(want, "\n") {
			want += "\n"
		}
		if content != want {
			return fmt.Sprintf("file %q: original %q, after txtar-c | txtar-x %q (archive %q)", p, o, content, archive.String())
		}
	}
	if st != nil {
		atomic.AddInt64(&st.archived, int64(extracted))
	}
	// plain text files must have been archived
	for _, f := range c.Files {
		// what txtar-c documents to leave out: dot files without -a, files that are
		// not valid UTF-8, files holding a marker line without -quote. Everything
		// else must be in the archive (a missing final newline is added, with -quote
		// a marker file is quoted: NeedsQuote and Quote are C14's subject)
		withNL := f.Content
		if withNL != "" && !strings.HasSuffix(withNL, "\n") {
			withNL += "\n"
		}
		plain := utf8.ValidString(f.Content) && (!dotted(f.Path) || has(c.Flags, "-a")) && (!(holdsMarker(withNL) || holdsMarker(strings.ReplaceAll(withNL, "\r\n", "\n"))) || has(c.Flags, "-quote"))
		if _, ok := got[f.Path]; !ok {
			if plain {
				return fmt.Sprintf("plain text file %q = %q is missing after the round trip (archive %q)", f.Path, f.Content, archive.String())
			}
			if st != nil {
				atomic.AddInt64(&st.skipped, 1)
			}
		}
	}
	return ""
}

// holdsMarker: stored as a file body, would s change how an archive parses?
// Decided by the independent implementation of the format (which knows nothing
// of lines ending in \r\n: the caller also asks about the text with those
// endings normalised).
func holdsMarker(s string) bool {
	a := xtxtar.Parse(xtxtar.Format(&xtxtar.Archive{Files: []xtxtar.File{{Name: "f", Data: []byte(s)}}}))
	return !(len(a.Comment) == 0 && len(a.Files) == 1 && a.Files[0].Name == "f" && string(a.Files[0].Data) == s)
}

type kase struct {
	Kind    string       `json:"kind"`
	Contain *containCase `json:"contain,omitempty"`
	RT      *rtCase      `json:"roundtrip,omitempty"`
	Conc    *concCase    `json:"concurrent,omitempty"`
	Fault   *faultCase   `json:"fault,omitempty"`
}

func violClass(v string) string {
	if i := strings.Index(v, ": "); i > 0 && i < 12 && !strings.Contains(v[:i], " ") {
		return v[:i]
	}
	f := strings.Fields(v)
	if len(f) > 3 {
		f = f[:3]
	}
	return strings.NewReplacer("\"", "", "/", "_").Replace(strings.Join(f, "-"))
}

func main() {
	r := kit.Start("C15", "exploration")
	root, err := os.MkdirTemp(os.Getenv("VERIF_SCRATCH"), "c15")
	if err != nil {
		kit.Harness("mkdtemp: %v", err)
	}
	defer os.RemoveAll(root)
	if os.Getenv("VERIF_BIN") == "" {
		kit.Harness("VERIF_BIN not set (run through ./check)")
	}
	var rseq int64
	r.Replayer = func(raw json.RawMessage) []kit.V {
		var c kase
		if err := json.Unmarshal(raw, &c); err != nil {
			kit.Harness("bad case: %v", err)
		}
		d := filepath.Join(root, fmt.Sprintf("replay%d", atomic.AddInt64(&rseq, 1)))
		if c.Kind == "fault" {
			return replayFault(d, c.Fault)
		}
		if c.Kind == "many" {
			if v := manyEntries(d, 300); v != "" {
				return []kit.V{{Key: "many-entries " + violClass(v), What: v, Case: c}}
			}
			return nil
		}
		if c.Kind == "concurrent" {
			return replayConc(d, c.Conc)
		}
		if c.Kind == "contain" {
			if v := checkContain(d, *c.Contain); v != "" {
				return []kit.V{{Key: fmt.Sprintf("%s names=%q pre=%q viaX=%v nodir=%v deep=%v", violClass(v), c.Contain.Names, c.Contain.Pre, c.Contain.ViaX, c.Contain.NoDir, c.Contain.Deep), What: v, Case: c}}
			}
			return nil
		}
		if v := checkRoundTrip(d, *c.RT, nil); v != "" {
			return []kit.V{{Key: violClass(v) + " tree=" + c.RT.String(), What: v, Case: c}}
		}
		return nil
	}
	r.MaybeReplay()

	// ----- containment -----
	names := containNames()
	var cases []containCase
	for _, n := range names {
		for _, pre := range []string{"", "a", "a/b"} {
			cases = append(cases, containCase{Names: []string{n}, Pre: pre})
		}
	}
	// pre-existing symbolic links named a
	for _, pre := range []string{"a=>../outdir", "a=>$PARENT/outdir", "a=>sub", "a=>../sibling.txt", "a=>../nothing", "a=>..", "a=>."} {
		for _, n := range []string{"a", "a/b", "a/b/c", "b", "b/../a/c", "./a/./b", "a/", "a/../b", "a/../../x", "sub/../a/d"} {
			cases = append(cases, containCase{Names: []string{n}, Pre: pre})
			cases = append(cases, containCase{Names: []string{"b", n}, Pre: pre})
			if n != "a/../../x" {
				cases = append(cases, containCase{Names: []string{n}, Pre: pre, ViaX: true})
			}
		}
	}
	// a pre-existing directory a holding a symbolic link l: entries through the
	// link, alone and after entries that went into a itself (a decision about a
	// must not be taken for everything below a)
	for _, pre := range []string{"a/l=>../../outdir", "a/l=>$PARENT/outdir", "a/l=>sub", "a/l=>../../sibling.txt", "a/l=>../../nothing", "a/l=>..", "a/l=>../.."} {
		for _, n := range []string{"a/l/x", "a/l", "a/l/b/c", "a/sub/../l/x", "a/ok"} {
			cases = append(cases, containCase{Names: []string{n}, Pre: pre},
				containCase{Names: []string{"a/ok", n}, Pre: pre},
				containCase{Names: []string{"a/sub/ok", "a/ok2", n}, Pre: pre},
				containCase{Names: []string{"b", n, "a/ok"}, Pre: pre},
				containCase{Names: []string{"a/ok", n}, Pre: pre, ViaX: true})
		}
	}
	// the target directory does not exist yet: every name alone, and after an
	// entry that creates it
	for _, n := range names {
		cases = append(cases, containCase{Names: []string{n}, NoDir: true}, containCase{Names: []string{"b", n}, NoDir: true})
		cases = append(cases, containCase{Names: []string{n}, Deep: true}, containCase{Names: []string{"b", n}, Deep: true})
		if strings.TrimSpace(n) == n && n != "" {
			cases = append(cases, containCase{Names: []string{n}, Deep: true, ViaX: true})
		}
		if strings.TrimSpace(n) == n && n != "" {
			cases = append(cases, containCase{Names: []string{n}, NoDir: true, ViaX: true})
		}
	}
	// several entries below a directory (or with a name) that begins with two
	// dots and is nevertheless inside: the second one finds it in place
	for _, pair := range [][]string{{"..a/b", "..a/c"}, {"..a", "..a"}, {"...", "..."}, {".../x", ".../y"}, {"a/..b/c", "a/..b/d"}, {"..a/b", "..a/b"}, {"..a/b/c", "..a/d"}, {"a../b", "a../c"}, {"..", "..a/b"}, {"..a/b", "../x"}} {
		for _, nd := range []bool{false, true} {
			cases = append(cases, containCase{Names: pair, NoDir: nd}, containCase{Names: pair, NoDir: nd, ViaX: true})
		}
	}
	second := []string{"a", "b/a", "../x", "a/../../y", "/abs", "a/b"}
	for _, n := range names {
		for _, s := range second {
			cases = append(cases, containCase{Names: []string{n, s}, Pre: ""}, containCase{Names: []string{s, n}, Pre: "a"})
		}
	}
	// through the txtar-x binary: every single name (thorough: also pairs)
	for _, n := range names {
		if strings.TrimSpace(n) != n || n == "" {
			continue
		}
		cases = append(cases, containCase{Names: []string{n}, Pre: "a", ViaX: true})
		if r.Thorough() {
			for _, s := range second[:3] {
				cases = append(cases, containCase{Names: []string{n, s}, Pre: "", ViaX: true})
			}
		}
	}
	nw := r.Workers()
	var done, outside, viaX int64
	run := func(n int, f func(w, i int)) {
		var next int64 = -1
		var wg sync.WaitGroup
		for w := 0; w < nw; w++ {
			wg.Add(1)
			go func(w int) {
				defer wg.Done()
				for {
					i := int(atomic.AddInt64(&next, 1))
					if i >= n || r.Expired() {
						return
					}
					f(w, i)
				}
			}(w)
		}
		wg.Wait()
	}
	run(len(cases), func(w, i int) {
		c := cases[i]
		d := filepath.Join(root, fmt.Sprintf("cw%d", w))
		if v := checkContain(d, c); v != "" {
			cc := c
			r.Violation(fmt.Sprintf("%s names=%q pre=%q viaX=%v nodir=%v deep=%v", violClass(v), c.Names, c.Pre, c.ViaX, c.NoDir, c.Deep), fmt.Sprintf("entries %q into a directory holding %q (via txtar-x: %v; target missing: %v, its parent too: %v): %s", c.Names, c.Pre, c.ViaX, c.NoDir || c.Deep, c.Deep, v), kase{Kind: "contain", Contain: &cc})
		}
		atomic.AddInt64(&done, 1)
		for _, n := range c.Names {
			if isOutside(n) {
				atomic.AddInt64(&outside, 1)
				break
			}
		}
		if c.ViaX {
			atomic.AddInt64(&viaX, 1)
		}
	})
	r.Sample(map[string]any{"entry_names": []string{"a/../../b", "/a/./.."}, "pre_existing": "a"})

	// ----- round trip -----
	paths := []string{"a", "d/b", "d/e/c", ".dot", "d/.h", "-- x --", "dd/a", "xd/d/f", ".cfg/s", "..u/v"}
	conts := []string{"", "x\n", "x", "-- m --\n", "x\n-- m --\n", ">q\n", "-- m --", "\xff\xfe\n", "x\r\n-- m --\r\n", "\n-- m --\n\nx\n\n"}
	var files []treeFile
	for _, p := range paths {
		for _, c := range conts {
			files = append(files, treeFile{p, c})
		}
	}
	maxFiles := 2
	if r.Thorough() {
		maxFiles = 3
	}
	var trees [][]treeFile
	var rec func(start int, cur []treeFile)
	rec = func(start int, cur []treeFile) {
		if len(cur) > 0 {
			trees = append(trees, append([]treeFile(nil), cur...))
		}
		if len(cur) == maxFiles {
			return
		}
		for i := start; i < len(files); i++ {
			dup := false
			for _, c := range cur {
				if c.Path == files[i].Path {
					dup = true
				}
			}
			if !dup {
				rec(i+1, append(cur, files[i]))
			}
		}
	}
	rec(0, nil)
	// bodies in which a line that only looks like a marker comes before a real one
	for _, p := range []string{"a", "d/b"} {
		for _, c := range []string{"\n-- \n-- a --\n", "x\n-- y\n-- m --\n", "-- y\n-- m --\n", "-- m -- \nz\n-- n --\n", "--  -- --\n", "x\n-- a -- b --\n", "-- y\n--m --\n-- m--\n", "x\n-- y\n-- z\n-- m --", "a\uFFFDb\n", "\uFFFD", "é\uFFFD\n-- m --\n"} {
			trees = append(trees, []treeFile{{p, c}}, []treeFile{{p, c}, {"z", "x\n"}})
		}
	}
	flagSets := [][]string{nil, {"-a"}, {"-quote"}, {"-a", "-quote"}}
	var rts []rtCase
	for ti, t := range trees {
		for fi, fl := range flagSets {
			// the directory argument is relative for most cases, absolute for a systematic quarter
			c := rtCase{Files: t, Flags: fl}
			switch (ti + fi) % 8 {
			case 0, 4:
				c.Abs = true
			case 1:
				c.Arg = "."
			case 2:
				c.Arg = "d/"
			case 3:
				c.Arg = "./d"
			case 5:
				c.Arg = "./"
			case 6:
				c.Arg = "../w/d"
			}
			rts = append(rts, c)
		}
	}
	st := &rtStats{}
	var rtDone int64
	run(len(rts), func(w, i int) {
		c := rts[i]
		d := filepath.Join(root, fmt.Sprintf("rw%d", w))
		if v := checkRoundTrip(d, c, st); v != "" {
			cc := c
			r.Violation(violClass(v)+" tree="+c.String(), fmt.Sprintf("tree %s: %s", c, v), kase{Kind: "roundtrip", RT: &cc})
		}
		atomic.AddInt64(&rtDone, 1)
	})
	r.Sample(map[string]any{"tree": rts[len(rts)/3].String()})
	// ----- concurrent writers -----
	cst := &concStats{Outcomes: map[string]bool{}}
	exploreConc(r, filepath.Join(root, "conc"), cst)
	fst := &faultStats{}
	exploreFaults(r, filepath.Join(root, "fault"), fst)
	r.Set("write_runs_with_one_failing_operation", fst.Failed)
	r.Set("write_runs_with_one_short_write", fst.Short)
	r.Set("of_which_reported_as_error", fst.ReportedErrors)
	if v := manyEntries(filepath.Join(root, "manyroot"), 300); v != "" {
		r.Violation("many-entries "+violClass(v), v, kase{Kind: "many"})
	}
	var couts []string
	for o := range cst.Outcomes {
		couts = append(couts, o)
	}
	sort.Strings(couts)
	r.Set("concurrent_writer_schedules", cst.Executions)
	r.Set("concurrent_writer_steps", cst.Steps)
	r.Set("concurrent_writer_outcomes", couts)
	var pn []string
	pn = append(pn, paths...)
	sort.Strings(pn)
	r.Set("evaluations", done+rtDone)
	r.Set("distinct_nontrivial", outside+atomic.LoadInt64(&st.quoted)+atomic.LoadInt64(&st.archived))
	r.Set("rule", "containment: every entry name of <= 4 segments over {a,b,.,..,empty} with and without leading / trailing slash, plus specials, alone (x 3 pre-populated directories), 10 names x 7 pre-existing symbolic links called a (to directories outside and inside, to a file outside, dangling, to '..' and '.') and paired with 6 second entries in both orders, in-process and through the txtar-x binary; round trip: every tree of <= 2 (thorough 3) files over 10 paths x 9 contents x 4 flag sets through the built txtar-c and txtar-x, the directory argument spelled d, absolute, '.', './', 'd/', './d' or '../w/d' in rotation; concurrent writers: every interleaving (three writers: preemption bound 2, thorough 3) of the file operations of 2-3 Write calls into one directory over 8 scenarios (same name, other spelling, new subdirectory, crossed pairs, pre-existing file), judged at the end; faults: every file operation of Write failing in turn, and every data write cut short after 1, 7 or 512 bytes, for three archives; an archive of 300 files extracted while only two dozen more descriptors may be opened (in-process and through txtar-x under ulimit -n 32). non-trivial = containment cases with an escaping name + files actually archived and compared + files restored through Unquote (counted)")
	r.Set("containment_cases", done)
	r.Set("containment_cases_with_escaping_name", outside)
	r.Set("containment_cases_via_txtar_x", viaX)
	r.Set("roundtrip_cases", rtDone)
	r.Set("roundtrip_files_archived_and_compared", st.archived)
	r.Set("roundtrip_files_restored_through_unquote", st.quoted)
	r.Set("roundtrip_files_legitimately_skipped", st.skipped)
	r.Set("exhaustive", !r.Capped() && !cst.Capped)
	r.Assume("the sandbox is 6 directory levels deep so that every '..' chain of the alphabet stays inside the snapshot; file names with leading/trailing blanks or newlines are not generated for the round trip (the format trims them)")
	r.Finish()
}
