package main

import (
	"fmt"
	"os"
	"os/exec"
	"path/filepath"
	"strings"
	"syscall"

	"github.com/rogpeppe/go-internal/txtar"

	"verif/kit"
	"verif/virt/vos"
)

// Faults (engine F): one file operation of txtar.Write is made to fail, or one
// write is cut short, at every position of the run in turn. "On success each
// file holds exactly the entry's data": a Write that returns nil although an
// operation it relied on failed must still have left every entry's data in
// place; anything else must be reported as an error.

type faultCase struct {
	Archive int    `json:"archive"`
	Kind    string `json:"kind"` // fail | short
	At      int    `json:"at"`   // index of the file operation
	Short   int    `json:"short,omitempty"`
}

func (f faultCase) String() string {
	if f.Kind == "short" {
		return fmt.Sprintf("archive %d, operation %d writes only %d bytes", f.Archive, f.At, f.Short)
	}
	return fmt.Sprintf("archive %d, operation %d fails", f.Archive, f.At)
}

var faultArchives = [][]centry{
	{{"a", "data of a\n"}},
	{{"a", "data of a\n"}, {"sub/b", strings.Repeat("0123456789abcde\n", 64)}, {"c", ""}},
	{{"sub/deep/x", "x\n"}, {"sub/y", "yy\n"}},
}

// runFault runs Write with the fault and returns the operations seen, Write's
// error and the violation text.
func runFault(root string, fc faultCase) (ops []string, werr error, viol string) {
	dir := filepath.Join(root, "w")
	os.RemoveAll(dir)
	if err := os.MkdirAll(dir, 0o777); err != nil {
		kit.Harness("mkdir: %v", err)
	}
	defer os.RemoveAll(dir)
	ents := faultArchives[fc.Archive]
	a := new(txtar.Archive)
	for _, e := range ents {
		a.Files = append(a.Files, txtar.File{Name: e.Name, Data: []byte(e.Data)})
	}
	vos.Reset()
	n := 0
	injected := false
	vos.Hook = func(op *vos.Op) vos.Verdict {
		k := n
		n++
		ops = append(ops, op.Kind+" "+filepath.Base(op.Path))
		if k != fc.At {
			return vos.Verdict{}
		}
		switch fc.Kind {
		case "fail":
			injected = true
			return vos.Verdict{Fail: &os.PathError{Op: op.Kind, Path: op.Path, Err: syscall.EIO}}
		case "short":
			if op.Kind == "write" && fc.Short < op.N {
				injected = true
				return vos.Verdict{Short: fc.Short}
			}
		}
		return vos.Verdict{}
	}
	var pan any
	func() {
		defer func() { pan = recover() }()
		werr = txtar.Write(a, dir)
	}()
	vos.Reset()
	if pan != nil {
		return ops, werr, fmt.Sprintf("Write panics: %v", pan)
	}
	if werr == nil {
		got := takeSnap(dir)
		for _, e := range ents {
			if c := got[filepath.Clean(e.Name)]; c != "f:"+e.Data {
				l := len(c)
				if l > 40 {
					c = c[:40] + "..."
				}
				return ops, werr, fmt.Sprintf("Write returned nil, but entry %q (%d bytes) is on disk as %q (%d bytes) [a fault was injected: %v]", e.Name, len(e.Data), c, l-2, injected)
			}
		}
	}
	return ops, werr, ""
}

type faultStats struct{ Runs, Failed, Short, ReportedErrors int64 }

func faultKey(v string, fc faultCase) string {
	return fmt.Sprintf("with-fault %s case=%q", violClass(v), fc.String())
}

func exploreFaults(r *kit.Run, root string, st *faultStats) {
	for ai := range faultArchives {
		ops, werr, v := runFault(root, faultCase{Archive: ai, Kind: "none", At: -1})
		st.Runs++
		if v != "" || werr != nil {
			kit.UnderTestFailed("txtar.Write of a plain archive into an empty directory: %v %s", werr, v)
		}
		for k, op := range ops {
			cases := []faultCase{{Archive: ai, Kind: "fail", At: k}}
			if strings.HasPrefix(op, "write ") {
				for _, sh := range []int{1, 7, 512} {
					cases = append(cases, faultCase{Archive: ai, Kind: "short", At: k, Short: sh})
				}
			}
			for _, fc := range cases {
				_, werr, v := runFault(root, fc)
				st.Runs++
				if fc.Kind == "fail" {
					st.Failed++
				} else {
					st.Short++
				}
				if werr != nil {
					st.ReportedErrors++
				}
				if v != "" {
					fc := fc
					r.Violation(faultKey(v, fc), fmt.Sprintf("%s (operations of the fault-free run: %s): %s", fc, strings.Join(ops, ", "), v), kase{Kind: "fault", Fault: &fc})
				}
			}
		}
	}
}

func replayFault(root string, fc *faultCase) []kit.V {
	_, _, v := runFault(root, *fc)
	if v == "" {
		return nil
	}
	return []kit.V{{Key: faultKey(v, *fc), What: v, Case: kase{Kind: "fault", Fault: fc}}}
}

// ---------- many entries, few descriptors ----------

// manyEntries: an archive (a tree) of n files extracted while the process may
// hold only a few dozen descriptors: every entry must arrive. Write needs one
// descriptor at a time.
func manyEntries(root string, n int) string {
	dir := filepath.Join(root, "many")
	os.RemoveAll(dir)
	if err := os.MkdirAll(dir, 0o777); err != nil {
		kit.Harness("mkdir: %v", err)
	}
	defer os.RemoveAll(dir)
	a := new(txtar.Archive)
	for i := 0; i < n; i++ {
		a.Files = append(a.Files, txtar.File{Name: fmt.Sprintf("d%d/f%03d.txt", i%7, i), Data: []byte(fmt.Sprintf("file %d\n", i))})
	}
	// in-process: lower the soft limit to what is open now plus 24
	ents, err := os.ReadDir("/proc/self/fd")
	if err != nil {
		return ""
	}
	var old syscall.Rlimit
	if err := syscall.Getrlimit(syscall.RLIMIT_NOFILE, &old); err != nil {
		return ""
	}
	low := old
	low.Cur = uint64(len(ents) + 24)
	if low.Cur >= old.Cur {
		return ""
	}
	if err := syscall.Setrlimit(syscall.RLIMIT_NOFILE, &low); err != nil {
		return ""
	}
	werr := func() (err error) {
		defer func() {
			if p := recover(); p != nil {
				err = fmt.Errorf("panic: %v", p)
			}
		}()
		return txtar.Write(a, filepath.Join(dir, "in"))
	}()
	syscall.Setrlimit(syscall.RLIMIT_NOFILE, &old)
	if werr != nil {
		return fmt.Sprintf("Write of %d plain entries fails when the process may open only %d more files: %v", n, 24, werr)
	}
	got := takeSnap(filepath.Join(dir, "in"))
	for _, f := range a.Files {
		if got[f.Name] != "f:"+string(f.Data) {
			return fmt.Sprintf("Write of %d plain entries returned nil, but %q is on disk as %q", n, f.Name, got[f.Name])
		}
	}
	// through the binaries, under ulimit -n 32
	arch := filepath.Join(dir, "tree.txtar")
	if err := os.WriteFile(arch, txtar.Format(a), 0o666); err != nil {
		kit.Harness("write archive: %v", err)
	}
	out := filepath.Join(dir, "x")
	cmd := exec.Command("/bin/sh", "-c", `ulimit -n 32 && exec "$0" -C "$1" < "$2"`, filepath.Join(os.Getenv("VERIF_BIN"), "txtar-x"), out, arch)
	if msg, err := cmd.CombinedOutput(); err != nil {
		if _, serr := os.Stat("/bin/sh"); serr != nil {
			return ""
		}
		return fmt.Sprintf("txtar-x of an archive of %d plain files fails under 'ulimit -n 32': %v: %s", n, err, strings.TrimSpace(string(msg)))
	}
	got = takeSnap(out)
	for _, f := range a.Files {
		if got[f.Name] != "f:"+string(f.Data) {
			return fmt.Sprintf("txtar-x of %d plain files under 'ulimit -n 32' exits 0, but %q is on disk as %q", n, f.Name, got[f.Name])
		}
	}
	return ""
}
