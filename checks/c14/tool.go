// The caller the property names beside the functions: txtar-c -quote stores a
// file that holds a marker line in quoted form and records "unquote <name>" in
// the archive comment (cmd/txtar-c/savedir.go). Small trees go through the
// built binary; for every file, applying the recorded unquote lines to the
// archive must give back the file's content at its own path.
package main

import (
	"bytes"
	"fmt"
	"os"
	"os/exec"
	"path/filepath"
	"sort"
	"strings"

	xtxtar "golang.org/x/tools/txtar"

	"github.com/rogpeppe/go-internal/txtar"

	"verif/kit"
)

type toolFile struct {
	Path string `json:"path"`
	Body string `json:"body"`
}

type toolCase struct {
	Files []toolFile `json:"files"`
}

func (c toolCase) String() string {
	var p []string
	for _, f := range c.Files {
		p = append(p, fmt.Sprintf("%s=%q", f.Path, f.Body))
	}
	return strings.Join(p, " ")
}

var toolSeq int

func checkTool(root string, c toolCase) string {
	toolSeq++
	dir := filepath.Join(root, fmt.Sprintf("tool%d", toolSeq), "tree")
	defer os.RemoveAll(filepath.Dir(dir))
	for _, f := range c.Files {
		p := filepath.Join(dir, filepath.FromSlash(f.Path))
		os.MkdirAll(filepath.Dir(p), 0o777)
		if err := os.WriteFile(p, []byte(f.Body), 0o666); err != nil {
			kit.Harness("write: %v", err)
		}
	}
	cmd := exec.Command(filepath.Join(os.Getenv("VERIF_BIN"), "txtar-c"), "-quote", dir)
	var stdout, stderr bytes.Buffer
	cmd.Stdout, cmd.Stderr = &stdout, &stderr
	if err := cmd.Run(); err != nil {
		return fmt.Sprintf("tool-fails: txtar-c -quote: %v: %s", err, stderr.String())
	}
	// read with the independent implementation of the format
	a := xtxtar.Parse(stdout.Bytes())
	entries := map[string][]byte{}
	for _, f := range a.Files {
		if _, dup := entries[f.Name]; dup {
			return fmt.Sprintf("tool-archive-wrong: entry %q appears twice in %q", f.Name, stdout.String())
		}
		entries[f.Name] = f.Data
	}
	unq := map[string]bool{}
	for _, line := range strings.Split(string(a.Comment), "\n") {
		if name, ok := strings.CutPrefix(line, "unquote "); ok {
			if _, there := entries[name]; !there {
				return fmt.Sprintf("tool-unquote-names-no-entry: the comment says %q but the archive has no entry of that name (entries: %v)", line, names(entries))
			}
			unq[name] = true
		}
	}
	for _, f := range c.Files {
		want := f.Body
		if want != "" && !strings.HasSuffix(want, "\n") {
			want += "\n"
		}
		data, ok := entries[f.Path]
		if !ok {
			return fmt.Sprintf("tool-file-missing: %q is not in the archive written with -quote (archive %q)", f.Path, stdout.String())
		}
		got := string(data)
		if unq[f.Path] {
			u, err := txtar.Unquote(data)
			if err != nil {
				return fmt.Sprintf("tool-unquote-fails: entry %q is listed for unquoting but Unquote(%q) fails: %v", f.Path, data, err)
			}
			got = string(u)
		}
		if got != want {
			return fmt.Sprintf("tool-content-differs: file %q holds %q; the archive, with its unquote lines applied, gives %q (comment %q)", f.Path, want, got, a.Comment)
		}
	}
	return ""
}

func names(m map[string][]byte) []string {
	var out []string
	for k := range m {
		out = append(out, k)
	}
	sort.Strings(out)
	return out
}

func toolCases() []toolCase {
	bodies := []string{"x\n", ">q\n", "-- m --\n", "x\n-- m --\ny\n", "-- m --", ">q\n-- m --\n", "-- y\n-- m --\n", "a\n-- a -- b --\n", "\n-- m --\n\n"}
	paths := []string{"f", "sub/f", "sub/deep/f", "g"}
	var out []toolCase
	for _, p := range paths {
		for _, b := range bodies {
			out = append(out, toolCase{[]toolFile{{p, b}}})
		}
	}
	// two files, among them pairs with the same base name at different depths
	for _, pp := range [][2]string{{"f", "sub/f"}, {"sub/f", "sub/deep/f"}, {"f", "g"}, {"sub/f", "sub/g"}} {
		for _, b1 := range bodies {
			for _, b2 := range bodies {
				out = append(out, toolCase{[]toolFile{{pp[0], b1}, {pp[1], b2}}})
			}
		}
	}
	return out
}

func toolKey(v string, c toolCase) string {
	return strings.SplitN(v, ":", 2)[0] + " tree=" + c.String()
}

func toolPass(r *kit.Run) int {
	root := os.Getenv("VERIF_SCRATCH")
	cs := toolCases()
	for _, c := range cs {
		if v := checkTool(root, c); v != "" {
			cc := c
			r.Violation(toolKey(v, c), fmt.Sprintf("txtar-c -quote over %s: %s", c, v), kase{Tool: &cc})
		}
	}
	return len(cs)
}
