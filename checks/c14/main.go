// C14 — txtar quoting: NeedsQuote is exact, Quote/Unquote are inverse (DESIGN.md §6 C14).
// Engine E; the oracle is the parser itself on a one-file archive.
package main

import (
	"bytes"
	"encoding/json"
	"fmt"
	xtxtar "golang.org/x/tools/txtar"
	"os"
	"strings"
	"sync/atomic"
	"unicode/utf8"

	"github.com/rogpeppe/go-internal/txtar"

	"verif/enum"
	"verif/kit"
)

type kase struct {
	Data []byte `json:"data"`
	// Next: a later input; the results for Data are inspected again after the
	// calls for Next (results must not share storage with later calls)
	Next []byte `json:"next,omitempty"`
	Seq  bool   `json:"sequence,omitempty"`
	// Key: the violation key under which a long input was reported (by shape)
	Key string `json:"key,omitempty"`
	// Tool: a tree archived with the built txtar-c -quote
	Tool *toolCase `json:"tool,omitempty"`
}

// checkSequence: results obtained for d must be unchanged after the same
// functions were called for next.
func checkSequence(d, next []byte) []kit.V {
	var vs []kit.V
	p := try(func() {
		q, qerr := txtar.Quote(d)
		u, _ := txtar.Unquote(q)
		f := txtar.Format(&txtar.Archive{Files: []txtar.File{{Name: "f", Data: d}}})
		qc, uc, fc := append([]byte(nil), q...), append([]byte(nil), u...), append([]byte(nil), f...)
		q2, _ := txtar.Quote(next)
		txtar.Unquote(q2)
		txtar.Format(&txtar.Archive{Files: []txtar.File{{Name: "g", Data: next}}})
		if qerr == nil && (!bytes.Equal(q, qc) || !bytes.Equal(u, uc)) || !bytes.Equal(f, fc) {
			vs = append(vs, kit.V{
				Key:  "result-changed-by-later-call data=" + kit.Q(d),
				What: fmt.Sprintf("Quote/Unquote/Format results for %q (%q, %q, %q) read %q, %q, %q after the same functions were called for %q", d, qc, uc, fc, q, u, f, next),
				Case: kase{Data: append([]byte(nil), d...), Next: append([]byte(nil), next...), Seq: true},
			})
		}
	})
	_ = p
	return vs
}

func fixNL(d []byte) []byte {
	if len(d) == 0 || d[len(d)-1] == '\n' {
		return d
	}
	return append(append([]byte(nil), d...), '\n')
}

// clean reports whether d, stored as the body of the only file of an archive,
// comes back from Format/Parse as exactly that one file.
func clean(d []byte) bool {
	a := txtar.Parse(txtar.Format(&txtar.Archive{Files: []txtar.File{{Name: "f", Data: d}}}))
	return len(a.Comment) == 0 && len(a.Files) == 1 && a.Files[0].Name == "f" && bytes.Equal(a.Files[0].Data, fixNL(d))
}

// cleanRef: the same judged by the reference definition of the format
// (golang.org/x/tools/txtar), which knows nothing of this package. Only for
// bodies without carriage returns, which the reference does not treat specially.
func cleanRef(d []byte) bool {
	a := xtxtar.Parse(xtxtar.Format(&xtxtar.Archive{Files: []xtxtar.File{{Name: "f", Data: d}}}))
	return len(a.Comment) == 0 && len(a.Files) == 1 && a.Files[0].Name == "f" && bytes.Equal(a.Files[0].Data, fixNL(d))
}

// cleanAmong: the same with a file before and a file after it (a body is stored
// wherever its file stands in the archive).
func cleanAmong(d []byte) bool {
	a := txtar.Parse(txtar.Format(&txtar.Archive{Files: []txtar.File{{Name: "p", Data: []byte("pre\n")}, {Name: "f", Data: d}, {Name: "g", Data: []byte("post\n")}}}))
	return len(a.Comment) == 0 && len(a.Files) == 3 && a.Files[0].Name == "p" && string(a.Files[0].Data) == "pre\n" &&
		a.Files[1].Name == "f" && bytes.Equal(a.Files[1].Data, fixNL(d)) && a.Files[2].Name == "g" && string(a.Files[2].Data) == "post\n"
}

// amongMax: bodies longer than this are not tried between two files (the plain
// enumeration sets it to one below its bound, where four fifths of the strings
// are; 0 = no limit).
var amongMax int

func try(f func()) (pan any) {
	defer func() { pan = recover() }()
	f()
	return nil
}

func printable(d []byte) bool {
	for _, b := range d {
		if b != '\n' && (b < 0x20 || b > 0x7e) {
			return false
		}
	}
	return true
}

func checkData(d []byte) []kit.V {
	var vs []kit.V
	c := kase{Data: append([]byte(nil), d...)}
	add := func(class, what string) {
		vs = append(vs, kit.V{Key: class + " data=" + kit.Q(d), What: what, Case: c})
	}
	var nq, cl bool
	if p := try(func() { nq = txtar.NeedsQuote(d); cl = clean(d) }); p != nil {
		add("panic", fmt.Sprintf("NeedsQuote/Parse panics on %q: %v", d, p))
		return vs
	}
	if cl && (amongMax == 0 || len(d) <= amongMax) {
		among := false
		if p := try(func() { among = cleanAmong(d) }); p != nil {
			add("panic", fmt.Sprintf("Format/Parse panic on an archive holding %q between two files: %v", d, p))
			return vs
		}
		if !among {
			add("body-changes-archive-between-files", fmt.Sprintf("the body %q survives Format/Parse as the only file, but not with a file before and a file after it", d))
		}
	}
	if bytes.IndexByte(d, '\r') < 0 {
		if ref := cleanRef(d); ref == nq {
			if nq {
				add("needsquote-true-for-harmless-body", fmt.Sprintf("NeedsQuote(%q) = true, but by the format's reference definition the body holds no marker line (it survives Format/Parse there)", d))
			} else {
				add("needsquote-false-for-marker-body", fmt.Sprintf("NeedsQuote(%q) = false, but by the format's reference definition the body changes how the archive parses", d))
			}
		}
	}
	if nq == cl {
		if nq {
			add("needsquote-false-positive", fmt.Sprintf("NeedsQuote(%q) = true but the body survives Format/Parse unchanged", d))
		} else {
			add("needsquote-false-negative", fmt.Sprintf("NeedsQuote(%q) = false but as a file body it changes how the archive parses", d))
		}
	}
	var q []byte
	var qerr error
	if p := try(func() { q, qerr = txtar.Quote(d) }); p != nil {
		add("quote-panic", fmt.Sprintf("Quote(%q) panics: %v", d, p))
		return vs
	}
	if qerr == nil {
		var u []byte
		var uerr error
		if p := try(func() { u, uerr = txtar.Unquote(q) }); p != nil {
			add("unquote-panic", fmt.Sprintf("Unquote(%q) panics: %v", q, p))
			return vs
		}
		if uerr != nil || !bytes.Equal(u, d) {
			add("quote-unquote", fmt.Sprintf("Quote(%q) = %q but Unquote of it = %q, %v", d, q, u, uerr))
		}
		if txtar.NeedsQuote(q) {
			add("quoted-needs-quote", fmt.Sprintf("Quote(%q) = %q still NeedsQuote", d, q))
		}
		if !clean(q) {
			add("quoted-not-clean", fmt.Sprintf("Quote(%q) = %q does not survive Format/Parse as a file body", d, q))
		}
	} else {
		if len(d) == 0 {
			add("quote-refuses-empty", fmt.Sprintf("Quote(%q) fails: %v", d, qerr))
		} else if d[len(d)-1] == '\n' && utf8.Valid(d) && printable(d) {
			add("quote-refuses-representable", fmt.Sprintf("Quote(%q) fails (%v) although the data is printable, valid UTF-8 and newline-terminated", d, qerr))
		}
	}
	// Unquote is total
	if p := try(func() { txtar.Unquote(d) }); p != nil {
		add("unquote-panic", fmt.Sprintf("Unquote(%q) panics: %v", d, p))
	}
	// The same data as the head of a larger buffer (a slice with spare capacity):
	// the functions must give the same answers, leave their argument alone and
	// write nothing behind it.
	buf := make([]byte, len(d)+8)
	copy(buf, d)
	for i := len(d); i < len(buf); i++ {
		buf[i] = 0xA5
	}
	intact := func() bool {
		for _, b := range buf[len(d):] {
			if b != 0xA5 {
				return false
			}
		}
		return bytes.Equal(buf[:len(d)], d)
	}
	if p := try(func() {
		in := buf[:len(d)]
		if nq2 := txtar.NeedsQuote(in); nq2 != nq {
			add("needsquote-depends-on-capacity", fmt.Sprintf("NeedsQuote(%q) = %v for a slice of exact capacity, %v for the same bytes at the head of a larger buffer", d, nq, nq2))
		}
		if !intact() {
			add("needsquote-writes-to-its-argument", fmt.Sprintf("NeedsQuote(%q) changed the caller's buffer: %q and the 8 bytes behind it are now %q", d, d, buf))
			return
		}
		q2, qerr2 := txtar.Quote(in)
		if (qerr2 == nil) != (qerr == nil) || !bytes.Equal(q2, q) {
			add("quote-depends-on-capacity", fmt.Sprintf("Quote(%q) = %q, %v for a slice of exact capacity and %q, %v at the head of a larger buffer", d, q, qerr, q2, qerr2))
		}
		if !intact() {
			add("quote-writes-to-its-argument", fmt.Sprintf("Quote(%q) changed the caller's buffer: now %q", d, buf))
			return
		}
		txtar.Unquote(in)
		if !intact() {
			add("unquote-writes-to-its-argument", fmt.Sprintf("Unquote(%q) changed the caller's buffer: now %q", d, buf))
		}
	}); p != nil {
		add("panic-with-spare-capacity", fmt.Sprintf("NeedsQuote/Quote/Unquote panic on %q given as the head of a larger buffer: %v", d, p))
	}
	return vs
}

func main() {
	r := kit.Start("C14", "exploration")
	r.Replayer = func(raw json.RawMessage) []kit.V {
		var c kase
		if err := json.Unmarshal(raw, &c); err != nil {
			kit.Harness("bad case: %v", err)
		}
		if c.Seq {
			return checkSequence(c.Data, c.Next)
		}
		if c.Tool != nil {
			if v := checkTool(os.Getenv("VERIF_SCRATCH"), *c.Tool); v != "" {
				return []kit.V{{Key: toolKey(v, *c.Tool), What: v, Case: c}}
			}
			return nil
		}
		r.Watch(127, c.Data)
		defer r.WatchDone(127)
		vs := checkData(c.Data)
		if c.Key != "" && len(vs) > 0 {
			vs = vs[:1]
			vs[0].Key = c.Key
		}
		return vs
	}
	r.Stuck = func(input []byte) kit.V {
		return kit.V{Key: "no-return data=" + kit.Q(input), What: fmt.Sprintf("NeedsQuote/Quote/Unquote of %q does not return", input), Case: kase{Data: input}}
	}
	r.ConcurrentReplay = true
	r.Noise = func(i int) {
		d := []byte(fmt.Sprintf("noise %d\n-- m%d --\n>x\n", i, i%7))
		txtar.NeedsQuote(d)
		if q, err := txtar.Quote(d); err == nil {
			txtar.Unquote(q)
		}
		txtar.Parse(txtar.Format(&txtar.Archive{Files: []txtar.File{{Name: "n", Data: d}}}))
	}
	r.MaybeReplay()
	maxLen := 9
	if r.Thorough() {
		maxLen = 11
	}
	alpha := enum.Bytes("-", " ", "a", ">", "\n", "\r", "\xff")
	var evals, nontrivial, needs, quoted int64
	var stop int32
	amongMax = maxLen - 1
	enum.Strings(alpha, maxLen, r.Workers(), func(w int, s []byte) {
		if atomic.LoadInt32(&stop) != 0 {
			return
		}
		n := atomic.AddInt64(&evals, 1)
		if n&0xfffff == 0 && r.Expired() {
			atomic.StoreInt32(&stop, 1)
		}
		if bytes.HasPrefix(s, []byte("-- ")) || bytes.Contains(s, []byte("\n-- ")) {
			if atomic.AddInt64(&nontrivial, 1)%40009 == 1 {
				r.Sample(string(s))
			}
		}
		r.Watch(w, s)
		vs := checkData(s)
		r.WatchDone(w)
		for _, v := range vs {
			r.Violation(v.Key, v.What, v.Case)
		}
		if n%257 == 0 && len(s) > 1 {
			// results for this input must survive calls for another one
			for _, v := range checkSequence(s, append([]byte("-- m --\n>"), s[1:]...)) {
				r.Violation(v.Key, v.What, v.Case)
			}
		}
		if len(vs) == 0 {
			if txtar.NeedsQuote(s) {
				atomic.AddInt64(&needs, 1)
			}
			if _, err := txtar.Quote(s); err == nil {
				atomic.AddInt64(&quoted, 1)
			}
		}
	})
	// whole marker pieces as tokens: shapes such as "x-- -- a --" need 11 bytes,
	// beyond the byte-wise bound, but only five tokens
	tokAlpha := enum.Bytes("-- ", " --", "a", "\n", "-", " ", ">", "\r\n")
	tokLen := 6
	if r.Thorough() {
		tokLen = 7
	}
	var tokEvals int64
	amongMax = 0
	enum.Strings(tokAlpha, tokLen, r.Workers(), func(w int, s []byte) {
		atomic.AddInt64(&tokEvals, 1)
		r.Watch(w, s)
		vs := checkData(s)
		r.WatchDone(w)
		for _, v := range vs {
			r.Violation(v.Key, v.What, v.Case)
		}
	})
	evals += tokEvals
	r.Set("marker_piece_token_strings", tokEvals)

	// long lines: lengths that straddle the buffer sizes a line-oriented
	// implementation might use, at the start, middle and end of a body
	var longs int64
	short := func(x string) string {
		if len(x) > 300 {
			return x[:150] + " ... " + x[len(x)-150:]
		}
		return x
	}
	sizes := []int{4095, 4096, 4097, 65534, 65535, 65536, 65537, 131072, 1 << 20}
	for _, n := range sizes {
		for li, line := range []string{strings.Repeat("a", n) + "\n", strings.Repeat("a", n), "-- " + strings.Repeat("m", n) + " --\n", ">" + strings.Repeat("a", n) + "\n", strings.Repeat("a", n) + "\r\n"} {
			for _, pre := range []string{"", "x\n", "-- m --\n"} {
				for _, post := range []string{"", "y\n", "-- k --\n"} {
					if li == 1 && post != "" {
						continue
					}
					d := []byte(pre + line + post)
					longs++
					for _, v := range checkData(d) {
						key := fmt.Sprintf("%s long-line kind=%d len=%d pre=%q post=%q", strings.SplitN(v.Key, " ", 2)[0], li, n, pre, post)
						r.Violation(key, short(v.What), kase{Data: d, Key: key})
					}
				}
			}
		}
	}
	r.Set("trees_archived_with_txtar_c_quote", toolPass(r))
	r.Set("long_line_bodies", longs)
	r.Set("evaluations", evals+longs)
	r.Set("distinct_nontrivial", nontrivial+longs)
	r.Set("rule", fmt.Sprintf("every byte string of length <= %d over {-,SP,a,>,LF,CR,0xff}, each once; every string of <= 6 (thorough 7) tokens over {'-- ',' --',a,LF,-,SP,>,CRLF}; plus bodies with one line of 4095..4097, 65534..65537, 131072 or 1048576 bytes (plain, unterminated, marker, quoted-looking, CRLF) at the start, middle or end; non-trivial = has \"-- \" at a line start, or a long line", maxLen))
	r.Set("needs_quote_true", needs)
	r.Set("quote_accepted", quoted)
	r.Set("max_len", maxLen)
	r.Set("exhaustive", !r.Capped())
	r.Assume("txtar.Parse/Format decide what 'changes how the archive parses' (they are checked separately by C03)")
	r.Finish()
}
