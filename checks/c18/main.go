// C18 — imports.ReadImports returns exactly the file's imports and a safe prefix
// (DESIGN.md §6 C18). Engine E: a grammar of valid Go files (exhaustive up to
// stated sizes) and every token string up to a length bound; oracle go/parser.
package main

import (
	"bytes"
	"encoding/json"
	"fmt"
	"go/parser"
	"go/token"
	"os"
	"reflect"
	"strings"
	"sync"
	"sync/atomic"

	"github.com/rogpeppe/go-internal/imports"

	"verif/enum"
	"verif/kit"
)

type kase struct {
	Src []byte `json:"src"`
	// Key: the violation key under which the case was reported, when it is
	// not the default one (long inputs are keyed by shape)
	Key string `json:"key,omitempty"`
}

var bom = []byte{0xef, 0xbb, 0xbf}

func parseImports(src []byte, mode parser.Mode) ([]string, error) {
	fset := token.NewFileSet()
	f, err := parser.ParseFile(fset, "x.go", src, mode|parser.SkipObjectResolution)
	if err != nil {
		return nil, err
	}
	var out []string
	for _, im := range f.Imports {
		out = append(out, im.Path.Value)
	}
	return out, nil
}

type result struct {
	buf  []byte
	list []string
	err  error
	pan  any
}

func readImports(src []byte, report bool) (r result) {
	defer func() {
		if e := recover(); e != nil {
			r.pan = e
		}
	}()
	r.buf, r.err = imports.ReadImports(bytes.NewReader(src), report, &r.list)
	return r
}

func eqList(a, b []string) bool {
	if len(a) == 0 && len(b) == 0 {
		return true
	}
	return reflect.DeepEqual(a, b)
}

// isPrefixModBOM: buf is a leading portion of src, a byte-order mark aside.
func isPrefixModBOM(buf, src []byte) bool {
	if bytes.HasPrefix(src, buf) {
		return true
	}
	if bytes.HasPrefix(src, bom) && bytes.HasPrefix(src[3:], buf) {
		return true
	}
	return false
}

// checkSrc applies every rule that is applicable to src. valid says that the
// generator claims src is a valid file (then go/parser must agree, else the
// case is only counted, not judged).
func checkSrc(src []byte) (vs []kit.V, valid bool) {
	c := kase{Src: append([]byte(nil), src...)}
	add := func(class, what string) {
		vs = append(vs, kit.V{Key: class + " src=" + kit.Q(src), What: what, Case: c})
	}
	rt := readImports(src, true)
	rf := readImports(src, false)
	for _, r := range []result{rt, rf} {
		if r.pan != nil {
			add("panic", fmt.Sprintf("ReadImports(%q) panics: %v", src, r.pan))
			return vs, false
		}
		if !isPrefixModBOM(r.buf, src) {
			add("not-a-prefix", fmt.Sprintf("ReadImports(%q) returned %q, which is not a leading portion of the input", src, r.buf))
		}
	}
	// The input is read from memory: no I/O error can occur, and without a NUL byte
	// in it every error is a syntax error, however it is worded or wrapped.
	noNUL := bytes.IndexByte(src, 0) < 0
	if rt.err != nil && (rt.err.Error() == "syntax error" || noNUL) {
		whole := src
		if bytes.HasPrefix(src, bom) && bytes.Equal(rf.buf, src[3:]) {
			whole = src[3:] // a byte-order mark aside
		}
		// An error other than a syntax error (NUL byte, I/O) may still be reported;
		// the statement only fixes what happens to syntax errors.
		if rf.err != nil && rf.err.Error() != "syntax error" && !noNUL {
			// reported, nothing more to demand
		} else if rf.err != nil || !bytes.Equal(rf.buf, whole) {
			add("syntax-error-fallback", fmt.Sprintf("ReadImports(%q, reportSyntaxError=true) reports a syntax error, but with false it returns (%q, %v) instead of the whole input and nil", src, rf.buf, rf.err))
		}
	}
	want, perr := parseImports(src, 0)
	if perr != nil {
		return vs, false
	}
	// src is a syntactically valid Go file.
	for i, r := range []result{rt, rf} {
		mode := []string{"true", "false"}[i]
		if r.err != nil {
			add("valid-file-error", fmt.Sprintf("valid file %q: ReadImports(reportSyntaxError=%s) fails: %v (go/parser imports: %q)", src, mode, r.err, want))
			continue
		}
		if !eqList(r.list, want) {
			add("imports-differ", fmt.Sprintf("valid file %q: ReadImports(reportSyntaxError=%s) gives %q, go/parser gives %q", src, mode, r.list, want))
			continue
		}
		got, err := parseImports(r.buf, parser.ImportsOnly)
		if err != nil || !eqList(got, want) {
			add("prefix-does-not-parse", fmt.Sprintf("valid file %q: returned prefix %q parses (ImportsOnly) to %q, %v; want %q", src, r.buf, got, err, want))
		}
	}
	return vs, true
}

// ---- grammar of valid files ----

type sizes struct {
	specs    []string
	specs2   []string // reduced set for two-spec groups
	contexts []ctx
	ctxSmall []ctx
}

type ctx struct{ bom, lead, sep, trailer string }

var (
	leads    = []string{"", "// c\n", "/* c */ ", "/**/", "/* * / ** */\n", "/*\n// */", "//go:build x\n\n"}
	seps     = []string{"\n", ";", " /*x*/\n", "//c\n", "\r\n", ";\n"}
	trailers = []string{"", "\n", "func f() {}\n", "var s = \"import \\\"z\\\"\"\n", "var r = `import \"z\"`\n", "// import \"q\"\n", "type i int\n", "const c = 1", "var i = 1\n", "/* import \"u\" */"}
	gseps    = []string{"\n", ";", ";\n", " //c\n", "/*c*/\n", "\r\n"}
	specsAll = []string{`"a"`, `x "a/b"`, `. "a"`, "_ `r`", `π "\x61"`, "`r`", `x"a"`, `"é"`, `i "i"`, "/*c*/ \"a\" /*d*/", "ię \"a\""}
)

func genFiles(th bool, emit func(src string)) {
	var ctxs, small []ctx
	for _, b := range []string{"", string(bom)} {
		for _, l := range leads {
			for _, s := range seps {
				for _, t := range trailers {
					ctxs = append(ctxs, ctx{b, l, s, t})
				}
			}
		}
		for _, t := range trailers {
			small = append(small, ctx{b, "", "\n", t})
		}
		small = append(small, ctx{b, "/* c */ ", ";", "func f() {}\n"})
	}
	specs := specsAll
	specs2 := specsAll[:5]
	if th {
		specs2 = specsAll[:8]
	}
	var decls, declsSmall []string
	for _, ws := range []string{" ", "", "\t", "\n", " /*c*/ "} {
		for _, sp := range specs {
			if ws == "" && !strings.HasPrefix(sp, `"`) && !strings.HasPrefix(sp, "`") && !strings.HasPrefix(sp, ".") && !strings.HasPrefix(sp, "/") {
				continue // "importx" is not an import
			}
			decls = append(decls, "import"+ws+sp)
		}
	}
	for _, sp := range specs {
		declsSmall = append(declsSmall, "import "+sp)
	}
	for _, open := range []string{"import (", "import(", "import (\n", "import ( // c\n"} {
		decls = append(decls, open+")")
		for _, sp := range specs {
			for _, fin := range []string{"", "\n", ";", " //c\n"} {
				decls = append(decls, open+sp+fin+")")
			}
		}
		for _, s1 := range specs2 {
			for _, g := range gseps {
				for _, s2 := range specs2 {
					for _, fin := range []string{"", "\n"} {
						decls = append(decls, open+s1+g+s2+fin+")")
					}
				}
			}
		}
	}
	declsSmall = append(declsSmall, "import ()", "import (\n)")
	for _, sp := range specs {
		declsSmall = append(declsSmall, "import ("+sp+")", "import (\n\t"+sp+"\n)")
	}
	for _, s1 := range specs2[:3] {
		for _, g := range gseps {
			for _, s2 := range specs2[:3] {
				declsSmall = append(declsSmall, "import (\n"+s1+g+s2+"\n)")
			}
		}
	}
	file := func(c ctx, body string) string {
		tr := c.trailer
		if body != "" && tr != "" {
			// a declaration needs a terminator before the next one
			body += "\n"
		}
		return c.bom + c.lead + "package p" + c.sep + body + tr
	}
	// (A) every context x every single declaration (and no declaration)
	for _, c := range ctxs {
		emit(file(c, ""))
		for _, d := range decls {
			emit(file(c, d))
		}
	}
	// (A2) identifiers: every single byte, and every string of 2-3 characters over
	// the boundaries of the identifier classes, as package name and as import name
	var idents []string
	for b := 0; b < 256; b++ {
		idents = append(idents, string([]byte{byte(b)}))
	}
	idChars := []string{"A", "Z", "a", "z", "0", "9", "_", "M", "é", "@", "[", "`", "{", "/", ":"}
	for _, c1 := range idChars {
		for _, c2 := range idChars {
			idents = append(idents, c1+c2)
			for _, c3 := range []string{"Z", "z", "9", "_"} {
				idents = append(idents, c1+c2+c3)
			}
		}
	}
	for _, id := range idents {
		emit("package " + id + "\nimport \"a\"\n")
		emit("package " + id + ";import \"a\"\n")
		emit("package p\nimport " + id + " \"a\"\nimport \"b\"\n")
		emit("package p\nimport " + id + "\"a\"\nimport \"b\"\n")
		emit("package p\nimport (" + id + " \"a\"; \"b\")\nvar " + id + " = 1\n")
	}
	// (B) reduced contexts x every pair (and, thorough, triple) of declarations from the reduced set
	for _, c := range small {
		for _, d1 := range declsSmall {
			for _, ds := range []string{"\n", ";", "; ", "\n\n// c\n"} {
				for _, d2 := range declsSmall {
					emit(file(c, d1+ds+d2))
					if th && ds == "\n" {
						for _, d3 := range declsSmall[:12] {
							emit(file(c, d1+ds+d2+";"+d3))
						}
					}
				}
			}
		}
	}
}

func main() {
	r := kit.Start("C18", "exploration")
	r.Replayer = func(raw json.RawMessage) []kit.V {
		var c kase
		if err := json.Unmarshal(raw, &c); err != nil {
			kit.Harness("bad case: %v", err)
		}
		// The reader may carry state from one call to the next in the same process
		// (a pooled buffer, a counter): a case that needs such history is replayed by
		// repeating the same input; a violation on any repetition is genuine.
		defer r.WatchDone(127)
		reps := 12000
		if len(c.Src) > 1000 {
			reps = 200 // long inputs: each evaluation is expensive
		}
		for i := 0; i < reps; i++ {
			r.Watch(127, c.Src) // per evaluation: the watchdog times one call, not the loop
			if vs, _ := checkSrc(c.Src); len(vs) > 0 {
				if c.Key != "" {
					vs = vs[:1]
					vs[0].Key = c.Key
				}
				return vs
			}
		}
		return nil
	}
	r.Stuck = func(in []byte) kit.V {
		k := kit.Q(in)
		if len(k) > 200 {
			k = fmt.Sprintf("%s...(%d bytes)", k[:200], len(in))
		}
		return kit.V{Key: "no-return src=" + k, What: "ReadImports of " + k + " does not return", Case: kase{Src: in}}
	}
	r.ConcurrentReplay = true
	r.Noise = func(i int) {
		var list []string
		src := fmt.Sprintf("/* n%d */package p%d\nimport (\"a%d\"; x \"b\")\nvar v = %d\n", i, i%3, i%11, i)
		imports.ReadImports(strings.NewReader(src), i%2 == 0, &list)
		imports.ReadImports(strings.NewReader(src[:len(src)/2]+"\x00"), true, &list)
	}
	r.MaybeReplay()

	var files, validFiles, rejected, withImports int64
	nw := r.Workers()
	ch := make(chan string, 1024)
	var wg sync.WaitGroup
	for w := 0; w < nw; w++ {
		wg.Add(1)
		go func() {
			defer wg.Done()
			for src := range ch {
				r.Watch(w, []byte(src))
				vs, valid := checkSrc([]byte(src))
				r.WatchDone(w)
				for _, v := range vs {
					r.Violation(v.Key, v.What, v.Case)
				}
				if valid {
					n := atomic.AddInt64(&validFiles, 1)
					if strings.Contains(src, "import") {
						atomic.AddInt64(&withImports, 1)
					}
					if n%150001 == 7 {
						r.Sample(src)
					}
				} else {
					if atomic.AddInt64(&rejected, 1)%20011 == 3 && os.Getenv("C18_SHOW_REJECTED") != "" {
						_, err := parseImports([]byte(src), 0)
						fmt.Printf("rejected: %q: %v\n", src, err)
					}
				}
			}
		}()
	}
	seen := 0
	genFiles(r.Thorough(), func(src string) {
		seen++
		if seen&0xfff == 0 && r.Expired() {
			return
		}
		if r.Capped() {
			return
		}
		files++
		ch <- src
	})
	close(ch)
	wg.Wait()

	// (C) skeleton files with one hole, filled with every token string up to a
	// bound over a comment/space/string alphabet; whatever go/parser accepts as a
	// valid file is judged by the full rules. This reaches every shape of block
	// and line comment (/***/, /* **/, /*/*/, //*/ ...) at every place the
	// reader skips space.
	skeletons := [][2]string{
		{"", "package p\nimport \"a\"\n"},
		{"package", " p\nimport \"a\"\n"},
		{"package p", "\nimport \"a\"\nvar x = 1\n"},
		{"package p\nimport", "\"a\"\nimport \"b\"\n"},
		{"package p\nimport x", "\"a\";import \"b\"\n"},
		{"package p\nimport (", "\"a\"\n\"b\"\n)\n"},
		{"package p\nimport (\"a\"", "\n\"b\"\n)\nfunc f(){}\n"},
		{"package p\nimport (\"a\"\n\"b\"\n", ")\nimport \"c\"\n"},
		{"package p\nimport \"a\"", "\nimport \"b\"\n"},
		{"package p\nimport \"a\"\n", ""},
	}
	fillLen := 6
	if r.Thorough() {
		fillLen = 8
	}
	fillAlpha := enum.Bytes("/", "*", "\n", " ", "a", ";")
	var holes, holesValid int64
	var stopH int32
	strAlpha := enum.Bytes("a", "\\", "\"", "x", "6", "1", "`", "\n", "/", "*")
	strSkeletons := [][2]string{
		{"package p\nimport \"", "\"\nimport \"b\"\n"},
		{"package p\nimport `", "`\nimport \"b\"\n"},
		{"package p\nimport (\"b\";x \"", "\"\n\"c\")\n"},
	}
	type holeSet struct {
		sk    [][2]string
		alpha [][]byte
		n     int
	}
	crAlpha := enum.Bytes("/", "*", "\n", "\r", "a", " ", "\"")
	for _, hs := range []holeSet{{skeletons, fillAlpha, fillLen}, {strSkeletons, strAlpha, fillLen - 1}, {skeletons, crAlpha, fillLen - 1}} {
		for _, sk := range hs.sk {
			pre, post := []byte(sk[0]), []byte(sk[1])
			enum.Strings(hs.alpha, hs.n, nw, func(w int, fill []byte) {
				if atomic.LoadInt32(&stopH) != 0 {
					return
				}
				n := atomic.AddInt64(&holes, 1)
				if n&0xffff == 0 && r.Expired() {
					atomic.StoreInt32(&stopH, 1)
				}
				src := make([]byte, 0, len(pre)+len(fill)+len(post))
				src = append(append(append(src, pre...), fill...), post...)
				r.Watch(w, src)
				vs, valid := checkSrc(src)
				r.WatchDone(w)
				for _, v := range vs {
					r.Violation(v.Key, v.What, v.Case)
				}
				if valid {
					if k := atomic.AddInt64(&holesValid, 1); k%40009 == 5 {
						r.Sample(string(src))
					}
				}
			})
		}
	}
	// (D) long elements in every hole: comments, blank runs, identifiers and
	// string contents whose length straddles the reader's buffer sizes
	var longs, longsValid int64
	var sizes []int
	for n := 4080; n <= 4100; n++ {
		sizes = append(sizes, n)
	}
	for n := 8186; n <= 8196; n++ {
		sizes = append(sizes, n)
	}
	sizes = append(sizes, 16384, 65537)
	if r.Thorough() {
		for n := 4000; n < 4080; n++ {
			sizes = append(sizes, n)
		}
		for n := 12280; n <= 12292; n++ {
			sizes = append(sizes, n)
		}
	}
	longKinds := []func(n int) string{
		func(n int) string { return "//" + strings.Repeat("x", n) + "\n" },
		func(n int) string { return "/*" + strings.Repeat("x", n) + "*/" },
		func(n int) string { return "/*" + strings.Repeat("*", n) + "/" },
		func(n int) string { return strings.Repeat(" ", n) },
		func(n int) string { return strings.Repeat("\n", n) },
		func(n int) string { return " " + strings.Repeat("a", n) + " " },
		func(n int) string { return strings.Repeat("a", n) },
		func(n int) string { return "\n" + strings.Repeat("//x\n", n/4) },
	}
	type longJob struct{ pre, fill, post string }
	lch := make(chan longJob, 64)
	var lwg sync.WaitGroup
	for w := 0; w < nw; w++ {
		lwg.Add(1)
		go func() {
			defer lwg.Done()
			for j := range lch {
				src := []byte(j.pre + j.fill + j.post)
				atomic.AddInt64(&longs, 1)
				r.Watch(w, src)
				vs, valid := checkSrc(src)
				r.WatchDone(w)
				for _, v := range vs {
					// the key names the shape, not the 4 KiB of filler
					v.Key = fmt.Sprintf("%s long-element pre=%q kind=%q len=%d", strings.SplitN(v.Key, " ", 2)[0], j.pre, j.fill[:3], len(j.fill))
					if len(v.What) > 400 {
						v.What = v.What[:200] + " ... " + v.What[len(v.What)-200:]
					}
					r.Violation(v.Key, v.What, kase{Src: src, Key: v.Key})
				}
				if valid {
					atomic.AddInt64(&longsValid, 1)
				}
			}
		}()
	}
	for _, sk := range append(append([][2]string{}, skeletons...), strSkeletons...) {
		for _, n := range sizes {
			for _, k := range longKinds {
				if r.Expired() {
					break
				}
				lch <- longJob{sk[0], k(n), sk[1]}
			}
		}
	}
	close(lch)
	lwg.Wait()
	r.Set("long_element_files", longs)
	r.Set("long_element_files_valid", longsValid)
	r.Set("skeleton_hole_files", holes)
	r.Set("skeleton_hole_files_valid", holesValid)
	r.Set("skeleton_hole_max_tokens", fillLen)

	// arbitrary token strings
	maxLen := 5
	if r.Thorough() {
		maxLen = 6
	}
	alpha := enum.Bytes("package", "import", " ", "\n", ";", "p", "i", "(", ")", "\"", "`", "\\", "/", "*", ".", "_", "\x00", string(bom))
	var toks, tokValid, tokSyntax int64
	var stop int32
	enum.Strings(alpha, maxLen, nw, func(w int, s []byte) {
		if atomic.LoadInt32(&stop) != 0 {
			return
		}
		n := atomic.AddInt64(&toks, 1)
		if n&0xffff == 0 && r.Expired() {
			atomic.StoreInt32(&stop, 1)
		}
		r.Watch(w, s)
		vs, valid := checkSrc(s)
		r.WatchDone(w)
		for _, v := range vs {
			r.Violation(v.Key, v.What, v.Case)
		}
		if valid {
			if atomic.AddInt64(&tokValid, 1)%97 == 1 {
				r.Sample(string(s))
			}
		}
		_ = tokSyntax
	})
	r.Set("evaluations", files+toks+holes+longs)
	r.Set("distinct_nontrivial", validFiles+tokValid+holesValid+longsValid)
	r.Set("rule", "grammar: (A) every context (BOM? x leading comment x separator x trailer) x every single import declaration; (A2) every single byte and every 2-3 character string over the boundaries of the identifier classes {A,Z,a,z,0,9,_,M,é,@,[,`,{,/,:} as package name and as import name; (B) reduced contexts x every pair of declarations from a reduced set; (C) ten skeleton files with one hole filled by every token string of <= skeleton_hole_max_tokens over {/,*,LF,SP,a,;} and (one token shorter) over {/,*,LF,CR,a,SP,\"} (carriage returns that are not line ends), and three string-literal holes filled over {a,\\,\",x,6,1,`,LF,/,*}; (D) the same thirteen holes filled with one long element (line comment, two block-comment shapes, blanks, newlines, identifier, string content, a run of short comments) of every length 4080..4100, 8186..8196, 16384 and 65537 bytes; plus every token string of length <= max_tokens over the 18-token lexical alphabet. non-trivial = accepted by go/parser as a complete valid file (so the import-list and prefix rules apply), counted")
	r.Set("generated_files", files)
	r.Set("generated_files_valid", validFiles)
	r.Set("generated_files_rejected_by_go_parser_not_judged", rejected)
	r.Set("valid_files_with_imports", withImports)
	r.Set("token_strings", toks)
	r.Set("token_strings_that_are_valid_files", tokValid)
	r.Set("max_tokens", maxLen)
	r.Set("exhaustive", !r.Capped())
	r.Assume("go/parser of the toolchain in use defines 'syntactically valid Go file' and its import list")
	r.Finish()
}
