// C12 — an interrupted or failing Put leaves the cache consistent (DESIGN.md §6
// C12). Engine F: the real Put runs on the os shim; for every file-operation
// boundary the run is stopped there (crash), the operation is failed, or a write
// is made short; for every read offset the source fails, ends early or changes
// between the two passes. A fresh, uninstrumented view then checks the lookups.
// Thorough tier also kills a real child process with SIGKILL at each boundary.
package main

import (
	"bytes"
	"crypto/sha256"
	"encoding/json"
	"errors"
	"flag"
	"fmt"
	"io"
	"os"
	"os/exec"
	"path/filepath"
	"strings"
	"syscall"
	"time"

	"github.com/rogpeppe/go-internal/cache"

	"verif/kit"
	"verif/virt/vos"
)

var ids [3]cache.ActionID
var idName = []string{"A", "B", "C"}

func init() {
	for i := range ids[0] {
		ids[0][i] = 0xa0 + byte(i%7)
		ids[1][i] = 0xb0 + byte(i%5)
		ids[2][i] = 0xc0 + byte(i%3)
	}
}

func content(tag byte, n int) []byte {
	b := make([]byte, n)
	for i := range b {
		b[i] = tag + byte(i%23)
	}
	if n > 0 {
		b[n-1] = '\n'
	}
	return b
}

func fileOf(dir string, id [32]byte, key string) string {
	return filepath.Join(dir, fmt.Sprintf("%02x", id[0]), fmt.Sprintf("%x-%s", id, key))
}

func entryBytes(id cache.ActionID, out cache.OutputID, size int64) []byte {
	return []byte(fmt.Sprintf("v1 %x %x %20d %20d\n", id, out, size, int64(1500000000000000000)))
}

// ---------- scenarios ----------

type scenario struct {
	Start   string `json:"start"`
	Size    int    `json:"size"`    // size of the content being Put
	Damaged bool   `json:"damaged"` // pre-damaged output: only checksum-verified lookups are asserted
	Target  int    `json:"target"`  // id being Put
	// NoVerify: the entry is stored through PutNoVerify (which differs from Put
	// only in a debugging cross-check; everything the statement says holds for it)
	NoVerify bool `json:"no_verify,omitempty"`
	// Aged: every file of the start state was last written (and looked at) six
	// days ago
	Aged bool `json:"aged,omitempty"`
}

func (s scenario) String() string {
	nv := ""
	if s.NoVerify {
		nv = " via PutNoVerify"
	}
	if s.Aged {
		nv += " start-state-six-days-old"
	}
	return fmt.Sprintf("%s size=%d put-to=%s%s", s.Start, s.Size, idName[s.Target], nv)
}

// newContent is what the faulted Put stores; other is the unrelated entry B->Y.
func (s scenario) newContent() []byte { return content('N', s.Size) }

var unrelated = content('U', 17)

// setup prepares the start state with plain file writes / an unhooked cache.
func setup(dir string, tmpl *cache.Cache, s scenario) {
	c := cache.WithDirVerif(tmpl, dir)
	put := func(i int, data []byte) {
		if err := c.PutBytes(ids[i], data); err != nil {
			kit.UnderTestFailed("PutBytes while building the start state (no fault injected yet) fails: %v", err)
		}
	}
	// look: everything stored so far is looked up once, as a process that has used
	// the cache before would have done (anything the package remembers about a
	// file from an earlier lookup must not outlive a change of that file)
	look := func() {
		for i := range ids {
			c.GetBytes(ids[i])
			c.GetFile(ids[i])
		}
	}
	nc := s.newContent()
	out := cache.OutputID(sha256.Sum256(nc))
	put(1, unrelated) // B -> unrelated content, always present
	switch s.Start {
	case "S0-empty":
	case "S1-other-entries":
		put(2, content('V', 5))
	case "S2-overwrite-different-length":
		put(s.Target, content('O', s.Size+3))
	case "S2-overwrite-same-length":
		put(s.Target, content('O', s.Size))
	case "S2-same-content-again":
		put(s.Target, nc)
	case "S2-overwrite-empty":
		// the index entry being overwritten in place records size 0
		put(s.Target, nil)
	case "S6-same-content-under-other-id":
		// the output file is shared with an entry the failing Put did not create
		put(2, nc)
	case "S6-same-content-under-other-id-and-overwrite":
		put(2, nc)
		put(s.Target, content('O', s.Size+1))
	case "S6-same-content-under-other-id-after-repair":
		// the shared output was damaged once and repaired by a later Put, all in
		// this process (anything remembered about the file must not outlive that)
		put(2, nc)
		os.WriteFile(fileOf(dir, out, "d"), bytes.Repeat([]byte("#"), len(nc)), 0o666)
		put(2, nc)
	case "S3-partial-output-0":
		os.WriteFile(fileOf(dir, out, "d"), nil, 0o666)
	case "S3-partial-output-1":
		os.WriteFile(fileOf(dir, out, "d"), nc[:1], 0o666)
	case "S3-partial-output-n-1":
		os.WriteFile(fileOf(dir, out, "d"), nc[:len(nc)-1], 0o666)
	case "S5-index-present-output-trimmed":
		// what Trim leaves when the data file is older than the index entry
		put(s.Target, nc)
		put(2, nc)
		look()
		os.Remove(fileOf(dir, out, "d"))
	case "S4-damaged-same-size":
		put(2, nc)
		look()
		os.WriteFile(fileOf(dir, out, "d"), bytes.Repeat([]byte("#"), len(nc)), 0o666)
	case "S4-damaged-longer":
		put(2, nc)
		look()
		os.WriteFile(fileOf(dir, out, "d"), append(append([]byte(nil), nc...), "tail"...), 0o666)
	case "S4-damaged-shorter-wrong":
		put(2, nc)
		look()
		os.WriteFile(fileOf(dir, out, "d"), bytes.Repeat([]byte("#"), len(nc)/2), 0o666)
	default:
		kit.Harness("unknown start %q", s.Start)
	}
	if !strings.HasPrefix(s.Start, "S4-") && !strings.HasPrefix(s.Start, "S5-") {
		look()
	}
	if s.Aged {
		old := time.Now().Add(-6 * 24 * time.Hour)
		filepath.Walk(dir, func(p string, info os.FileInfo, err error) error {
			if err == nil && info.Mode().IsRegular() {
				os.Chtimes(p, old, old)
			}
			return nil
		})
	}
}

func scenarios(th bool) []scenario {
	var out []scenario
	sizes := []int{0, 1, 2, 40, 4096}
	big := 40000
	if th {
		big = 70000
		sizes = []int{0, 1, 2, 3, 40, 175, 4095, 4096, 4097, 32768, 65536}
	}
	for _, st := range []string{"S0-empty", "S1-other-entries", "S2-overwrite-different-length", "S2-overwrite-same-length", "S2-same-content-again", "S5-index-present-output-trimmed"} {
		for _, sz := range append(sizes, big) {
			out = append(out, scenario{st, sz, false, 0, false, false})
		}
	}
	for _, st := range []string{"S2-overwrite-empty", "S6-same-content-under-other-id", "S6-same-content-under-other-id-and-overwrite", "S6-same-content-under-other-id-after-repair"} {
		for _, sz := range []int{1, 40, big} {
			out = append(out, scenario{st, sz, false, 0, false, false})
		}
	}
	for _, st := range []string{"S3-partial-output-0", "S3-partial-output-1", "S3-partial-output-n-1"} {
		for _, sz := range []int{2, 40, big} {
			out = append(out, scenario{st, sz, false, 0, false, false})
		}
	}
	for _, st := range []string{"S4-damaged-same-size", "S4-damaged-longer", "S4-damaged-shorter-wrong"} {
		for _, sz := range []int{2, 40} {
			out = append(out, scenario{st, sz, true, 0, false, false})
		}
	}
	// a start state that has not been touched for six days (older than the limit
	// after which Trim would remove it, not yet trimmed)
	for _, st := range []string{"S2-same-content-again", "S6-same-content-under-other-id", "S2-overwrite-same-length", "S1-other-entries"} {
		for _, sz := range []int{2, 40} {
			out = append(out, scenario{Start: st, Size: sz, Aged: true})
		}
	}
	// the other exported way of storing
	for _, st := range []string{"S0-empty", "S2-overwrite-same-length", "S2-same-content-again", "S6-same-content-under-other-id", "S4-damaged-same-size"} {
		for _, sz := range []int{2, 40} {
			out = append(out, scenario{st, sz, st == "S4-damaged-same-size", 0, true, false})
		}
	}
	return out
}

// ---------- faults ----------

type fault struct {
	Kind string `json:"kind"` // none | crash | fail | short | src-error | src-eof | src-flip | seek-fail | kill
	K    int    `json:"k"`    // file operation index / read offset
	J    int    `json:"j"`    // short-write length; pass number for source faults
	K2   int    `json:"k2"`   // second failing operation for pairs (-1 none)
}

func (f fault) String() string {
	switch f.Kind {
	case "short":
		return fmt.Sprintf("short@%d,%d", f.K, f.J)
	case "torn":
		return fmt.Sprintf("killed-inside-write@%d-after-%d-bytes", f.K, f.J)
	case "src-error", "src-eof", "src-flip":
		return fmt.Sprintf("%s@offset%d,pass%d", f.Kind, f.K, f.J)
	case "seek-fail":
		return fmt.Sprintf("seek-fail@%d", f.K)
	}
	if strings.HasPrefix(f.Kind, "flip+") {
		return fmt.Sprintf("src-flip@offset%d,pass%d+%s@%d", f.K, f.J, strings.TrimPrefix(f.Kind, "flip+"), f.K2)
	}
	if f.K2 >= 0 && f.Kind == "fail" {
		return fmt.Sprintf("fail@%d+fail@%d", f.K, f.K2)
	}
	return fmt.Sprintf("%s@%d", f.Kind, f.K)
}

// source is the io.ReadSeeker handed to Put.
type source struct {
	data  []byte
	off   int
	seeks int
	f     fault
}

func (s *source) pass() int { return s.seeks }

func (s *source) Seek(off int64, whence int) (int64, error) {
	s.seeks++
	if s.f.Kind == "seek-fail" && s.seeks == s.f.K {
		return 0, errors.New("injected seek failure")
	}
	base := 0
	switch whence {
	case io.SeekCurrent:
		base = s.off
	case io.SeekEnd:
		base = len(s.data)
	}
	if int(off)+base < 0 {
		return 0, errors.New("seek before the start")
	}
	s.off = int(off) + base
	return int64(s.off), nil
}

func (s *source) Read(p []byte) (int, error) {
	srcFault := (s.f.Kind == "src-error" || s.f.Kind == "src-eof") && s.pass() == s.f.J
	limit := len(s.data)
	if srcFault && s.f.K < limit {
		limit = s.f.K
	}
	if s.off >= limit {
		if srcFault && s.f.Kind == "src-error" {
			return 0, errors.New("injected read error")
		}
		return 0, io.EOF
	}
	n := copy(p, s.data[s.off:limit])
	if (s.f.Kind == "src-flip" || strings.HasPrefix(s.f.Kind, "flip+")) && s.pass() == s.f.J {
		for i := 0; i < n; i++ {
			if s.off+i == s.f.K {
				p[i] ^= 0x20
			}
		}
	}
	s.off += n
	return n, nil
}

type runResult struct {
	Ops     []string
	PutErr  error
	Crashed bool
	Pan     any
	// StatFailed: an operation of the phase in which copyFile recognises an
	// output that is already in place (Stat, read-only Open, Read: everything
	// before the first open for writing) was made to fail, so Put could not
	// know the shared output was intact and rewrote it in place
	StatFailed bool
}

// runPut executes the faulted Put in dir and returns what happened.
func runPut(dir string, tmpl *cache.Cache, s scenario, f fault) (res runResult) {
	vos.Reset()
	n := 0
	sawWriteOpen := false
	vos.Hook = func(op *vos.Op) vos.Verdict {
		k := n
		n++
		res.Ops = append(res.Ops, op.Kind)
		failing := f.Kind == "fail" && (k == f.K || k == f.K2) || f.Kind == "flip+fail" && k == f.K2
		if op.Kind == "open" && op.Flag&(os.O_WRONLY|os.O_RDWR) != 0 && !failing {
			defer func() { sawWriteOpen = true }()
		}
		switch f.Kind {
		case "crash":
			if k == f.K {
				return vos.Verdict{Crash: true}
			}
		case "flip+crash":
			// the source changes between the passes and the process stops at operation K2
			if k == f.K2 {
				return vos.Verdict{Crash: true}
			}
		case "flip+fail":
			// the source changes between the passes and operation K2 fails
			if k == f.K2 {
				if !sawWriteOpen {
					res.StatFailed = true
				}
				return vos.Verdict{Fail: &os.PathError{Op: op.Kind, Path: op.Path, Err: syscall.EIO}}
			}
		case "kill":
			if k == f.K {
				syscall.Kill(os.Getpid(), syscall.SIGKILL)
				select {}
			}
		case "fail":
			if k == f.K || k == f.K2 {
				if !sawWriteOpen {
					res.StatFailed = true
				}
				return vos.Verdict{Fail: &os.PathError{Op: op.Kind, Path: op.Path, Err: syscall.EIO}}
			}
		case "short":
			if k == f.K {
				return vos.Verdict{Short: f.J}
			}
		case "torn":
			// the process dies in the middle of a write: J bytes reached the file
			if k == f.K {
				return vos.Verdict{Short: f.J, CrashAfterShort: true}
			}
		}
		return vos.Verdict{}
	}
	defer func() {
		if r := recover(); r != nil {
			if _, ok := r.(vos.Crash); ok {
				res.Crashed = true
			} else {
				res.Pan = r
			}
		}
		vos.Reset()
	}()
	c := cache.WithDirVerif(tmpl, dir)
	// the reader has been used before: it is handed over positioned in the middle
	// of its data (Put documents that it reads the file from the start, twice)
	nc := s.newContent()
	if s.NoVerify {
		_, _, res.PutErr = c.PutNoVerify(ids[s.Target], &source{data: nc, off: len(nc) / 2, f: f})
	} else {
		_, _, res.PutErr = c.Put(ids[s.Target], &source{data: nc, off: len(nc) / 2, f: f})
	}
	return res
}

func notFound(err error) bool {
	return err != nil && strings.HasPrefix(err.Error(), "cache entry not found")
}

// oracle inspects dir with a fresh cache and no hook.
func oracle(dir string, tmpl *cache.Cache, s scenario, res runResult, srcFault bool) string {
	vos.Reset()
	c := cache.WithDirVerif(tmpl, dir)
	if res.Pan != nil {
		return fmt.Sprintf("Put panics: %v", res.Pan)
	}
	for i := range ids {
		var data []byte
		var ent cache.Entry
		var err error
		var file string
		pan := func() (p any) {
			defer func() { p = recover() }()
			data, ent, err = c.GetBytes(ids[i])
			return nil
		}()
		if pan != nil {
			return fmt.Sprintf("GetBytes(%s) panics: %v", idName[i], pan)
		}
		if err != nil && !notFound(err) {
			return fmt.Sprintf("GetBytes(%s): %v", idName[i], err)
		}
		if err == nil && sha256.Sum256(data) != ent.OutputID {
			return fmt.Sprintf("GetBytes(%s) returned %d bytes whose SHA-256 is not the reported OutputID", idName[i], len(data))
		}
		if i == 1 { // the unrelated entry
			if err != nil || !bytes.Equal(data, unrelated) {
				return fmt.Sprintf("the unrelated entry B is no longer readable after the failed Put: %v", err)
			}
		}
		if i == 2 && i != s.Target && !s.Damaged && !res.StatFailed {
			// entries of another action id, stored before the faulted Put
			var want []byte
			switch {
			case s.Start == "S1-other-entries":
				want = content('V', 5)
			case strings.HasPrefix(s.Start, "S6-"):
				want = s.newContent()
			}
			if want != nil && (err != nil || !bytes.Equal(data, want)) {
				return fmt.Sprintf("entry C (another action id, stored before and untouched by the failed Put, start state %s) is no longer readable: %v", s.Start, err)
			}
		}
		if i == s.Target && res.PutErr == nil && !res.Crashed && !s.Damaged {
			// Put reported success: the entry must be readable. With a source that
			// ended early or changed, "the content" is whatever Put consistently
			// read, so only the checksum gate (above) applies to the bytes.
			if err != nil {
				return fmt.Sprintf("Put returned nil but GetBytes(%s) = %v", idName[i], err)
			}
			if !srcFault && !bytes.Equal(data, s.newContent()) {
				return fmt.Sprintf("Put returned nil but GetBytes(%s) returned %d other bytes", idName[i], len(data))
			}
		}
		pan = func() (p any) {
			defer func() { p = recover() }()
			file, ent, err = c.GetFile(ids[i])
			return nil
		}()
		if pan != nil {
			return fmt.Sprintf("GetFile(%s) panics: %v", idName[i], pan)
		}
		if err != nil && !notFound(err) {
			return fmt.Sprintf("GetFile(%s): %v", idName[i], err)
		}
		if err == nil && !s.Damaged {
			got, rerr := os.ReadFile(file)
			if rerr != nil || int64(len(got)) != ent.Size {
				return fmt.Sprintf("GetFile(%s) names a file of %d bytes, reported size %d (%v)", idName[i], len(got), ent.Size, rerr)
			}
			if sha256.Sum256(got) != ent.OutputID {
				return fmt.Sprintf("GetFile(%s) names a file of the reported size %d whose bytes do not have the reported OutputID (first bytes %q)", idName[i], ent.Size, head(got))
			}
		}
	}
	return ""
}

func head(b []byte) []byte {
	if len(b) > 12 {
		return b[:12]
	}
	return b
}

type kase struct {
	Scenario scenario `json:"scenario"`
	Fault    fault    `json:"fault"`
	Ops      []string `json:"ops,omitempty"`
}

type world struct {
	root string
	tmpl *cache.Cache
	seq  int
	dir  string
}

func newWorld() *world {
	root, err := os.MkdirTemp(os.Getenv("VERIF_SCRATCH"), "c12")
	if err != nil {
		kit.Harness("mkdtemp: %v", err)
	}
	w := &world{root: root, dir: filepath.Join(root, "h0")}
	os.MkdirAll(w.dir, 0o777)
	c, err := cache.Open(w.dir)
	if err != nil {
		kit.UnderTestFailed("cache.Open of a fresh directory fails: %v", err)
	}
	w.tmpl = c
	return w
}

func (w *world) fresh() string {
	vos.Reset()
	w.seq++
	nd := filepath.Join(w.root, fmt.Sprintf("h%d", w.seq))
	if err := os.Rename(w.dir, nd); err != nil {
		kit.Harness("rename: %v", err)
	}
	w.dir = nd
	top, _ := os.ReadDir(nd)
	for _, t := range top {
		if t.IsDir() && len(t.Name()) == 2 {
			ents, _ := os.ReadDir(filepath.Join(nd, t.Name()))
			for _, f := range ents {
				os.Remove(filepath.Join(nd, t.Name(), f.Name()))
			}
			continue
		}
		os.RemoveAll(filepath.Join(nd, t.Name()))
	}
	return nd
}

func (w *world) one(s scenario, f fault) (string, runResult) {
	dir := w.fresh()
	setup(dir, w.tmpl, s)
	var res runResult
	if f.Kind == "kill" {
		res = runChild(dir, s, f)
	} else {
		res = runPut(dir, w.tmpl, s, f)
	}
	return oracle(dir, w.tmpl, s, res, strings.HasPrefix(f.Kind, "src-") || f.Kind == "seek-fail"), res
}

// runChild runs the Put in a child process that SIGKILLs itself at boundary K.
func runChild(dir string, s scenario, f fault) runResult {
	js, _ := json.Marshal(kase{Scenario: s, Fault: f})
	cmd := exec.Command(os.Args[0], "-child", string(js), "-childdir", dir)
	cmd.Stderr = os.Stderr
	err := cmd.Run()
	var res runResult
	if ee, ok := err.(*exec.ExitError); ok {
		if ws, ok := ee.Sys().(syscall.WaitStatus); ok && ws.Signaled() && ws.Signal() == syscall.SIGKILL {
			res.Crashed = true
			return res
		}
	}
	if err != nil {
		kit.Harness("child: %v", err)
	}
	// the boundary was beyond the end: Put completed
	return res
}

var (
	childCase = flag.String("child", "", "internal: run one faulted Put and exit")
	childDir  = flag.String("childdir", "", "internal")
)

func violClass(v string) string {
	f := strings.Fields(v)
	if len(f) > 4 {
		f = f[:4]
	}
	return strings.Join(f, "-")
}

func main() {
	r := kit.Start("C12", "fault_enumeration")
	if *childCase != "" {
		var c kase
		if err := json.Unmarshal([]byte(*childCase), &c); err != nil {
			os.Exit(4)
		}
		tmpl, err := cache.Open(*childDir)
		if err != nil {
			os.Exit(5)
		}
		runPut(*childDir, tmpl, c.Scenario, c.Fault)
		os.Exit(0)
	}
	w := newWorld()
	defer os.RemoveAll(w.root)
	r.Replayer = func(raw json.RawMessage) []kit.V {
		var c kase
		if err := json.Unmarshal(raw, &c); err != nil {
			kit.Harness("bad case: %v", err)
		}
		v, res := w.one(c.Scenario, c.Fault)
		if v == "" && c.Fault.Kind == "none" && res.PutErr != nil {
			v = fmt.Sprintf("Put fails without any fault: %v", res.PutErr)
		}
		if v == "" {
			return nil
		}
		return []kit.V{{Key: fmt.Sprintf("%s scenario=%q fault=%s", violClass(v), c.Scenario, c.Fault), What: v, Case: c}}
	}
	r.MaybeReplay()

	var runs, crashes, fails, shorts, torn, srcs, kills, pairs, flipPairs int64
	boundaries := map[string]int{}
	report := func(s scenario, f fault, v string, res runResult) {
		if v != "" {
			r.Violation(fmt.Sprintf("%s scenario=%q fault=%s", violClass(v), s, f), fmt.Sprintf("%s, %s: %s (operations of the run: %s)", s, f, v, strings.Join(res.Ops, " ")), kase{s, f, res.Ops})
		}
	}
	for _, s := range scenarios(r.Thorough()) {
		if r.Expired() {
			break
		}
		// baseline: no fault; counts the file operations
		v, base := w.one(s, fault{Kind: "none", K2: -1})
		runs++
		report(s, fault{Kind: "none", K2: -1}, v, base)
		if base.PutErr != nil {
			report(s, fault{Kind: "none", K2: -1}, fmt.Sprintf("Put fails without any fault: %v", base.PutErr), base)
			continue
		}
		n := len(base.Ops)
		boundaries[s.String()] = n
		if runs == 1 || s.Size == 40 && s.Start == "S2-overwrite-same-length" {
			r.Sample(map[string]any{"scenario": s.String(), "file_operations_of_Put": base.Ops})
		}
		for k := 0; k <= n; k++ {
			v, res := w.one(s, fault{Kind: "crash", K: k, K2: -1})
			runs++
			crashes++
			report(s, fault{Kind: "crash", K: k, K2: -1}, v, res)
			if k == n {
				break
			}
			v, res = w.one(s, fault{Kind: "fail", K: k, K2: -1})
			runs++
			fails++
			report(s, fault{Kind: "fail", K: k, K2: -1}, v, res)
			if base.Ops[k] == "write" || base.Ops[k] == "writeat" {
				// 3/67/68/132/133/.../174 are the field boundaries of an index entry
				lens := []int{1, 2, 37, s.Size - 2, s.Size / 2, 90, 3, 67, 68, 132, 133, 140, 151, 152, 153, 154, 173, 174}
				if r.Thorough() && s.Size == 40 {
					// every length an index entry (175 bytes) can be cut at
					lens = nil
					for j := 1; j < 176; j++ {
						lens = append(lens, j)
					}
				}
				for _, j := range lens {
					if j <= 0 {
						continue
					}
					v, res := w.one(s, fault{Kind: "short", K: k, J: j, K2: -1})
					runs++
					shorts++
					report(s, fault{Kind: "short", K: k, J: j, K2: -1}, v, res)
					v, res = w.one(s, fault{Kind: "torn", K: k, J: j, K2: -1})
					runs++
					torn++
					report(s, fault{Kind: "torn", K: k, J: j, K2: -1}, v, res)
				}
			}
			// pairs: the failing operation and a later clean-up operation both fail
			if r.Thorough() || s.Size == 40 {
				for k2 := k + 1; k2 < n+3; k2++ {
					v, res := w.one(s, fault{Kind: "fail", K: k, K2: k2})
					runs++
					pairs++
					report(s, fault{Kind: "fail", K: k, K2: k2}, v, res)
				}
			}
			if r.Thorough() || (s.Size == 40 || s.Size == 1) {
				v, res := w.one(s, fault{Kind: "kill", K: k, K2: -1})
				runs++
				kills++
				report(s, fault{Kind: "kill", K: k, K2: -1}, v, res)
			}
		}
		// source faults at every read offset, both passes
		offs := []int{}
		for o := 0; o <= s.Size; o++ {
			if s.Size > 100 && o > 3 && o < s.Size-3 && o != 32768 && o != 32767 && o != 32769 && o != s.Size/2 {
				continue
			}
			offs = append(offs, o)
		}
		for _, o := range offs {
			for pass := 1; pass <= 2; pass++ {
				for _, kind := range []string{"src-error", "src-eof", "src-flip"} {
					if kind == "src-flip" && (o >= s.Size || pass == 1) {
						continue
					}
					f := fault{Kind: kind, K: o, J: pass, K2: -1}
					v, res := w.one(s, f)
					runs++
					srcs++
					report(s, f, v, res)
				}
			}
		}
		// the source changes between the passes AND the process stops at, or fails,
		// one of the file operations that follow (the clean-up after the mismatch
		// was noticed is itself made of file operations)
		if s.Size > 0 && s.Size <= 4096 {
			for _, o := range []int{0, s.Size - 1} {
				_, fr := w.one(s, fault{Kind: "src-flip", K: o, J: 2, K2: -1})
				for k2 := 0; k2 <= len(fr.Ops); k2++ {
					for _, kind := range []string{"flip+crash", "flip+fail"} {
						f := fault{Kind: kind, K: o, J: 2, K2: k2}
						v, res := w.one(s, f)
						runs++
						flipPairs++
						report(s, f, v, res)
					}
				}
			}
		}
		for sk := 1; sk <= 2; sk++ {
			f := fault{Kind: "seek-fail", K: sk, K2: -1}
			v, res := w.one(s, f)
			runs++
			srcs++
			report(s, f, v, res)
		}
	}
	var bl []string
	for s, n := range boundaries {
		bl = append(bl, fmt.Sprintf("%s: %d file operations", s, n))
	}
	r.Set("evaluations", runs)
	r.Set("distinct_nontrivial", runs-int64(len(boundaries)))
	r.Set("rule", "one run per (scenario, fault): scenarios = start state x content size; faults = crash before each file operation of Put (and after the last), each operation failing, each write short at several lengths, the process dying inside each write after several lengths, pairs of failures (failing operation + a later clean-up operation), the source failing / ending early at every read offset of either pass or changing between passes (alone, and together with a stop at or a failure of each later file operation, for sizes up to 4096), Seek failing, and a real SIGKILL of a child process at each boundary. non-trivial = runs with a fault (all distinct by construction)")
	r.Set("crash_points", crashes)
	r.Set("failed_operations", fails)
	r.Set("short_writes", shorts)
	r.Set("process_death_inside_a_write", torn)
	r.Set("failure_pairs", pairs)
	r.Set("changed_source_plus_stop_or_failure", flipPairs)
	r.Set("source_faults", srcs)
	r.Set("real_sigkill_runs", kills)
	r.Set("scenarios", len(boundaries))
	r.Set("exhaustive", !r.Capped())
	r.Assume("file operations are the atomic steps (the vos shim sees every os call of cache.go, regenerated from the live source); a crash inside one write(2) is approximated by short writes")
	r.Assume("a state where an index entry exists but its output file was trimmed is an undamaged cache (Trim produces it)")
	r.Finish()
}
