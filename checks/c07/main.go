// C07 — lockedfile contents change atomically: Read / Write / Transform linearize;
// a failing Transform leaves the old contents (DESIGN.md §6 C07). Engine S (all
// schedules of 2-3 callers at file-operation granularity, history checked for
// linearizability with porcupine and a brute-force second opinion) + engine F
// (every single fault at every file operation of Transform).
package main

import (
	"bytes"
	"encoding/json"
	"errors"
	"flag"
	"fmt"
	"os"
	"path/filepath"
	"sort"
	"strings"
	"syscall"

	"github.com/anishathalye/porcupine"
	"github.com/rogpeppe/go-internal/lockedfile"

	"verif/fsched"
	"verif/kit"
	"verif/pmode"
	"verif/sched"
	"verif/virt/vos"
	"verif/virt/vsync"
)

const absent = "\x00<absent>"

type op struct {
	Kind string `json:"kind"` // read | write | append | shrink
	Arg  string `json:"arg"`
}

func (o op) String() string {
	if o.Arg != "" {
		return o.Kind + "(" + o.Arg + ")"
	}
	return o.Kind
}

type scenario struct {
	Name    string `json:"name"`
	Init    string `json:"init"` // initial contents, or absent
	Threads [][]op `json:"threads"`
	Bound   int    `json:"bound"`
}

func (s scenario) String() string {
	var ts []string
	for _, t := range s.Threads {
		var os []string
		for _, o := range t {
			os = append(os, o.String())
		}
		ts = append(ts, strings.Join(os, ";"))
	}
	b := "all schedules"
	if s.Bound >= 0 {
		b = fmt.Sprintf("preemptions<=%d", s.Bound)
	}
	init := fmt.Sprintf("%q", s.Init)
	if s.Init == absent {
		init = "absent"
	}
	return fmt.Sprintf("%s init=%s [%s] %s", s.Name, init, strings.Join(ts, " || "), b)
}

type event struct {
	Thread int
	Op     op
	Call   int64
	Ret    int64
	Out    string // read: contents returned (or "ERR:..."); transform: old contents seen
	Err    string
	Done   bool
}

type instance struct {
	sc    scenario
	dir   string
	clock int64
	hist  []*event
	// noFinalRead: judge the calls only (fault part, where the file may be left unreadable on purpose)
	noFinalRead bool
}

const callbackRefuses = "the callback refuses"

func transformFunc(o op, seen *string) func([]byte) ([]byte, error) {
	return func(old []byte) ([]byte, error) {
		*seen = string(old)
		switch o.Kind {
		case "tfail":
			// the function reports an error: the previous contents must remain
			return []byte("never to be seen"), errors.New(callbackRefuses)
		case "append":
			return append(append([]byte(nil), old...), o.Arg...), nil
		default: // shrink
			return append([]byte(nil), old[:len(old)/2]...), nil
		}
	}
}

func (in *instance) body() {
	vsync.ResetNames()
	fsched.EINTROnce = false
	fsched.Install()
	in.clock = 0
	in.hist = nil
	path := filepath.Join(in.dir, "f")
	os.Remove(path)
	if in.sc.Init != absent {
		os.WriteFile(path, []byte(in.sc.Init), 0o666)
	}
	pmode.Gen = 0
	for ti, prog := range in.sc.Threads {
		ti, prog := ti+1, prog
		if in.sc.pmode() {
			// P-mode: the caller is a separate OS process
			sched.Go(fmt.Sprintf("P%d", ti), func() {
				spec, _ := json.Marshal(pchildSpec{in.dir, prog})
				var cur *event
				msg := pmode.Proxy([]string{"-pchild", string(spec)}, func(kind, rest string) {
					switch kind {
					case "I":
						var o op
						json.Unmarshal([]byte(rest), &o)
						in.clock++
						cur = &event{Thread: ti, Op: o, Call: in.clock}
						in.hist = append(in.hist, cur)
					case "R":
						var res struct{ Out, Err string }
						json.Unmarshal([]byte(rest), &res)
						in.clock++
						cur.Out, cur.Err, cur.Ret, cur.Done = res.Out, res.Err, in.clock, true
					}
				})
				if msg != "" {
					in.hist = append(in.hist, &event{Thread: ti, Op: op{Kind: "child"}, Err: msg})
				}
			})
			continue
		}
		sched.Go(fmt.Sprintf("T%d", ti), func() {
			for _, o := range prog {
				in.clock++
				ev := &event{Thread: ti, Op: o, Call: in.clock}
				in.hist = append(in.hist, ev)
				ev.Out, ev.Err = perform(path, o)
				in.clock++
				ev.Ret = in.clock
				ev.Done = true
			}
		})
	}
}

// perform runs one operation on the real lockedfile package.
func perform(path string, o op) (out, errText string) {
	switch o.Kind {
	case "read":
		data, err := lockedfile.Read(path)
		if err != nil {
			if errors.Is(err, os.ErrNotExist) {
				return absent, err.Error()
			}
			return "ERR:" + err.Error(), err.Error()
		}
		return string(data), ""
	case "write":
		if err := lockedfile.Write(path, strings.NewReader(o.Arg), 0o666); err != nil {
			return "", err.Error()
		}
		return "", ""
	default:
		if err := lockedfile.Transform(path, transformFunc(o, &out)); err != nil {
			return out, err.Error()
		}
		return out, ""
	}
}

const pmodeTag = " [one process per caller]"

func (s scenario) pmode() bool { return strings.HasSuffix(s.Name, pmodeTag) }

type pchildSpec struct {
	Dir  string `json:"dir"`
	Prog []op   `json:"prog"`
}

func pchildMain(spec pchildSpec) {
	r := pmode.Child()
	path := filepath.Join(spec.Dir, "f")
	for _, o := range spec.Prog {
		js, _ := json.Marshal(o)
		r.Send("I %s", js)
		out, errText := perform(path, o)
		res, _ := json.Marshal(struct{ Out, Err string }{out, errText})
		r.Send("R %s", res)
	}
	r.Finish()
}

// ---------- sequential specification ----------

// step applies one operation to the register; ok=false if the recorded output
// is impossible in this state.
var relaxCreation bool

func step(state string, e *event) (bool, string) {
	switch e.Op.Kind {
	case "read":
		if relaxCreation && state == absent && e.Out == "" {
			// relaxed specification used only to classify a violation: while the file
			// has never been written, a reader may find it created but still empty
			return true, state
		}
		return e.Out == state, state
	case "write":
		return true, e.Op.Arg
	default:
		old := state
		if state == absent {
			old = ""
		}
		if e.Out != old {
			return false, state
		}
		if e.Op.Kind == "tfail" {
			// nothing changes (a file that did not exist has been created, empty)
			return true, old
		}
		seen := ""
		nw, _ := transformFunc(e.Op, &seen)([]byte(old))
		return true, string(nw)
	}
}

func linearizablePorcupine(init string, hist []*event) bool {
	model := porcupine.Model{
		Init: func() interface{} { return init },
		Step: func(state, input, output interface{}) (bool, interface{}) {
			ok, ns := step(state.(string), input.(*event))
			return ok, ns
		},
		Equal: func(a, b interface{}) bool { return a.(string) == b.(string) },
	}
	var ops []porcupine.Operation
	for _, e := range hist {
		ops = append(ops, porcupine.Operation{ClientId: e.Thread, Input: e, Call: e.Call, Output: e, Return: e.Ret})
	}
	return porcupine.CheckOperations(model, ops)
}

// linearizableBrute tries every order consistent with real time.
func linearizableBrute(init string, hist []*event) bool {
	n := len(hist)
	used := make([]bool, n)
	var rec func(state string, done int) bool
	rec = func(state string, done int) bool {
		if done == n {
			return true
		}
		for i, e := range hist {
			if used[i] {
				continue
			}
			// e may come next only if no unused operation returned before e was called
			okOrder := true
			for j, f := range hist {
				if !used[j] && j != i && f.Ret < e.Call {
					okOrder = false
				}
			}
			if !okOrder {
				continue
			}
			if ok, ns := step(state, e); ok {
				used[i] = true
				if rec(ns, done+1) {
					return true
				}
				used[i] = false
			}
		}
		return false
	}
	return rec(init, 0)
}

func histString(h []*event) string {
	var parts []string
	for _, e := range h {
		out := e.Out
		if out == absent {
			out = "<not-exist>"
		}
		parts = append(parts, fmt.Sprintf("T%d %s [%d,%d] -> %q", e.Thread, e.Op, e.Call, e.Ret, out))
	}
	return strings.Join(parts, "; ")
}

func judge(in *instance, e *sched.Exec) (string, string) {
	switch {
	case e.PanicVal != nil:
		return "panic", fmt.Sprintf("panic: %v\n%s", e.PanicVal, e.PanicStack)
	case e.Deadlock:
		return "deadlock", "deadlock: " + e.DeadlockAt
	case e.Livelock:
		return "livelock", e.LivelockWhy()
	}
	for _, ev := range in.hist {
		if ev.Op.Kind == "child" {
			return "child-process", ev.Err
		}
		if !ev.Done {
			return "call-did-not-return", fmt.Sprintf("T%d %s did not return", ev.Thread, ev.Op)
		}
		if ev.Op.Kind == "tfail" {
			if !strings.Contains(ev.Err, callbackRefuses) {
				return "error-not-reported", fmt.Sprintf("T%d Transform with a function that reports an error returned %q", ev.Thread, ev.Err)
			}
			continue
		}
		if ev.Err != "" && !(ev.Op.Kind == "read" && ev.Out == absent) {
			return "unexpected-error", fmt.Sprintf("T%d %s failed: %s", ev.Thread, ev.Op, ev.Err)
		}
	}
	// what the file holds when everybody has returned is part of the history: a
	// final Read after all calls
	hist := in.hist
	if !in.noFinalRead {
		fin := &event{Thread: 0, Op: op{"read", ""}, Call: in.clock + 1, Ret: in.clock + 2, Done: true}
		fin.Out, fin.Err = perform(filepath.Join(in.dir, "f"), fin.Op)
		if fin.Err != "" && fin.Out != absent {
			return "unexpected-error", "the Read after all calls returned fails: " + fin.Err
		}
		hist = append(append([]*event(nil), in.hist...), fin)
	}
	in = &instance{sc: in.sc, dir: in.dir, clock: in.clock, hist: hist}
	p := linearizablePorcupine(in.sc.Init, in.hist)
	b := linearizableBrute(in.sc.Init, in.hist)
	if p != b {
		kit.Harness("porcupine (%v) and the brute-force checker (%v) disagree on history %s", p, b, histString(in.hist))
	}
	if !p {
		class := "not-linearizable"
		if in.sc.Init == absent {
			// Is the only thing wrong that a Read saw the file created by a first
			// writer but not yet written (create-then-lock window)?
			relaxCreation = true
			if linearizableBrute(in.sc.Init, in.hist) {
				class = "creation-window"
			}
			relaxCreation = false
		}
		return class, "history is not linearizable: " + histString(in.hist)
	}
	return "", ""
}

var dirSeq int

func freshDir(root string) string {
	dirSeq++
	d := filepath.Join(root, fmt.Sprintf("d%d-%d", os.Getpid(), dirSeq))
	os.MkdirAll(d, 0o777)
	return d
}

func runOnce(root string, sc scenario, choices []int, trace bool) (*instance, *sched.Exec) {
	in := &instance{sc: sc, dir: freshDir(root)}
	e := sched.Run(in.body, sched.Options{Prefix: choices, Trace: trace, Horizon: 3000})
	vos.Reset()
	return in, e
}

type kase struct {
	Kind     string   `json:"kind"` // schedule | fault
	Scenario scenario `json:"scenario,omitempty"`
	Choices  []int    `json:"choices,omitempty"`
	Trace    []string `json:"trace,omitempty"`
	Fault    *fcase   `json:"fault,omitempty"`
}

type shardResult struct {
	Executions int64    `json:"executions"`
	Steps      int64    `json:"steps"`
	MaxDepth   int      `json:"max_depth"`
	Capped     bool     `json:"capped"`
	Outcomes   []string `json:"outcomes"`
	Violations []kit.V  `json:"violations"`
	Sample     []int    `json:"sample"`
	ReplayOK   bool     `json:"replay_ok"`
	ReplayDiff string   `json:"replay_diff,omitempty"`
}

func vkey(class string, sc scenario) string {
	if class == "creation-window" {
		// identified by the scenario family, not by one schedule
		return "creation-window scenario=" + strings.TrimSuffix(sc.Name, pmodeTag)
	}
	return fmt.Sprintf("%s scenario=%q", class, sc.String())
}

func explore(r *kit.Run, root string, sc scenario) shardResult {
	var res shardResult
	in := &instance{sc: sc, dir: freshDir(root)}
	outcomes := map[string]bool{}
	seenCreation := false
	x := &sched.Explorer{Body: func() { in.body() }, Bound: sc.Bound, Horizon: 3000, Stop: r.Expired}
	x.Check = func(e *sched.Exec) bool {
		vos.Reset()
		res.Steps += int64(e.Steps)
		class, what := judge(in, e)
		if class == "creation-window" && seenCreation {
			return true
		}
		if class != "" {
			_, te := runOnce(root, sc, e.Choices, true)
			res.Violations = append(res.Violations, kit.V{
				Key:  vkey(class, sc),
				What: fmt.Sprintf("%s: %s\nschedule: %s", sc, what, strings.Join(te.Trace, " | ")),
				Case: kase{Kind: "schedule", Scenario: sc, Choices: e.Choices, Trace: te.Trace},
			})
			// the create-then-lock window is a recorded finding: keep exploring the
			// scenario so that any other violation in it is still found
			if class == "creation-window" && !e.Deadlock && e.PanicVal == nil {
				seenCreation = true
				return true
			}
			return false
		}
		var outs []string
		for _, ev := range in.hist {
			outs = append(outs, ev.Out)
		}
		outcomes[strings.Join(outs, "|")] = true
		if res.Sample == nil && len(e.Choices) > 3 {
			res.Sample = append([]int(nil), e.Choices...)
		}
		return true
	}
	// the same schedule twice must give the same trace; a mismatch is tried again
	// (up to three times) before the scenario is called nondeterministic, and the
	// two traces are reported
	for attempt := 0; attempt < 3 && !res.ReplayOK; attempt++ {
		_, e1 := runOnce(root, sc, nil, true)
		_, e2 := runOnce(root, sc, e1.Choices, true)
		res.ReplayOK = e1.NoYield != "" || strings.Join(e1.Trace, "|") == strings.Join(e2.Trace, "|")
		if !res.ReplayOK {
			res.ReplayDiff = fmt.Sprintf("attempt %d\nfirst run:  %s\nsecond run: %s", attempt+1, strings.Join(e1.Trace, " | "), strings.Join(e2.Trace, " | "))
		}
	}
	x.Run()
	res.Executions, res.MaxDepth, res.Capped = x.Executions, x.MaxDepth, x.Capped
	for o := range outcomes {
		res.Outcomes = append(res.Outcomes, o)
	}
	return res
}

func scenarios(th bool) []scenario {
	rd := op{"read", ""}
	wA, wB := op{"write", "A"}, op{"write", "BBBBBB"}
	a1, a2 := op{"append", "+t1"}, op{"append", "+t2"}
	sh := op{"shrink", ""}
	tf := op{"tfail", ""}
	b3, b22 := 3, 4
	if th {
		b3, b22 = 4, -1
	}
	scs := []scenario{
		{"R||W(short)", "v0v0", [][]op{{rd}, {wA}}, -1},
		{"R||W(long)", "v0v0", [][]op{{rd}, {wB}}, -1},
		{"W||W", "v0v0", [][]op{{wA}, {wB}}, -1},
		{"R||append", "v0v0", [][]op{{rd}, {a1}}, -1},
		{"append||append", "v0v0", [][]op{{a1}, {a2}}, -1},
		{"shrink||R", "v0v0", [][]op{{sh}, {rd}}, -1},
		{"shrink||append", "v0v0", [][]op{{sh}, {a1}}, -1},
		{"W;R||W;R", "v0v0", [][]op{{wA, rd}, {wB, rd}}, b22},
		{"R;R||W", "v0v0", [][]op{{rd, rd}, {wA}}, -1},
		{"append;R||shrink", "v0v0", [][]op{{a1, rd}, {sh}}, b22},
		{"W||W||R", "v0v0", [][]op{{wA}, {wB}, {rd}}, b3},
		{"append||W||R", "v0v0", [][]op{{a1}, {wA}, {rd}}, b3},
		{"append||append||R", "v0v0", [][]op{{a1}, {a2}, {rd}}, b3},
		{"shrink||append||R", "v0v0", [][]op{{sh}, {a1}, {rd}}, b3},
		{"empty-init R||W", "", [][]op{{rd}, {wA}}, -1},
		{"creation W||R", absent, [][]op{{wA}, {rd}}, -1},
		{"creation append||R", absent, [][]op{{a1}, {rd}}, -1},
		{"creation append||append", absent, [][]op{{a1}, {a2}}, -1},
		{"creation W||W", absent, [][]op{{wA}, {wB}}, -1},
		// a Transform whose function reports an error changes nothing -- also not
		// for the callers queued behind it
		{"tfail||W", "v0v0", [][]op{{tf}, {wA}}, -1},
		{"tfail||append", "v0v0", [][]op{{tf}, {a1}}, -1},
		{"tfail||append||R", "v0v0", [][]op{{tf}, {a1}, {rd}}, b3},
		{"creation tfail||W", absent, [][]op{{tf}, {wA}}, -1},
		{"creation tfail||append", absent, [][]op{{tf}, {a1}}, -1},
		{"creation tfail||W||W", absent, [][]op{{tf}, {wA}, {wB}}, b3},
	}
	pb := 2
	if th {
		pb = -1
	}
	for _, sc := range scs {
		if len(sc.Threads) == 2 && len(sc.Threads[0]) == 1 && len(sc.Threads[1]) == 1 {
			if !th && (sc.Init == absent || strings.HasPrefix(sc.Name, "empty") || strings.HasPrefix(sc.Name, "shrink||append")) {
				continue
			}
			scs = append(scs, scenario{sc.Name + pmodeTag, sc.Init, sc.Threads, pb})
		}
	}
	if th {
		scs = append(scs,
			scenario{"append;append||append;R", "v0v0", [][]op{{a1, a2}, {op{"append", "+t3"}, rd}}, 4},
			scenario{"W;shrink||R;R", "v0v0", [][]op{{wB, sh}, {rd, rd}}, -1},
			scenario{"W||append||shrink||R", "v0v0", [][]op{{wA}, {a1}, {sh}, {rd}}, 2},
		)
	}
	return scs
}

// ---------- fault part ----------

type fcase struct {
	OldLen int    `json:"old_len"`
	NewLen int    `json:"new_len"`
	TErr   bool   `json:"t_err"`
	Kind   string `json:"kind"` // none | fail | short
	K      int    `json:"k"`
	J      int    `json:"j"`
}

func (f fcase) String() string {
	s := fmt.Sprintf("|old|=%d |new|=%d", f.OldLen, f.NewLen)
	if f.TErr {
		s += " t-returns-error"
	}
	switch f.Kind {
	case "fail":
		s += fmt.Sprintf(" fail@%d", f.K)
	case "short":
		s += fmt.Sprintf(" short@%d,%d", f.K, f.J)
	}
	return s
}

func pattern(tag byte, n int) []byte {
	b := make([]byte, n)
	for i := range b {
		b[i] = tag + byte(i%9)
	}
	return b
}

// runFault performs one Transform under the fault and returns the violation
// (or "") and the list of file operations seen.
func runFault(root string, f fcase) (string, []string) {
	dir := freshDir(root)
	path := filepath.Join(dir, "f")
	old, nw := pattern('a', f.OldLen), pattern('N', f.NewLen)
	os.WriteFile(path, old, 0o666)
	vos.Reset()
	var ops []string
	n := 0
	vos.Hook = func(op *vos.Op) vos.Verdict {
		k := n
		n++
		ops = append(ops, op.Kind)
		if k == f.K {
			switch f.Kind {
			case "fail":
				return vos.Verdict{Fail: &os.PathError{Op: op.Kind, Path: op.Path, Err: syscall.EIO}}
			case "short":
				return vos.Verdict{Short: f.J}
			}
		}
		return vos.Verdict{}
	}
	var terr = errors.New("t failed")
	var err error
	pan := func() (p any) {
		defer func() { p = recover() }()
		err = lockedfile.Transform(path, func(o []byte) ([]byte, error) {
			if !bytes.Equal(o, old) {
				return nil, fmt.Errorf("t received %q, want %q", o, old)
			}
			if f.TErr {
				return nil, terr
			}
			return nw, nil
		})
		return nil
	}()
	vos.Reset()
	if pan != nil {
		return fmt.Sprintf("Transform panics: %v", pan), ops
	}
	got, rerr := os.ReadFile(path)
	if rerr != nil {
		return fmt.Sprintf("file unreadable after Transform: %v", rerr), ops
	}
	if err != nil {
		if !bytes.Equal(got, old) {
			return fmt.Sprintf("Transform returned %v but the file holds %q instead of the previous contents %q", err, got, old), ops
		}
		return "", ops
	}
	if f.TErr {
		return "Transform returned nil although t returned an error", ops
	}
	if !bytes.Equal(got, nw) {
		return fmt.Sprintf("Transform returned nil but the file holds %q, want %q", got, nw), ops
	}
	return "", ops
}

var pchildFlag = flag.String("pchild", "", "internal: run one caller as a P-mode child process")

func main() {
	r := kit.Start("C07", "model_checking")
	if *pchildFlag != "" {
		var spec pchildSpec
		if err := json.Unmarshal([]byte(*pchildFlag), &spec); err != nil {
			os.Exit(8)
		}
		pchildMain(spec)
		return
	}
	root, err := os.MkdirTemp(os.Getenv("VERIF_SCRATCH"), "c07")
	if err != nil {
		kit.Harness("mkdtemp: %v", err)
	}
	defer func() {
		if !kit.IsWorker() {
			os.RemoveAll(root)
		}
	}()
	r.Replayer = func(raw json.RawMessage) []kit.V {
		var c kase
		if err := json.Unmarshal(raw, &c); err != nil {
			kit.Harness("bad case: %v", err)
		}
		if c.Kind == "fault" {
			v, _ := runFault(root, *c.Fault)
			if v == "" {
				return nil
			}
			return []kit.V{{Key: "transform-fault " + c.Fault.String(), What: v, Case: c}}
		}
		in, e := runOnce(root, c.Scenario, c.Choices, true)
		class, what := judge(in, e)
		if class == "" {
			return nil
		}
		return []kit.V{{Key: vkey(class, c.Scenario), What: what + "\nschedule: " + strings.Join(e.Trace, " | "), Case: c}}
	}
	r.MaybeReplay()

	scs := scenarios(r.Thorough())
	var tot shardResult
	var per []string
	var pmodeExecs int64
	outcomeTotal := 0
	r.JobName = func(j int) string { return fmt.Sprintf("scenario %v", scs[j]) }
	r.Sharded(len(scs), func(job int) any { return explore(r, root, scs[job]) }, func(job int, raw json.RawMessage) {
		var sr shardResult
		if err := json.Unmarshal(raw, &sr); err != nil {
			kit.Harness("shard result: %v", err)
		}
		if !sr.ReplayOK {
			kit.Harness("nondeterministic replay in scenario %s\n%s", scs[job], sr.ReplayDiff)
		}
		tot.Executions += sr.Executions
		if scs[job].pmode() {
			pmodeExecs += sr.Executions
		}
		tot.Steps += sr.Steps
		tot.Capped = tot.Capped || sr.Capped
		if sr.MaxDepth > tot.MaxDepth {
			tot.MaxDepth = sr.MaxDepth
		}
		outcomeTotal += len(sr.Outcomes)
		for _, v := range sr.Violations {
			r.Violation(v.Key, v.What, v.Case)
		}
		per = append(per, fmt.Sprintf("%s: executions=%d distinct-outcomes=%d", scs[job], sr.Executions, len(sr.Outcomes)))
		if sr.Sample != nil && job%4 == 0 {
			r.Sample(map[string]any{"scenario": scs[job].String(), "choices": sr.Sample})
		}
	})
	if kit.IsWorker() {
		os.RemoveAll(root)
		return
	}
	sort.Strings(per)

	// fault part
	var faults int64
	lens := []int{0, 1, 3, 8}
	for _, ol := range lens {
		for _, nl := range lens {
			for _, terr := range []bool{false, true} {
				base := fcase{OldLen: ol, NewLen: nl, TErr: terr, Kind: "none", K: -1}
				v, ops := runFault(root, base)
				faults++
				if v != "" {
					r.Violation("transform-fault "+base.String(), v, kase{Kind: "fault", Fault: &base})
				}
				if ol == 3 && nl == 8 && !terr {
					r.Sample(map[string]any{"transform_file_operations": ops, "case": base.String()})
				}
				for k := range ops {
					fc := base
					fc.Kind, fc.K = "fail", k
					v, _ := runFault(root, fc)
					faults++
					if v != "" {
						r.Violation("transform-fault "+fc.String(), fmt.Sprintf("%s (operations: %s): %s", fc, strings.Join(ops, " "), v), kase{Kind: "fault", Fault: &fc})
					}
					if ops[k] == "writeat" || ops[k] == "write" {
						for _, j := range []int{1, 2, 4, 7} {
							fc := base
							fc.Kind, fc.K, fc.J = "short", k, j
							v, _ := runFault(root, fc)
							faults++
							if v != "" {
								r.Violation("transform-fault "+fc.String(), fmt.Sprintf("%s (operations: %s): %s", fc, strings.Join(ops, " "), v), kase{Kind: "fault", Fault: &fc})
							}
						}
					}
				}
			}
		}
	}

	r.Set("states", tot.Steps)
	r.Set("transitions", tot.Steps)
	r.Set("traces_validated_against_impl", tot.Executions+faults)
	r.Set("executions", tot.Executions)
	r.Set("fault_runs", faults)
	r.Set("executions_with_one_os_process_per_caller", pmodeExecs)
	r.Set("scenarios", per)
	r.Set("distinct_outcomes_summed", outcomeTotal)
	r.Set("max_decisions_in_one_execution", tot.MaxDepth)
	r.Set("exhaustive", !tot.Capped && !r.Capped())
	r.Set("explanation", "schedule part: every schedule (2 callers) or every schedule within the preemption bound (3 callers, and 2 callers with two calls each) of Read/Write/Transform at the granularity of open/flock/read/write/truncate/unlock/close on the real code and kernel; each complete history is checked for linearizability against an atomic register with read-modify-write by porcupine and by brute force (they must agree). states = scheduling steps visited (stateless search). fault part: Transform for |old|,|new| in {0,1,3,8}^2, t succeeding or failing, with each file operation failing and each write short (4 lengths), one fault per run")
	r.Assume("in most scenarios threads with private descriptors stand for processes (flock is per open file description); the scenarios tagged [one process per caller] re-explore the two-caller cases with every caller in its own OS process driven over pipes by the same scheduler")
	r.Finish()
}
