package main

// An independent reference interpreter for testscript scripts, written from
// testscript/doc.go and the statement of C01. It shares no code with the package
// under test. Where the documentation is silent or a prediction would depend on
// timing, umask or partial effects, it answers "unspecified" and the script is
// counted, not compared.

import (
	"fmt"
	"os"
	"path"
	"regexp"
	"sort"
	"strconv"
	"strings"
)

type node struct {
	kind   byte // 'f' file, 'd' directory, 'l' symlink
	data   string
	ro     int // 1 read-only (no write bits), 0 writable, -1 unknown
	target string
}

type bgProc struct {
	name   string
	prog   string
	args   []string
	neg    bool
	status int // predicted exit status once it has ended (-1: died from a signal)
	out    string
	err    string
	waits  bool // blocks until signalled (hpid)
	sig    string
}

type config struct {
	ContinueOnError     bool `json:"continue_on_error"`
	RequireExplicitExec bool `json:"require_explicit_exec"`
	NoCondition         bool `json:"no_condition"` // Params.Condition nil
	NoCmds              bool `json:"no_cmds"`      // Params.Cmds nil
	Panic               bool `json:"panic_style_t"`
	Verbose             bool `json:"verbose"`
	// RequireUniqueNames: Params.RequireUniqueNames (only used by scripts with
	// hand-stated expectations; the reference interpreter's archive has unique names)
	RequireUniqueNames bool `json:"require_unique_names,omitempty"`
}

type refState struct {
	cfg     config
	tree    map[string]*node
	cwd     string
	env     map[string]string
	stdout  string
	stderr  string
	stdin   string
	bg      []*bgProc
	effects []string // probe log: "ok@3"
}

type outcome int

const (
	lineOK outcome = iota
	lineFail
	lineStop
	lineSkip
	lineUnspec
)

func newRefState(cfg config, files [][2]string) *refState {
	s := &refState{cfg: cfg, tree: map[string]*node{".": {kind: 'd'}}, cwd: ".", env: map[string]string{}}
	for _, f := range files {
		s.mkParents(f[0])
		s.tree[f[0]] = &node{kind: 'f', data: f[1], ro: 0}
	}
	return s
}

func (s *refState) mkParents(p string) {
	for d := path.Dir(p); d != "." && d != "/"; d = path.Dir(d) {
		if _, ok := s.tree[d]; !ok {
			s.tree[d] = &node{kind: 'd'}
		}
	}
}

// resolve maps a script path to a key of the tree ("" = outside $WORK / not modelled).
func (s *refState) resolve(p string) string {
	if strings.HasPrefix(p, "/") || strings.Contains(p, "$") {
		return ""
	}
	c := path.Clean(path.Join(s.cwd, p))
	if c == ".." || strings.HasPrefix(c, "../") {
		return ""
	}
	// symlinks in the middle of a path are not modelled
	for d := path.Dir(c); d != "." && d != "/"; d = path.Dir(d) {
		if n, ok := s.tree[d]; ok && n.kind == 'l' {
			return ""
		}
	}
	return c
}

// follow returns the node a path leads to, following a final symlink once.
func (s *refState) stat(key string) *node {
	n := s.tree[key]
	if n != nil && n.kind == 'l' {
		t := s.resolveFrom(path.Dir(key), n.target)
		if t == "" {
			return &node{kind: '?'}
		}
		return s.tree[t]
	}
	return n
}

func (s *refState) resolveFrom(dir, p string) string {
	if strings.HasPrefix(p, "/") {
		return ""
	}
	c := path.Clean(path.Join(dir, p))
	if c == ".." || strings.HasPrefix(c, "../") {
		return ""
	}
	return c
}

func (s *refState) parentIsDir(key string) bool {
	n := s.tree[path.Dir(key)]
	return n != nil && n.kind == 'd'
}

func (s *refState) readText(name string) (string, outcome) {
	switch name {
	case "stdout":
		return s.stdout, lineOK
	case "stderr":
		return s.stderr, lineOK
	}
	k := s.resolve(name)
	if k == "" {
		return "", lineUnspec
	}
	n := s.stat(k)
	if n == nil {
		return "", lineFail
	}
	if n.kind == '?' {
		return "", lineUnspec
	}
	if n.kind != 'f' {
		return "", lineFail // reading a directory fails
	}
	return n.data, lineOK
}

func (s *refState) removeTree(key string) {
	for k := range s.tree {
		if k == key || strings.HasPrefix(k, key+"/") {
			delete(s.tree, k)
		}
	}
}

// condition evaluates one [cond]; ok=false means the line fails.
func (s *refState) condition(c string) (val bool, out outcome) {
	switch {
	case c == "linux" || c == "unix" || c == "amd64" || c == "gc":
		return true, lineOK
	case c == "windows" || c == "darwin" || c == "arm" || c == "gccgo" || c == "plan9":
		return false, lineOK
	case c == "go1.1" || c == "go1.20":
		return true, lineOK
	case c == "go1.999":
		return false, lineOK
	case c == "exec:hexit":
		return true, lineOK
	case c == "exec:nosuchprog":
		return false, lineOK
	case c == "short" || c == "net" || c == "link" || c == "symlink":
		return false, lineUnspec
	}
	if s.cfg.NoCondition {
		return false, lineFail // unknown condition
	}
	switch c {
	case "always":
		return true, lineOK
	case "never":
		return false, lineOK
	}
	return false, lineFail // the harness's Condition reports an error for anything else (conderr, nocond)
}

// helper programs of the harness
func (s *refState) runHelper(prog string, args []string, background bool) (start bool, p *bgProc, out outcome) {
	p = &bgProc{prog: prog, args: args}
	switch prog {
	case "hexit":
		n := 0
		if len(args) > 0 {
			n, _ = strconv.Atoi(args[0])
		}
		p.status = n
	case "hecho":
		if len(args) > 0 {
			p.out = args[0]
		}
		if len(args) > 1 {
			p.err = args[1]
		}
	case "hcat":
		p.out = s.stdin
	case "htouch":
		if len(args) != 1 {
			return false, nil, lineUnspec
		}
		k := s.resolve(args[0])
		if k == "" || !s.parentIsDir(k) {
			return false, nil, lineUnspec
		}
		if n := s.tree[k]; n != nil && n.kind != 'f' {
			return false, nil, lineUnspec
		}
		s.tree[k] = &node{kind: 'f', data: "touched\n", ro: -1}
	case "hpid":
		if !background || len(args) < 1 {
			return false, nil, lineUnspec
		}
		k := s.resolve(args[0])
		if k == "" || !s.parentIsDir(k) {
			return false, nil, lineUnspec
		}
		p.waits = true
		if len(args) > 1 {
			p.status, _ = strconv.Atoi(args[1])
		}
		s.tree[k] = &node{kind: 'f', data: "?", ro: -1} // the pid file (content not predicted)
	case "nosuchprog":
		return false, nil, lineOK
	default:
		return false, nil, lineUnspec
	}
	return true, p, lineOK
}

// endBackground: what happens to still-waiting processes when they are
// interrupted (SIGINT): hpid exits with its configured status and leaves a
// marker file next to its pid file.
func (s *refState) interrupt(p *bgProc, sig string) {
	if !p.waits {
		return // already ended by itself; the signal goes nowhere (or to a zombie)
	}
	p.waits = false
	if sig == "KILL" {
		p.status = -1
		return
	}
	// hpid writes FILE.sig on SIGINT
	k := s.resolveFromBG(p)
	if k != "" {
		s.tree[k+".sig"] = &node{kind: 'f', data: "?", ro: -1}
	}
}

func (s *refState) resolveFromBG(p *bgProc) string {
	// pid files are always given relative to the cwd at start, which the generator keeps at $WORK
	if len(p.args) == 0 {
		return ""
	}
	return path.Clean(p.args[0])
}

func satisfied(neg bool, success bool) bool { return success != neg }

// waitAll models `wait` without a name (and skip): statuses checked in order.
func (s *refState) waitAll() outcome {
	var outs, errs []string
	for _, p := range s.bg {
		if p.waits {
			return lineUnspec // would block forever; not generated
		}
		outs = append(outs, p.out)
		errs = append(errs, p.err)
		if !satisfied(p.neg, p.status == 0) {
			return lineFail
		}
	}
	s.stdout, s.stderr = strings.Join(outs, ""), strings.Join(errs, "")
	s.bg = nil
	return lineOK
}

// step interprets one script line (already split into words by the generator's
// own quoting-free convention: words are separated by single blanks and contain
// no quotes, $ or #, except where noted).
func (s *refState) step(lineno int, words []string) outcome {
	if len(words) == 0 {
		return lineOK
	}
	// condition prefixes
	for len(words) > 0 && strings.HasPrefix(words[0], "[") && strings.HasSuffix(words[0], "]") {
		c := strings.TrimSpace(words[0][1 : len(words[0])-1])
		words = words[1:]
		if len(words) == 0 {
			return lineFail // missing command after condition
		}
		want := true
		if strings.HasPrefix(c, "!") {
			want = false
			c = strings.TrimSpace(c[1:])
		}
		v, out := s.condition(c)
		if out != lineOK {
			return out
		}
		if v != want {
			return lineOK // line skipped
		}
	}
	neg := false
	if words[0] == "!" {
		neg = true
		words = words[1:]
		if len(words) == 0 {
			return lineFail
		}
	}
	cmd, args := words[0], words[1:]
	noNeg := func() bool { return neg } // commands that do not support "!"
	switch cmd {
	case "ok", "bad":
		if s.cfg.NoCmds {
			return lineFail // unknown command
		}
		s.effects = append(s.effects, fmt.Sprintf("%s@%d", cmd, lineno))
		success := cmd == "ok"
		if !satisfied(neg, success) {
			return lineFail
		}
		return lineOK
	case "waitfile":
		if s.cfg.NoCmds {
			return lineFail
		}
		return lineOK
	case "stop":
		if neg || len(args) > 1 {
			return lineFail
		}
		return lineStop
	case "skip":
		if len(args) > 1 || neg {
			return lineFail
		}
		for _, p := range s.bg {
			if !p.waits {
				// a self-terminating background program is interrupted at once: whether
				// the signal or its own exit comes first is a race
				return lineUnspec
			}
			s.interrupt(p, "INT")
		}
		if out := s.waitAll(); out != lineOK {
			return out
		}
		return lineSkip
	case "cd":
		if noNeg() || len(args) != 1 {
			return lineFail
		}
		k := s.resolve(args[0])
		if k == "" {
			return lineUnspec
		}
		n := s.stat(k)
		if n == nil || n.kind != 'd' {
			if n != nil && n.kind == '?' {
				return lineUnspec
			}
			return lineFail
		}
		s.cwd = k
		return lineOK
	case "chmod":
		if noNeg() || len(args) < 2 {
			return lineFail
		}
		perm, err := strconv.ParseUint(args[0], 8, 32)
		if err != nil || perm > 0o777 {
			return lineFail
		}
		for i, a := range args[1:] {
			k := s.resolve(a)
			if k == "" {
				return lineUnspec
			}
			n := s.stat(k)
			if n == nil {
				if i > 0 {
					return lineUnspec // earlier paths already changed: partial effect
				}
				return lineFail
			}
			if perm&0o222 == 0 {
				n.ro = 1
			} else {
				n.ro = 0
			}
		}
		return lineOK
	case "cmp", "cmpenv":
		if len(args) != 2 {
			return lineFail
		}
		if args[0] == args[1] {
			return lineFail
		}
		t1, o1 := s.readText(args[0])
		if o1 != lineOK {
			return o1
		}
		if args[1] == "stdout" || args[1] == "stderr" {
			return lineUnspec // second operand is always a file name
		}
		t2, o2 := s.readText(args[1])
		if o2 != lineOK {
			return o2
		}
		if cmd == "cmpenv" {
			t2 = os.Expand(t2, func(k string) string { return s.env[k] })
		}
		if !satisfied(neg, t1 == t2) {
			return lineFail
		}
		return lineOK
	case "cp":
		if noNeg() || len(args) < 2 {
			return lineFail
		}
		dk := s.resolve(args[len(args)-1])
		if dk == "" {
			return lineUnspec
		}
		dst := s.stat(dk)
		dstDir := dst != nil && dst.kind == 'd'
		if len(args) > 2 && !dstDir {
			return lineFail
		}
		for i, a := range args[:len(args)-1] {
			var data string
			ro := -1
			base := a
			if a == "stdout" || a == "stderr" {
				data, _ = s.readText(a)
			} else {
				k := s.resolve(a)
				if k == "" {
					return lineUnspec
				}
				n := s.stat(k)
				if n == nil || n.kind != 'f' {
					if i > 0 || (n != nil && n.kind == '?') {
						return lineUnspec
					}
					return lineFail
				}
				data = n.data
				base = path.Base(k)
			}
			tk := dk
			if dstDir {
				tk = path.Join(dk, base)
			}
			if !s.parentIsDir(tk) {
				if i > 0 {
					return lineUnspec
				}
				return lineFail
			}
			if old := s.tree[tk]; old != nil {
				if old.kind != 'f' {
					return lineUnspec
				}
				ro = old.ro // an existing file keeps its mode
				if old.ro == 1 {
					return lineUnspec // writing a read-only file: depends on the user
				}
			}
			s.tree[tk] = &node{kind: 'f', data: data, ro: ro}
		}
		return lineOK
	case "env":
		if noNeg() {
			return lineFail
		}
		for _, a := range args {
			if i := strings.IndexByte(a, '='); i >= 0 {
				s.env[a[:i]] = a[i+1:]
			}
		}
		return lineOK
	case "exists":
		ro := false
		if len(args) > 0 && args[0] == "-readonly" {
			ro = true
			args = args[1:]
		}
		if len(args) == 0 {
			return lineFail
		}
		for _, a := range args {
			k := s.resolve(a)
			if k == "" {
				return lineUnspec
			}
			n := s.stat(k)
			if n != nil && n.kind == '?' {
				return lineUnspec
			}
			if n != nil && neg {
				return lineFail
			}
			if n == nil && !neg {
				return lineFail
			}
			if n != nil && !neg && ro {
				if n.ro == -1 {
					return lineUnspec
				}
				if n.ro == 0 {
					return lineFail
				}
			}
		}
		return lineOK
	case "grep", "stdout", "stderr":
		n := 0
		if len(args) >= 1 && strings.HasPrefix(args[0], "-count=") {
			if neg {
				return lineFail
			}
			var err error
			n, err = strconv.Atoi(args[0][len("-count="):])
			if err != nil || n < 1 {
				return lineFail
			}
			args = args[1:]
		}
		want := 1
		if cmd == "grep" {
			want = 2
		}
		if len(args) != want {
			return lineFail
		}
		re, err := regexp.Compile("(?m)" + args[0])
		if err != nil {
			return lineFail
		}
		text := s.stdout
		if cmd == "stderr" {
			text = s.stderr
		}
		if cmd == "grep" {
			var o outcome
			text, o = s.readText(args[1])
			if args[1] == "stdout" || args[1] == "stderr" {
				return lineUnspec
			}
			if o != lineOK {
				return o
			}
		}
		matches := len(re.FindAllString(text, -1))
		if neg {
			if matches > 0 {
				return lineFail
			}
			return lineOK
		}
		if matches == 0 {
			return lineFail
		}
		if n > 0 && matches != n {
			return lineFail
		}
		return lineOK
	case "mkdir":
		if noNeg() || len(args) < 1 {
			return lineFail
		}
		for i, a := range args {
			k := s.resolve(a)
			if k == "" {
				return lineUnspec
			}
			// every component must be absent or a directory
			comps := strings.Split(k, "/")
			for j := 1; j <= len(comps); j++ {
				p := strings.Join(comps[:j], "/")
				if n := s.tree[p]; n != nil && n.kind != 'd' {
					if i > 0 || j > 1 {
						return lineUnspec
					}
					return lineFail
				}
			}
			for j := 1; j <= len(comps); j++ {
				p := strings.Join(comps[:j], "/")
				if s.tree[p] == nil {
					s.tree[p] = &node{kind: 'd'}
				}
			}
		}
		return lineOK
	case "mv":
		if noNeg() || len(args) != 2 {
			return lineFail
		}
		a, b := s.resolve(args[0]), s.resolve(args[1])
		if a == "" || b == "" {
			return lineUnspec
		}
		n := s.tree[a]
		if n == nil {
			return lineFail
		}
		if !s.parentIsDir(b) {
			return lineFail
		}
		if old := s.tree[b]; old != nil && (old.kind == 'd' || n.kind == 'd') {
			return lineUnspec // renaming onto / of directories: rename(2) corner cases
		}
		if a == b {
			return lineOK
		}
		if n.kind == 'd' {
			return lineUnspec
		}
		delete(s.tree, a)
		s.tree[b] = n
		return lineOK
	case "rm":
		if noNeg() || len(args) < 1 {
			return lineFail
		}
		for _, a := range args {
			k := s.resolve(a)
			if k == "" || k == "." {
				return lineUnspec
			}
			if s.cwd == k || strings.HasPrefix(s.cwd, k+"/") {
				return lineUnspec // removing the current directory
			}
			s.removeTree(k)
		}
		return lineOK
	case "stdin":
		if noNeg() || len(args) != 1 {
			return lineFail
		}
		t, o := s.readText(args[0])
		if o != lineOK {
			return o
		}
		s.stdin = t
		return lineOK
	case "symlink":
		if noNeg() || len(args) != 3 || args[1] != "->" {
			return lineFail
		}
		k := s.resolve(args[0])
		if k == "" {
			return lineUnspec
		}
		if s.tree[k] != nil || !s.parentIsDir(k) {
			return lineFail
		}
		s.tree[k] = &node{kind: 'l', target: args[2]}
		return lineOK
	case "unquote":
		if noNeg() {
			return lineFail
		}
		if len(args) == 0 {
			return lineUnspec // doc says file...; the code accepts none
		}
		for i, a := range args {
			k := s.resolve(a)
			if k == "" {
				return lineUnspec
			}
			n := s.stat(k)
			if n == nil || n.kind != 'f' {
				if i > 0 || (n != nil && n.kind == '?') {
					return lineUnspec
				}
				return lineFail
			}
			if n.data == "" {
				continue
			}
			if n.data[0] != '>' || n.data[len(n.data)-1] != '\n' {
				if i > 0 {
					return lineUnspec
				}
				return lineFail
			}
			if n.ro == 1 {
				return lineUnspec
			}
			d := strings.ReplaceAll(n.data, "\n>", "\n")
			n.data = strings.TrimPrefix(d, ">")
		}
		return lineOK
	case "unix2dos":
		if noNeg() || len(args) < 1 {
			return lineFail
		}
		for i, a := range args {
			k := s.resolve(a)
			if k == "" {
				return lineUnspec
			}
			n := s.stat(k)
			if n == nil || n.kind != 'f' {
				if i > 0 || (n != nil && n.kind == '?') {
					return lineUnspec
				}
				return lineFail
			}
			if n.ro == 1 {
				return lineUnspec
			}
			var sb strings.Builder
			t := n.data
			for len(t) > 0 {
				j := strings.IndexByte(t, '\n')
				line := t
				if j >= 0 {
					line, t = t[:j], t[j+1:]
				} else {
					t = ""
				}
				sb.WriteString(strings.TrimSuffix(line, "\r") + "\r\n")
			}
			n.data = sb.String()
		}
		return lineOK
	case "kill":
		sig := "KILL"
		name := ""
		switch len(args) {
		case 0:
		case 1, 2:
			if strings.HasPrefix(args[0], "-") {
				sig = args[0][1:]
				if sig != "INT" && sig != "KILL" {
					return lineFail
				}
				if len(args) == 2 {
					name = args[1]
				}
			} else {
				name = args[0]
				if len(args) == 2 {
					return lineUnspec // "kill name extra": the code ignores the extra word
				}
			}
		default:
			return lineFail
		}
		if neg {
			return lineFail
		}
		if name != "" {
			var p *bgProc
			for _, b := range s.bg {
				if b.name == name {
					p = b
				}
			}
			if p == nil {
				return lineFail
			}
			if !p.waits {
				return lineUnspec // signalling a process that may already be gone
			}
			s.interrupt(p, sig)
			return lineOK
		}
		for _, b := range s.bg {
			if !b.waits {
				return lineUnspec
			}
			s.interrupt(b, sig)
		}
		return lineOK
	case "wait":
		if len(args) > 1 || neg {
			return lineFail
		}
		if len(args) == 1 {
			var p *bgProc
			idx := -1
			for i, b := range s.bg {
				if b.name == args[0] {
					p, idx = b, i
				}
			}
			if p == nil {
				return lineFail
			}
			if p.waits {
				return lineUnspec
			}
			s.stdout, s.stderr = p.out, p.err
			if !satisfied(p.neg, p.status == 0) {
				return lineFail
			}
			s.bg = append(s.bg[:idx:idx], s.bg[idx+1:]...)
			return lineOK
		}
		return s.waitAll()
	case "exec", "hexit", "hecho", "hcat", "htouch", "hpid":
		if cmd != "exec" {
			// a command registered by Main: same as exec, unless explicit exec is required
			if s.cfg.RequireExplicitExec {
				return lineFail
			}
			args = append([]string{cmd}, args...)
		}
		if len(args) < 1 || (len(args) == 1 && args[0] == "&") {
			return lineFail
		}
		last := args[len(args)-1]
		if len(args) == 1 && regexp.MustCompile(`^&([a-zA-Z_0-9]+&)?$`).MatchString(last) {
			// "exec &name&": a background specifier and no program (usage error, like "exec &")
			return lineFail
		}
		if m := regexp.MustCompile(`^&([a-zA-Z_0-9]+&)?$`).MatchString(last); m {
			name := strings.TrimSuffix(strings.TrimPrefix(last, "&"), "&")
			if name != "" {
				for _, b := range s.bg {
					if b.name == name {
						return lineFail
					}
				}
			}
			start, p, o := s.runHelper(args[0], args[1:len(args)-1], true)
			if o != lineOK {
				return o
			}
			s.stdout, s.stderr = "", ""
			s.stdin = ""
			if !start {
				if neg {
					return lineOK
				}
				return lineFail
			}
			p.name, p.neg = name, neg
			s.bg = append(s.bg, p)
			return lineOK
		}
		start, p, o := s.runHelper(args[0], args[1:], false)
		if o != lineOK {
			return o
		}
		if !start {
			s.stdout, s.stderr = "", ""
			// the documentation does not say whether a failed start consumes stdin
			s.stdin = ""
			if neg {
				return lineOK
			}
			return lineFail
		}
		s.stdout, s.stderr = p.out, p.err
		s.stdin = ""
		if !satisfied(neg, p.status == 0) {
			return lineFail
		}
		return lineOK
	}
	return lineFail // unknown command
}

type prediction struct {
	Verdict   string   // pass | fail | skip | unspecified
	FailLines []int    // lines that fail, in order (first only unless ContinueOnError)
	Effects   []string // probe log
	Tree      map[string]string
	Why       string
}

// predict runs the reference over the script lines (1-based numbering as in the file).
func predict(cfg config, files [][2]string, lines []string) prediction {
	s := newRefState(cfg, files)
	var p prediction
	failed := false
	end := "pass"
	for i, l := range lines {
		lineno := i + 1
		t := strings.TrimSpace(l)
		if t == "" || strings.HasPrefix(l, "#") {
			continue
		}
		if j := strings.Index(l, " #"); j >= 0 {
			l = l[:j]
		}
		words := strings.Fields(l)
		if strings.ContainsAny(l, "'") {
			// the only quoted form the generator uses: an unterminated quote
			p.FailLines = append(p.FailLines, lineno)
			failed = true
			if !cfg.ContinueOnError {
				break
			}
			continue
		}
		switch s.step(lineno, words) {
		case lineUnspec:
			return prediction{Verdict: "unspecified", Why: fmt.Sprintf("line %d %q", lineno, l)}
		case lineFail:
			p.FailLines = append(p.FailLines, lineno)
			failed = true
			if !cfg.ContinueOnError {
				end = "fail"
			} else if len(words) > 0 {
				// continuing after a failed wait / skip / kill: the state of the background
				// list and of stdout/stderr is not documented
				for _, w := range words {
					if w == "wait" || w == "skip" || w == "kill" {
						return prediction{Verdict: "unspecified", Why: fmt.Sprintf("continuing after failed %q", l)}
					}
				}
			}
		case lineStop:
			end = "stop"
		case lineSkip:
			end = "skip"
		}
		if end != "pass" {
			break
		}
	}
	// at the end of the script (also after stop / failure) background commands are
	// interrupted and waited for; their status is not checked
	for _, b := range s.bg {
		s.interrupt(b, "INT")
	}
	switch {
	case end == "skip" && failed:
		// ContinueOnError: an earlier line failed, so the run still fails
		p.Verdict = "fail"
	case end == "skip":
		p.Verdict = "skip"
	case failed:
		p.Verdict = "fail"
	default:
		p.Verdict = "pass"
	}
	p.Effects = s.effects
	p.Tree = map[string]string{}
	for k, n := range s.tree {
		if k == "." {
			continue
		}
		switch n.kind {
		case 'd':
			p.Tree[k] = "d"
		case 'l':
			p.Tree[k] = "l:" + n.target
		default:
			p.Tree[k] = "f:" + n.data
		}
	}
	return p
}

func sortedKeys(m map[string]string) []string {
	var ks []string
	for k := range m {
		ks = append(ks, k)
	}
	sort.Strings(ks)
	return ks
}
