// C01 — testscript verdict: a script passes iff every executed line meets its
// demand (DESIGN.md §6 C01). Differential bounded model checking of the real
// interpreter (RunT with a recording T in both styles, and the cmd/testscript
// binary) against the independent reference interpreter of ref.go: every script
// up to a length bound over three line alphabets x Params configurations.
package main

import (
	"bytes"
	"encoding/json"
	"fmt"
	"os"
	"os/exec"
	"path/filepath"
	"sort"
	"strconv"
	"strings"
	"sync"
	"sync/atomic"
	"time"

	"github.com/rogpeppe/go-internal/testscript"
	"github.com/rogpeppe/go-internal/txtar"

	"verif/kit"
	"verif/tsh"
)

var archiveFiles = [][2]string{
	{"f", "x\n"}, {"f2", "x\n"}, {"g", "y\n"}, {"q", ">quoted\n>>x\n"}, {"d/e", "e\n"},
	{"m", "ab\nab\nab\n"}, {"fenv", "${K}\n"},
}

type scase struct {
	Cfg   config   `json:"config"`
	Lines []string `json:"lines"`
	CLI   bool     `json:"cli"`
	// Extra: further script files given to the same invocation of the binary
	Extra [][]string `json:"extra,omitempty"`
	// Expect: verdict and first failing line stated by hand (scripts whose
	// meaning rests on something the reference interpreter does not model, such
	// as how a program name is looked up along PATH); no prediction is made
	Expect *expectation `json:"expect,omitempty"`
	// Archive: the script's archive entries when they are not the standard ones
	// (names may repeat)
	Archive [][2]string `json:"archive,omitempty"`
}

type expectation struct {
	Verdict  string `json:"verdict"`
	FailLine int    `json:"fail_line,omitempty"`
	Why      string `json:"why"`
}

func (c scase) String() string {
	x := ""
	for _, e := range c.Extra {
		x += " || " + strings.Join(e, " ; ")
	}
	return fmt.Sprintf("%s%s | cfg=%+v cli=%v", strings.Join(c.Lines, " ; "), x, c.Cfg, c.CLI)
}

// numberProbes gives every probe command its own line number as argument, so
// that the harness can record which lines ran (custom commands are not told
// their line number).
func numberProbes(lines []string) []string {
	out := make([]string, len(lines))
	for i, l := range lines {
		w := strings.Split(l, " ")
		for j, t := range w {
			if strings.HasPrefix(t, "[") || t == "!" || t == "" {
				continue
			}
			if t == "ok" || t == "bad" {
				w[j] = fmt.Sprintf("%s %d", t, i+1)
			}
			break
		}
		out[i] = strings.Join(w, " ")
	}
	return out
}

func scriptText(lines []string) string { return scriptTextA(lines, nil) }

// scriptTextA: the script with the given archive entries (nil: the standard archive).
func scriptTextA(lines []string, archive [][2]string) string {
	if archive == nil {
		archive = archiveFiles
	}
	a := &txtar.Archive{Comment: []byte(strings.Join(numberProbes(lines), "\n") + "\n")}
	for _, f := range archive {
		a.Files = append(a.Files, txtar.File{Name: f[0], Data: []byte(f[1])})
	}
	return string(txtar.Format(a))
}

type observed struct {
	Verdict   string
	FailLines []int
	Effects   []string
	Tree      map[string]string
	Log       string
	Panic     string
}

var runSeq int64

func snapshotTree(root string) map[string]string {
	out := map[string]string{}
	filepath.Walk(root, func(p string, info os.FileInfo, err error) error {
		if err != nil {
			return nil
		}
		rel, _ := filepath.Rel(root, p)
		if rel == "." || rel == ".tmp" || strings.HasPrefix(rel, ".tmp/") {
			return nil
		}
		switch {
		case info.Mode()&os.ModeSymlink != 0:
			t, _ := os.Readlink(p)
			out[rel] = "l:" + t
		case info.IsDir():
			out[rel] = "d"
		default:
			data, _ := os.ReadFile(p)
			out[rel] = "f:" + string(data)
		}
		return nil
	})
	return out
}

// run executes the script through RunT.
func run(root string, c scase) observed {
	n := atomic.AddInt64(&runSeq, 1)
	dir := filepath.Join(root, fmt.Sprintf("r%d", n))
	work := filepath.Join(dir, "work")
	os.MkdirAll(work, 0o777)
	defer func() {
		filepath.Walk(dir, func(p string, info os.FileInfo, err error) error {
			if err == nil && info.IsDir() {
				os.Chmod(p, 0o777)
			}
			return nil
		})
		os.RemoveAll(dir)
	}()
	file := tsh.WriteScript(dir, "s.txt", scriptTextA(c.Lines, c.Archive))
	var mu sync.Mutex
	var effects []string
	style := "goexit"
	if c.Cfg.Panic {
		style = "panic"
	}
	t := tsh.NewT(style, c.Cfg.Verbose)
	p := testscript.Params{
		Files:               []string{file},
		WorkdirRoot:         work,
		ContinueOnError:     c.Cfg.ContinueOnError,
		RequireExplicitExec: c.Cfg.RequireExplicitExec,
		RequireUniqueNames:  c.Cfg.RequireUniqueNames,
	}
	if !c.Cfg.NoCondition {
		p.Condition = func(cond string) (bool, error) {
			switch cond {
			case "always":
				return true, nil
			case "never":
				return false, nil
			}
			return false, fmt.Errorf("condition %q is not known to the harness", cond)
		}
	}
	if !c.Cfg.NoCmds {
		probe := func(name string, succeeds bool) func(ts *testscript.TestScript, neg bool, args []string) {
			return func(ts *testscript.TestScript, neg bool, args []string) {
				mu.Lock()
				effects = append(effects, name+"@"+strings.Join(args, ""))
				mu.Unlock()
				if succeeds == neg {
					ts.Fatalf("probe %s: demand not met (neg=%v)", name, neg)
				}
			}
		}
		p.Cmds = map[string]func(ts *testscript.TestScript, neg bool, args []string){
			"ok":  probe("ok", true),
			"bad": probe("bad", false),
			// entries named like commands of the standard set: the documentation of
			// Params.Cmds says it is "only consulted for commands not part of the
			// standard set", so these are never called (if one is, it shows as an
			// effect no reference run has, and exists / stop / hexit behave wrongly)
			"exists": probe("custom-exists", true),
			"stop":   probe("custom-stop", true),
			"grep":   probe("custom-grep", false),
			"hexit":  probe("custom-hexit", true),
			"waitfile": func(ts *testscript.TestScript, neg bool, args []string) {
				deadline := time.Now().Add(10 * time.Second)
				for time.Now().Before(deadline) {
					if _, err := os.Stat(ts.MkAbs(args[0])); err == nil {
						return
					}
					time.Sleep(time.Millisecond)
				}
				ts.Fatalf("waitfile: %s never appeared", args[0])
			},
		}
	}
	t.RunRoot(func() { testscript.RunT(t, p) })
	var o observed
	if len(t.Results) != 1 {
		o.Verdict = "harness:" + t.RootFatal
		return o
	}
	res := t.Results[0]
	o.Verdict = string(res.Verdict)
	o.Panic = res.Panic
	o.Log = res.Log
	o.FailLines = tsh.AllFailLines(res.Log)
	o.Effects = effects
	o.Tree = snapshotTree(filepath.Join(work, "script-s"))
	return o
}

// runCLI gives the script to the freshly built cmd/testscript binary.
func runCLI(root string, c scase) (exit int, out string) {
	n := atomic.AddInt64(&runSeq, 1)
	dir := filepath.Join(root, fmt.Sprintf("cli%d", n))
	os.MkdirAll(dir, 0o777)
	defer os.RemoveAll(dir)
	file := tsh.WriteScript(dir, "s.txt", scriptText(c.Lines))
	args := []string{}
	if c.Cfg.ContinueOnError {
		args = append(args, "-continue")
	}
	args = append(args, file)
	for i, e := range c.Extra {
		args = append(args, tsh.WriteScript(dir, fmt.Sprintf("s%d.txt", i+2), scriptText(e)))
	}
	cmd := exec.Command(filepath.Join(os.Getenv("VERIF_BIN"), "testscript"), args...)
	// PATH holds only the helper directory (first element): without a go command
	// the binary skips gotooltest.Setup
	cmd.Env = append(os.Environ(), "PATH="+strings.SplitN(os.Getenv("PATH"), ":", 2)[0], "TMPDIR="+dir)
	var buf bytes.Buffer
	cmd.Stdout, cmd.Stderr = &buf, &buf
	err := cmd.Run()
	if ee, ok := err.(*exec.ExitError); ok {
		return ee.ExitCode(), buf.String()
	}
	if err != nil {
		kit.Harness("cmd/testscript: %v", err)
	}
	return 0, buf.String()
}

type stats struct {
	scripts, unspecified, pass, fail, skip, cli int64
}

func eqInts(a, b []int) bool {
	if len(a) != len(b) {
		return false
	}
	for i := range a {
		if a[i] != b[i] {
			return false
		}
	}
	return true
}

func eqStrs(a, b []string) bool {
	if len(a) != len(b) {
		return false
	}
	for i := range a {
		if a[i] != b[i] {
			return false
		}
	}
	return true
}

func treeDiff(want, got map[string]string) string {
	for _, k := range sortedKeys(want) {
		g, ok := got[k]
		if !ok {
			return fmt.Sprintf("%q is missing from the work directory (expected %q)", k, want[k])
		}
		if want[k] == "f:?" && strings.HasPrefix(g, "f:") {
			continue
		}
		if g != want[k] {
			return fmt.Sprintf("%q holds %q, expected %q", k, g, want[k])
		}
	}
	for _, k := range sortedKeys(got) {
		if _, ok := want[k]; !ok {
			return fmt.Sprintf("unexpected %q = %q in the work directory", k, got[k])
		}
	}
	return ""
}

// check compares one script; returns (class, description).
func check(root string, c scase, st *stats) (string, string) {
	if c.CLI && len(c.Extra) > 0 {
		// several scripts in one invocation: exit 0 exactly when none failed
		anyFail := false
		var verdicts []string
		for _, lines := range append([][]string{c.Lines}, c.Extra...) {
			p := predict(c.Cfg, archiveFiles, lines)
			if p.Verdict == "unspecified" {
				return "", ""
			}
			verdicts = append(verdicts, p.Verdict)
			anyFail = anyFail || p.Verdict == "fail"
		}
		exit, out := runCLI(root, c)
		if st != nil {
			atomic.AddInt64(&st.scripts, int64(len(verdicts)))
			atomic.AddInt64(&st.cli, int64(len(verdicts)))
		}
		if (exit == 0) == anyFail {
			return "cli-exit-status", fmt.Sprintf("cmd/testscript given %d scripts exits %d, but their verdicts are %v; output:\n%s", len(verdicts), exit, verdicts, out)
		}
		return "", ""
	}
	if c.Expect != nil {
		if st != nil {
			atomic.AddInt64(&st.scripts, 1)
		}
		o := run(root, c)
		if o.Verdict == string(tsh.Panicked) {
			return "panic", "the run panicked: " + o.Panic
		}
		if o.Verdict != c.Expect.Verdict {
			return "verdict-" + c.Expect.Verdict + "-reported-" + o.Verdict, fmt.Sprintf("reported %s, expected %s (%s); log:\n%s", o.Verdict, c.Expect.Verdict, c.Expect.Why, o.Log)
		}
		if c.Expect.Verdict == "fail" && c.Expect.FailLine == 0 {
			// the failure is not one of a script line (the archive itself is refused)
			if len(o.FailLines) != 0 && o.FailLines[0] != 0 { // the log may say "s.txt:0:"
				return "first-offending-line", fmt.Sprintf("the log names line(s) %v as failing, but no line should have run (%s); log:\n%s", o.FailLines, c.Expect.Why, o.Log)
			}
		} else if c.Expect.Verdict == "fail" && (len(o.FailLines) == 0 || o.FailLines[0] != c.Expect.FailLine) {
			return "first-offending-line", fmt.Sprintf("the log names line(s) %v as failing, the first offending line is %d (%s); log:\n%s", o.FailLines, c.Expect.FailLine, c.Expect.Why, o.Log)
		}
		return "", ""
	}
	pred := predict(c.Cfg, archiveFiles, c.Lines)
	if st != nil {
		atomic.AddInt64(&st.scripts, 1)
	}
	if pred.Verdict == "unspecified" {
		if st != nil {
			atomic.AddInt64(&st.unspecified, 1)
		}
		return "", ""
	}
	if st != nil {
		switch pred.Verdict {
		case "pass":
			atomic.AddInt64(&st.pass, 1)
		case "fail":
			atomic.AddInt64(&st.fail, 1)
		case "skip":
			atomic.AddInt64(&st.skip, 1)
		}
	}
	if c.CLI {
		exit, out := runCLI(root, c)
		if st != nil {
			atomic.AddInt64(&st.cli, 1)
		}
		if (exit == 0) != (pred.Verdict != "fail") {
			return "cli-exit-status", fmt.Sprintf("cmd/testscript exits %d, but the script's verdict is %s (failing lines %v); output:\n%s", exit, pred.Verdict, pred.FailLines, out)
		}
		return "", ""
	}
	o := run(root, c)
	if o.Verdict == string(tsh.Panicked) {
		return "panic", "the run panicked: " + o.Panic
	}
	if o.Verdict != pred.Verdict {
		class := "verdict-" + pred.Verdict + "-reported-" + o.Verdict
		return class, fmt.Sprintf("reported %s, the script's lines demand %s (failing lines %v); log:\n%s", o.Verdict, pred.Verdict, pred.FailLines, o.Log)
	}
	if pred.Verdict == "fail" {
		if c.Cfg.ContinueOnError {
			if !eqInts(o.FailLines, pred.FailLines) {
				return "fail-lines", fmt.Sprintf("the log names failing lines %v, expected %v; log:\n%s", o.FailLines, pred.FailLines, o.Log)
			}
		} else if len(o.FailLines) == 0 || o.FailLines[0] != pred.FailLines[0] {
			return "first-offending-line", fmt.Sprintf("the log names line(s) %v as failing, the first offending line is %d; log:\n%s", o.FailLines, pred.FailLines[0], o.Log)
		}
	}
	if !eqStrs(o.Effects, pred.Effects) {
		return "lines-executed", fmt.Sprintf("probe commands ran as %v, expected %v (a line after the end of the script had an effect, or a guarded line was mis-evaluated)", o.Effects, pred.Effects)
	}
	if d := treeDiff(pred.Tree, o.Tree); d != "" {
		return "work-directory", "final work directory: " + d
	}
	return "", ""
}

// ---------- alphabets ----------

func family1() []string {
	var out []string
	for _, cmd := range []string{"ok", "bad", "! ok", "! bad"} {
		out = append(out, cmd)
	}
	for _, c := range []string{"[always]", "[never]", "[!always]", "[!never]", "[always] [never]", "[!never] [always]", "[!never] [never]", "[linux]", "[!linux]", "[exec:hexit]", "[exec:nosuchprog]", "[go1.1]", "[nocond]", "[conderr]", "[!always] [nocond]"} {
		out = append(out, c+" ok", c+" bad", c+" ! ok")
	}
	out = append(out, "stop", "stop msg", "! stop", "skip", "skip msg", "! skip", "nosuchcmd", "!ok", "!", "[always]", "ok 'x", "", "# phase", "ok # trailing comment", "[never] nosuchcmd", "[unix] stop", "[never] skip")
	return out
}

func family2() []string {
	return []string{
		"cd d", "cd nodir", "cd f", "! cd d", "cd", "cd d e",
		"chmod 444 f", "chmod 444 f g", "chmod 999 f", "chmod 444 nofile", "! chmod 444 f", "chmod 444", "chmod abc f", "chmod 644 f",
		"cmp f f2", "cmp f g", "cmp f f", "cmp f nofile", "! cmp f g", "! cmp f f2", "cmp stdout f", "cmp f", "cmp stdout g", "cmp d f",
		"cmpenv f fenv", "cmpenv g fenv", "! cmpenv f fenv", "! cmpenv g fenv",
		"cp f h", "cp f g d", "cp f g nodir", "cp f g h", "cp stdout h", "cp nofile h", "! cp f h", "cp f", "cp f d", "cp f g",
		// a copy onto the file itself (by name, through its directory, by another spelling)
		"cp f f", "cp d/e d", "cp f ./f", "cp f d/../f",
		"env K=x", "env K", "env", "! env K=x", "env K=y",
		"exists f", "exists nofile", "! exists nofile", "! exists f", "exists -readonly f", "exists", "exists f nofile", "exists d", "! exists nofile f", "exists h", "exists -readonly d/e", "! exists -readonly f",
		"grep x f", "grep z f", "! grep z f", "! grep x f", "grep -count=1 x f", "grep -count=2 x f", "! grep -count=1 x f", "grep -count=0 x f", "grep ( f", "grep x nofile", "grep x", "grep -count=3 ab m", "grep -count=2 ab m", "grep ^ab$ m", "grep -count=x ab m", "grep -count=3 ^ab$ m", "grep y h",
		"mkdir n/e", "mkdir f", "! mkdir n", "mkdir", "mkdir d", "mkdir n k",
		"mv f h", "mv nofile h", "! mv f h", "mv f", "mv f g",
		"rm f d", "rm nofile", "rm", "! rm f", "rm g",
		"stdin f", "stdin nofile", "! stdin f", "stdin",
		"stdout .", "! stdout .", "stderr .", "! stderr .", "stdout -count=1 .", "stdout", "stdout x",
		"symlink l -> f", "symlink f -> g", "symlink l f", "! symlink l -> f", "symlink l -> nofile",
		"unquote q", "unquote f", "! unquote q", "unquote nofile",
		"unix2dos f", "unix2dos nofile", "! unix2dos f", "unix2dos m",
		"kill", "kill -INT", "kill -BAD", "kill nosuch", "wait", "wait nosuch", "! wait", "! kill", "kill a b c",
		"exec", "exec &", "exec &a&", "! exec &a&", "exec &a& &",
		"exists l", "cmp l f", "cmp h f", "cmp h g", "grep quoted q", "grep ^quoted q", "exists n/e", "cmp d/f f",
	}
}

func family3() []string {
	return []string{
		"exec hexit 0", "exec hexit 3", "! exec hexit 3", "! exec hexit 0", "exec nosuchprog", "! exec nosuchprog",
		"exec hecho out err", "exec hcat", "stdin f", "hexit 0", "hexit 3", "! hexit 3", "hecho a b",
		"exec hexit 0 &", "exec hexit 3 &", "! exec hexit 3 &n&", "exec hexit 0 &n&", "! exec hexit 0 &", "exec &", "exec", "exec hecho out err &", "exec nosuchprog &", "! exec nosuchprog &",
		"exec htouch t", "exists t", "stdout out", "stderr err", "! stdout .", "stdout x", "cmp stdout f",
		"wait", "wait n", "stop", "skip", "ok", "bad", "kill -INT n", "kill n", "kill", "kill -INT",
	}
}

// hpidBlocks: scenarios with a process that blocks until signalled; the pid
// file is always awaited before anything else happens.
func hpidScripts() [][]string {
	start := []string{"exec hpid p &n&", "waitfile p"}
	start3 := []string{"exec hpid p 3 &n&", "waitfile p"}
	negStart3 := []string{"! exec hpid p 3 &n&", "waitfile p"}
	tails := [][]string{
		{}, {"stop"}, {"skip"}, {"bad"}, {"kill -INT n", "wait n"}, {"kill -INT n", "wait"}, {"kill n", "wait n"}, {"kill -KILL", "wait"},
		{"kill -INT", "wait", "exists p.sig"}, {"kill -INT n", "wait n", "ok", "exists p.sig"}, {"exec hexit 0 &n&"}, {"ok", "stop", "bad"},
		{"kill -INT n", "skip"}, {"wait nosuch"}, {"kill -INT nosuch"},
	}
	var out [][]string
	for _, st := range [][]string{start, start3, negStart3} {
		for _, t := range tails {
			out = append(out, append(append([]string{}, st...), t...))
		}
	}
	return out
}

// namedWaits: two named background commands with every combination of exit
// status and "!" flag, then wait on one of them, on the other, or on both.
func namedWaits() [][]string {
	var out [][]string
	starts := func(name string) []string {
		return []string{"exec hexit 0 &" + name + "&", "exec hexit 3 &" + name + "&", "! exec hexit 0 &" + name + "&", "! exec hexit 3 &" + name + "&"}
	}
	for _, a := range starts("n") {
		for _, b := range starts("m") {
			for _, w := range [][]string{{"wait n"}, {"wait m"}, {"wait"}, {"wait n", "wait m"}, {"wait m", "wait n"}, {"wait n", "ok", "wait n"}} {
				out = append(out, append(append([]string{a, b}, w...), "ok"))
			}
		}
	}
	return out
}

// waitOrder: four background commands with output, one of the named ones waited
// for by name, then a plain wait, then a pattern that depends on the order in
// which the remaining outputs are put together (the order the commands were
// started in).
func waitOrder() [][]string {
	var out [][]string
	starts := []string{"exec hecho bg1 &a&", "exec hecho bg2 &b&", "exec hecho bg3 &c&", "exec hecho bg4 &"}
	for _, first := range [][]string{{"wait a"}, {"wait b"}, {"wait c"}, {"wait b", "wait a"}, nil} {
		for _, pat := range []string{"bg1bg2", "bg2bg3", "bg3bg4", "bg1bg3", "bg2bg4", "bg1bg4", "bg4bg2", "bg4bg1", "bg3bg1", "bg4bg3", "^bg2bg3bg4$", "^bg1bg3bg4$", "^bg1bg2bg4$", "^bg3bg4$", "^bg1bg2bg3bg4$"} {
			ls := append(append(append([]string{}, starts...), first...), "wait", "stdout "+pat, "ok")
			out = append(out, ls)
		}
	}
	return out
}

func violKey(class string, c scase) string { return class + " script=" + c.String() }

func main() { tsh.Main(func() int { realMain(); return 0 }) }

func realMain() {
	r := kit.Start("C01", "model_checking")
	root, err := os.MkdirTemp(os.Getenv("VERIF_SCRATCH"), "c01")
	if err != nil {
		kit.Harness("mkdtemp: %v", err)
	}
	defer os.RemoveAll(root)
	var replayCase scase
	stuckV := func(c scase) kit.V {
		return kit.V{Key: violKey("no-return", c), What: fmt.Sprintf("script [%s] (config %+v, cli=%v): the run does not return", strings.Join(c.Lines, " ; "), c.Cfg, c.CLI), Case: c}
	}
	r.Stuck = func([]byte) kit.V { return stuckV(replayCase) }
	r.Replayer = func(raw json.RawMessage) []kit.V {
		var c scase
		if err := json.Unmarshal(raw, &c); err != nil {
			kit.Harness("bad case: %v", err)
		}
		replayCase = c
		r.Watch(127, []byte("replay"))
		defer r.WatchDone(127)
		class, what := check(root, c, nil)
		if class == "" {
			return nil
		}
		return []kit.V{{Key: violKey(class, c), What: what, Case: c}}
	}
	r.MaybeReplay()
	th := r.Thorough()

	var cases []scase
	addAll := func(cfg config, alpha []string, n int, cli bool) {
		var rec func(cur []string)
		rec = func(cur []string) {
			if len(cur) > 0 {
				cases = append(cases, scase{Cfg: cfg, Lines: append([]string(nil), cur...), CLI: cli})
			}
			if len(cur) == n {
				return
			}
			for _, a := range alpha {
				rec(append(cur, a))
			}
		}
		rec(nil)
	}
	def := config{}
	coe := config{ContinueOnError: true}
	f1, f2, f3 := family1(), family2(), family3()
	// family 1: verdict logic, every script up to 2 lines (thorough 3) in four configurations,
	// plus 3 lines over the core of the alphabet
	n1 := 2
	if th {
		n1 = 3
	}
	for _, cfg := range []config{def, coe, {Panic: true}, {ContinueOnError: true, Panic: true}, {Verbose: true}, {NoCondition: true}, {NoCmds: true}} {
		addAll(cfg, f1, n1, false)
	}
	core := []string{"ok", "bad", "! bad", "[never] bad", "[!never] [always] bad", "stop", "skip", "nosuchcmd", "[nocond] ok", "# phase", "ok 'x", "! ok"}
	for _, cfg := range []config{def, coe, {Panic: true}, {ContinueOnError: true, Panic: true}} {
		addAll(cfg, core, 3, false)
		if th {
			addAll(cfg, core, 4, false)
		}
	}
	// family 2: built-ins, every script of up to 2 lines; setups x line x observers
	for _, cfg := range []config{def, coe} {
		addAll(cfg, f2, 2, false)
	}
	setups := []string{"env K=x", "mkdir n", "cd d", "chmod 444 f", "cp f h", "symlink l -> f", "rm f", "exec hecho x err"}
	for _, s := range setups {
		for _, l := range f2 {
			cases = append(cases, scase{Cfg: def, Lines: []string{s, l, "ok"}})
			if th {
				for _, l2 := range f2 {
					cases = append(cases, scase{Cfg: def, Lines: []string{s, l, l2}})
				}
			}
		}
	}
	// family 3: processes
	n3 := 2
	if th {
		n3 = 3
	}
	for _, cfg := range []config{def, coe, {RequireExplicitExec: true}, {Panic: true}} {
		addAll(cfg, f3, n3, false)
	}
	if !th {
		addAll(def, f3[:24], 3, false)
	}
	// what an exec leaves behind for the next one: standard input set by stdin is
	// for the next exec only, whatever that exec's fate; the output buffers belong
	// to the most recent exec
	for _, cfg := range []config{def, coe} {
		for _, mid := range []string{"exec hexit 0", "exec hexit 3", "! exec hexit 3", "! exec hexit 0", "exec hecho out err", "! exec hecho out err", "exec hcat", "hexit 0", "! hexit 3", "exec hexit 0 &", "! exec hexit 3 &n&", "wait", "exec hecho bg1 bg2 &", "kill"} {
			for _, obs := range []string{"stdout x", "! stdout .", "cmp stdout f", "stdout out", "! stderr ."} {
				cases = append(cases, scase{Cfg: cfg, Lines: []string{"stdin f", mid, "exec hcat", obs}})
				cases = append(cases, scase{Cfg: cfg, Lines: []string{"exec hecho out err", mid, obs}})
				cases = append(cases, scase{Cfg: cfg, Lines: []string{"exec hecho out err", mid, "wait", obs}})
				cases = append(cases, scase{Cfg: cfg, Lines: []string{"exec hecho out err &n&", "wait n", "exec hecho out err", mid, "wait", obs}})
			}
		}
	}
	for _, cfg := range []config{def, coe, {Panic: true}} {
		for _, s := range hpidScripts() {
			cases = append(cases, scase{Cfg: cfg, Lines: s})
		}
	}
	for _, cfg := range []config{def, {Panic: true}} {
		for _, s := range namedWaits() {
			cases = append(cases, scase{Cfg: cfg, Lines: s})
		}
		for _, s := range waitOrder() {
			cases = append(cases, scase{Cfg: cfg, Lines: s})
		}
	}
	// the command-line binary: built-ins and exec only (it has no custom commands)
	cliAlpha := []string{"exists f", "exists nofile", "! exists nofile", "cmp f g", "cmp f f2", "exec hexit 0", "exec hexit 3", "! exec hexit 3", "stop", "skip", "nosuchcmd", "[linux] exists nofile", "[!linux] exists nofile", "grep -count=2 ab m", "grep -count=3 ab m", "mkdir n", "exists n"}
	ncli := 2
	if th {
		ncli = 3
	}
	addAll(def, cliAlpha, ncli, true)
	addAll(coe, cliAlpha, 2, true)
	// [short] through the command-line binary: there is no -short flag there, so
	// the condition is false (the check binary itself cannot evaluate [short]:
	// package testing refuses outside a test binary, which is what this is about)
	for _, sc := range []struct {
		lines []string
		exp   expectation
	}{
		{[]string{"[short] exists nofile", "exists f"}, expectation{Verdict: "pass", Why: "the command-line binary has no -short: [short] is false and the line is skipped"}},
		{[]string{"[!short] exists nofile"}, expectation{Verdict: "fail", FailLine: 1, Why: "[!short] holds in the command-line binary, the line runs and fails"}},
		{[]string{"[short] stop", "exists nofile"}, expectation{Verdict: "fail", FailLine: 2, Why: "[short] is false: stop is skipped, the next line fails"}},
		{[]string{"[!short] stop", "exists nofile"}, expectation{Verdict: "pass", Why: "[!short] holds: the script stops, passed"}},
	} {
		for _, cfg := range []config{def, coe} {
			e := sc.exp
			cases = append(cases, scase{Cfg: cfg, Lines: sc.lines, Expect: &e, CLI: true})
		}
	}
	// program lookup along PATH: a directory or a non-executable file that has
	// the program's name is not the program
	pathCases := []struct {
		lines []string
		exp   expectation
	}{
		{[]string{"mkdir shadow/hexit", "env PATH=$WORK/shadow${:}$PATH", "exec hexit 0"}, expectation{Verdict: "pass", Why: "a directory named like the program earlier on PATH is skipped"}},
		{[]string{"mkdir shadow/hexit", "env PATH=$WORK/shadow${:}$PATH", "! exec hexit 0"}, expectation{Verdict: "fail", FailLine: 3, Why: "the real hexit further along PATH succeeds, so the negated exec fails"}},
		{[]string{"mkdir shadow/hexit", "env PATH=$WORK/shadow${:}$PATH", "exec hexit 3"}, expectation{Verdict: "fail", FailLine: 3, Why: "the real hexit exits 3"}},
		{[]string{"mkdir shadow/hexit", "env PATH=$WORK/shadow${:}$PATH", "! exec hexit 3"}, expectation{Verdict: "pass", Why: "the real hexit exits 3"}},
		{[]string{"mkdir shadow/nosuchprog", "env PATH=$WORK/shadow${:}$PATH", "[exec:nosuchprog] exists nofile"}, expectation{Verdict: "pass", Why: "a directory is not a program: the condition is false and the line is skipped"}},
		{[]string{"mkdir shadow/nosuchprog", "env PATH=$WORK/shadow${:}$PATH", "[!exec:nosuchprog] exists nofile"}, expectation{Verdict: "fail", FailLine: 3, Why: "a directory is not a program: the negated condition holds and the line runs"}},
		{[]string{"mkdir shadow", "cp f shadow/hexit", "chmod 644 shadow/hexit", "env PATH=$WORK/shadow${:}$PATH", "exec hexit 0"}, expectation{Verdict: "pass", Why: "a non-executable file named like the program is skipped"}},
		{[]string{"mkdir shadow", "cp f shadow/hexit", "chmod 644 shadow/hexit", "env PATH=$WORK/shadow${:}$PATH", "exec hexit 3"}, expectation{Verdict: "fail", FailLine: 5, Why: "the real hexit exits 3"}},
		{[]string{"mkdir shadow", "cp f shadow/nosuchprog", "chmod 644 shadow/nosuchprog", "env PATH=$WORK/shadow${:}$PATH", "[exec:nosuchprog] exists nofile"}, expectation{Verdict: "pass", Why: "a non-executable file is not a program"}},
		{[]string{"mkdir shadow/hexit", "env PATH=$WORK/shadow", "exec hexit 0"}, expectation{Verdict: "fail", FailLine: 3, Why: "only a directory of that name is on PATH: the program is not found"}},
		{[]string{"env PATH=$WORK/nodir${:}${:}$PATH", "exec hexit 0", "[exec:hexit] exists nofile"}, expectation{Verdict: "fail", FailLine: 3, Why: "missing and empty PATH elements are passed over; hexit is found"}},
	}
	// a program that exits 0 has succeeded, however long a descendant of it keeps
	// the inherited output open (exec waits for the output to end, then judges
	// the exit status)
	pathCases = append(pathCases, []struct {
		lines []string
		exp   expectation
	}{
		{[]string{"exec hlinger 400", "stdout started"}, expectation{Verdict: "pass", Why: "hlinger exits 0; its descendant holds the output pipe for 400 ms more"}},
		{[]string{"! exec hlinger 400"}, expectation{Verdict: "fail", FailLine: 1, Why: "hlinger exits 0, so the negated exec fails"}},
		{[]string{"exec hlinger 400", "exists nofile"}, expectation{Verdict: "fail", FailLine: 2, Why: "hlinger exits 0; the next line fails"}},
		{[]string{"exec hecho xyz uvw", "exec hlinger 250", "! stdout xyz", "! stderr uvw", "stdout started"}, expectation{Verdict: "pass", Why: "hlinger exits 0 and its output replaces the earlier one"}},
	}...)
	// a background program that ended (and was collected by the interpreter's
	// own waiting goroutine) long before the script reaches skip: skip still
	// only has to find its status as demanded
	pathCases = append(pathCases, []struct {
		lines []string
		exp   expectation
	}{
		{[]string{"exec hexit 0 &", "exec hsleep 300ms", "skip"}, expectation{Verdict: "skip", Why: "the background program exited 0 as demanded; nothing failed"}},
		{[]string{"! exec hexit 3 &", "exec hsleep 300ms", "skip why"}, expectation{Verdict: "skip", Why: "the background program failed as demanded; nothing failed"}},
		{[]string{"exec hexit 3 &", "exec hsleep 300ms", "skip"}, expectation{Verdict: "fail", FailLine: 3, Why: "the background program exited 3 although success was demanded: found out when skip collects it"}},
		{[]string{"exec hexit 0 &n&", "exec hexit 0 &", "exec hsleep 300ms", "wait n", "skip"}, expectation{Verdict: "skip", Why: "both background programs exited 0"}},
	}...)
	for _, pc := range pathCases {
		for _, cfg := range []config{def, coe} {
			e := pc.exp
			cases = append(cases, scase{Cfg: cfg, Lines: pc.lines, Expect: &e})
		}
	}
	// archives that repeat a name: the later entry wins, unless RequireUniqueNames
	// is set, in which case the archive is refused and no line runs
	dup1 := [][2]string{{"f", "x\n"}, {"g", "y\n"}, {"f", "z\n"}}
	dup2 := [][2]string{{"d/e", "1\n"}, {"g", "y\n"}, {"d/./e", "2\n"}}
	uniq := [][2]string{{"f", "x\n"}, {"g", "y\n"}, {"d/e", "1\n"}}
	type ac struct {
		archive [][2]string
		unique  bool
		lines   []string
		exp     expectation
	}
	for _, a := range []ac{
		{dup1, false, []string{"grep z f", "! grep x f"}, expectation{Verdict: "pass", Why: "of two entries named f the later one is on disk"}},
		{dup1, false, []string{"exists g", "grep x f"}, expectation{Verdict: "fail", FailLine: 2, Why: "of two entries named f the later one is on disk"}},
		{dup1, true, []string{"exists f"}, expectation{Verdict: "fail", Why: "RequireUniqueNames refuses an archive with two entries named f"}},
		{dup1, true, []string{"stop"}, expectation{Verdict: "fail", Why: "RequireUniqueNames refuses an archive with two entries named f"}},
		{dup1, true, []string{"skip"}, expectation{Verdict: "fail", Why: "RequireUniqueNames refuses an archive with two entries named f"}},
		{dup2, false, []string{"grep 2 d/e"}, expectation{Verdict: "pass", Why: "d/e and d/./e name the same file; the later entry is on disk"}},
		{dup2, true, []string{"exists d/e"}, expectation{Verdict: "fail", Why: "RequireUniqueNames: d/e and d/./e name the same file"}},
		{uniq, true, []string{"grep x f", "grep 1 d/e"}, expectation{Verdict: "pass", Why: "unique names are accepted"}},
		{uniq, true, []string{"grep x f", "grep 2 d/e"}, expectation{Verdict: "fail", FailLine: 2, Why: "unique names are accepted; d/e holds 1"}},
	} {
		for _, cfg := range []config{def, coe} {
			cfg.RequireUniqueNames = a.unique
			e := a.exp
			cases = append(cases, scase{Cfg: cfg, Lines: a.lines, Expect: &e, Archive: a.archive})
		}
	}
	// spellings of the number in -count=N: N is a decimal number, whatever its
	// leading zeros; prefixes of other bases, separators and exponents are no numbers
	{
		lines := func(n int) string { return strings.Repeat("x\n", n) }
		countArchive := [][2]string{{"c2", lines(2)}, {"c8", lines(8)}, {"c10", lines(10)}, {"c16", lines(16)}}
		spell := []struct {
			s string
			v int // 0 = not a number (or not a positive one)
		}{{"8", 8}, {"08", 8}, {"008", 8}, {"010", 10}, {"10", 10}, {"0010", 10}, {"02", 2}, {"016", 16}, {"0x8", 0}, {"0x10", 0}, {"0X10", 0}, {"0b10", 0}, {"0o10", 0}, {"1_0", 0}, {"1e1", 0}, {"8.0", 0}, {"00", 0}, {"", 0}, {"\u0668", 0}}
		for _, sp := range spell {
			for _, n := range []int{2, 8, 10, 16} {
				for _, via := range []string{"grep", "stdout"} {
					var ls []string
					file := fmt.Sprintf("c%d", n)
					switch via {
					case "grep":
						ls = []string{"grep -count=" + sp.s + " x " + file}
					default:
						ls = []string{"stdin " + file, "exec hcat", "stdout -count=" + sp.s + " x"}
					}
					e := expectation{Verdict: "pass", Why: fmt.Sprintf("-count=%s is the decimal number %d and there are %d matching lines", sp.s, sp.v, n)}
					if sp.v != n {
						e = expectation{Verdict: "fail", FailLine: len(ls), Why: fmt.Sprintf("-count=%s (decimal value %d; 0 = not a positive decimal number) against %d matching lines", sp.s, sp.v, n)}
					}
					for _, cfg := range []config{def, coe} {
						e := e
						cases = append(cases, scase{Cfg: cfg, Lines: ls, Expect: &e, Archive: countArchive})
					}
				}
			}
		}
	}
	// several script files in one invocation (the failure flag is shared)
	multi := [][]string{{"exists f"}, {"exists nofile"}, {"skip"}, {"stop"}, {"exec hexit 3"}, {"exists f", "skip", "exists nofile"}, {"! exec hexit 0", "skip"}}
	for _, cfg := range []config{def, coe} {
		for _, a := range multi {
			for _, b := range multi {
				cases = append(cases, scase{Cfg: cfg, Lines: a, CLI: true, Extra: [][]string{b}})
				for _, c3 := range multi {
					cases = append(cases, scase{Cfg: cfg, Lines: a, CLI: true, Extra: [][]string{b, c3}})
				}
			}
		}
	}

	st := &stats{}
	var next int64 = -1
	var wg sync.WaitGroup
	// a script whose run never returns (an endless loop in the interpreter) is
	// reported by the watchdog; the watched input is the index of the case
	r.Stuck = func(in []byte) kit.V {
		c := replayCase
		if i, err := strconv.Atoi(string(in)); err == nil && i >= 0 && i < len(cases) {
			c = cases[i]
		}
		return stuckV(c)
	}
	for w := 0; w < r.Workers(); w++ {
		wg.Add(1)
		go func() {
			defer wg.Done()
			var wb []byte
			for {
				i := int(atomic.AddInt64(&next, 1))
				if i >= len(cases) || r.Expired() {
					r.WatchDone(w)
					return
				}
				c := cases[i]
				wb = strconv.AppendInt(wb[:0], int64(i), 10)
				r.Watch(w, wb)
				class, what := check(root, c, st)
				if class != "" {
					r.Violation(violKey(class, c), fmt.Sprintf("script [%s] (config %+v, cli=%v): %s", strings.Join(c.Lines, " ; "), c.Cfg, c.CLI, what), c)
				}
				if i%20011 == 5 {
					r.Sample(c.String())
				}
			}
		}()
	}
	wg.Wait()
	var names []string
	for _, f := range archiveFiles {
		names = append(names, f[0])
	}
	sort.Strings(names)
	compared := st.scripts - st.unspecified
	r.Set("states", compared)
	r.Set("transitions", compared)
	r.Set("traces_validated_against_impl", compared)
	r.Set("scripts_generated", st.scripts)
	r.Set("scripts_compared", compared)
	r.Set("skipped_unspecified", st.unspecified)
	r.Set("predicted_pass", st.pass)
	r.Set("predicted_fail", st.fail)
	r.Set("predicted_skip", st.skip)
	r.Set("scripts_through_cmd_testscript_binary", st.cli)
	r.Set("alphabet_sizes", map[string]int{"verdict-logic": len(f1), "built-ins": len(f2), "processes": len(f3)})
	r.Set("exhaustive", !r.Capped())
	r.Set("explanation", "explicit search over scripts = paths of the interpreter's line-by-line transition system: every script up to the stated number of lines over each line alphabet and Params configuration is run from the start on the real interpreter and on the reference interpreter; compared: verdict, failing line number(s) in the log, the sequence of probe commands that ran, the final work directory. states/transitions = scripts compared (each script is one path); scripts the reference cannot predict from the documentation are counted as skipped_unspecified")
	r.Assume("the reference interpreter (ref.go) follows testscript/doc.go; exact log texts are not compared, only verdict, FAIL line numbers, effects and files")
	r.Finish()
}
