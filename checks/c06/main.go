// C06 — lockedfile: a write lock excludes every other holder; read locks share;
// the lock is held from the acquiring call's return until Close and released by
// it (DESIGN.md §6 C06). Engine S on the real lockedfile + filelock with os and
// syscall redirected; admission is decided by the kernel (real flock LOCK_NB).
package main

import (
	"bufio"
	"encoding/json"
	"flag"
	"fmt"
	"os"
	"os/exec"
	"path/filepath"
	"runtime"
	"sort"
	"strconv"
	"strings"
	"syscall"
	"time"

	"github.com/rogpeppe/go-internal/lockedfile"

	"verif/fsched"
	"verif/kit"
	"verif/sched"
	"verif/virt/vos"
	"verif/virt/vsync"
)

// An acquisition: how the lock is taken and on which path.
type acq struct {
	Form string `json:"form"` // open, create, edit, rdonly, wronly, rdwr, mutex, mutexShared
	Path string `json:"path"` // "p" or "q"; "d" is a directory (an acquisition may fail, then nothing is held), "f" a FIFO, "n" a path at which nothing exists when the holders start
	Dup  bool   `json:"dup"`  // a copy of the descriptor exists while Close runs (a forked child that has not exec'd yet)
	// Rel: the path is given relative to the current directory (which is the
	// scenario's directory); GC: the garbage collector runs, and finalizers get
	// time to, while the lock is held
	Rel bool `json:"rel,omitempty"`
	GC  bool `json:"gc,omitempty"`
}

// flags:<n> forms call OpenFile with exactly these flags
func (a acq) flags() (int, bool) {
	if strings.HasPrefix(a.Form, "flags:") {
		n, err := strconv.Atoi(a.Form[len("flags:"):])
		return n, err == nil
	}
	return 0, false
}

func (a acq) writer() bool {
	if fl, ok := a.flags(); ok {
		return fl&(os.O_WRONLY|os.O_RDWR) != 0
	}
	return a.Form != "open" && a.Form != "rdonly"
}

// creates: the form makes the file if it is missing
func (a acq) creates() bool {
	if fl, ok := a.flags(); ok {
		return fl&os.O_CREATE != 0
	}
	return a.Form == "create" || a.Form == "edit" || a.Form == "mutex" || a.Form == "mutexShared"
}

func flagName(fl int) string {
	var p []string
	switch fl & (os.O_WRONLY | os.O_RDWR) {
	case os.O_WRONLY:
		p = append(p, "O_WRONLY")
	case os.O_RDWR:
		p = append(p, "O_RDWR")
	default:
		p = append(p, "O_RDONLY")
	}
	for _, f := range []struct {
		v int
		n string
	}{{os.O_APPEND, "O_APPEND"}, {os.O_CREATE, "O_CREATE"}, {os.O_TRUNC, "O_TRUNC"}, {os.O_SYNC, "O_SYNC"}, {os.O_EXCL, "O_EXCL"}} {
		if fl&f.v != 0 {
			p = append(p, f.n)
		}
	}
	return strings.Join(p, "|")
}

func (a acq) String() string {
	s := a.Form + "(" + a.Path + ")"
	if fl, ok := a.flags(); ok {
		s = "OpenFile(" + a.Path + "," + flagName(fl) + ")"
	}
	if a.Dup {
		s += "+dup"
	}
	return s
}

type scenario struct {
	Name    string  `json:"name"`
	Threads [][]acq `json:"threads"`
	Bound   int     `json:"bound"`
	EINTR   bool    `json:"eintr"`
}

func (s scenario) String() string {
	var ts []string
	for _, t := range s.Threads {
		var as []string
		for _, a := range t {
			as = append(as, a.String())
		}
		ts = append(ts, strings.Join(as, ";"))
	}
	e := ""
	if s.EINTR {
		e = " +EINTR"
	}
	return fmt.Sprintf("%s [%s] %s%s", s.Name, strings.Join(ts, " || "), boundName(s.Bound), e)
}

type holder struct {
	thread int
	writer bool
}

type instance struct {
	sc        scenario
	dir       string
	holders   map[string][]holder // path -> current holders (overlap monitor)
	viol      string
	maxShared int // most readers registered at once on one path
	maxPaths  int // most distinct paths held at once
	acquired  int
	closing   map[string]int // path -> threads that are inside Close/unlock (may or may not still hold)
	probes    int
	pgen      int // P-mode: unlock / close events seen by the coordinator
	shared    *lockedfile.Mutex
}

func (in *instance) register(th int, a acq) {
	hs := in.holders[a.Path]
	for _, h := range hs {
		if (a.writer() || h.writer) && in.viol == "" {
			in.viol = fmt.Sprintf("thread %d acquired %s while thread %d holds the path (writer=%v)", th, a, h.thread, h.writer)
		}
	}
	in.holders[a.Path] = append(hs, holder{th, a.writer()})
	in.acquired++
	r := 0
	for _, h := range in.holders[a.Path] {
		if !h.writer {
			r++
		}
	}
	if r > in.maxShared {
		in.maxShared = r
	}
	np := 0
	for _, hs := range in.holders {
		if len(hs) > 0 {
			np++
		}
	}
	if np > in.maxPaths {
		in.maxPaths = np
	}
}

func (in *instance) deregister(th int, a acq) {
	hs := in.holders[a.Path]
	for i, h := range hs {
		if h.thread == th {
			in.holders[a.Path] = append(hs[:i:i], hs[i+1:]...)
			return
		}
	}
}

// probeReleased is called right after Close/unlock returned, with no scheduling
// point in between: whatever the monitor says is free must be grantable by the
// kernel now ("released by that call").
func (in *instance) probeReleased(th int, a acq) {
	if in.viol != "" || in.closing[a.Path] > 0 || in.closing["acq:"+a.Path] > 0 {
		return // another thread is inside its own acquiring call or Close: it may hold the lock unregistered
	}
	in.probes++
	how := syscall.LOCK_EX
	for _, h := range in.holders[a.Path] {
		if h.writer {
			return // somebody else legitimately holds it exclusively (cannot happen without an earlier violation)
		}
		how = syscall.LOCK_SH
	}
	f, err := os.OpenFile(pathOf(in.dir, a.Path), os.O_RDWR, 0)
	if err != nil {
		return
	}
	defer f.Close()
	if err := syscall.Flock(int(f.Fd()), how|syscall.LOCK_NB); err != nil {
		in.viol = fmt.Sprintf("thread %d: %s was closed but the lock is still held afterwards (probe flock: %v)", th, a, err)
		return
	}
	syscall.Flock(int(f.Fd()), syscall.LOCK_UN)
}

func (in *instance) body() {
	vsync.ResetNames()
	if err := os.Chdir(in.dir); err != nil {
		kit.Harness("chdir: %v", err)
	}
	fsched.EINTROnce = in.sc.EINTR
	fsched.Install()
	in.holders = map[string][]holder{}
	in.closing = map[string]int{}
	in.viol = ""
	in.pgen = 0
	in.maxShared, in.maxPaths, in.acquired = 0, 0, 0
	for _, p := range []string{"p", "q"} {
		os.WriteFile(filepath.Join(in.dir, p), []byte("x"), 0o666)
	}
	os.Remove(filepath.Join(in.dir, "n")) // "n" does not exist when the holders start
	// "r" is owned by root and nobody may write it; unprivileged holders must be
	// able to reach it
	os.WriteFile(filepath.Join(in.dir, "r"), []byte("x"), 0o444)
	os.Chmod(filepath.Join(in.dir, "r"), 0o444)
	if in.sc.unpriv() {
		for d := in.dir; strings.HasPrefix(d, os.Getenv("VERIF_SCRATCH")) && len(d) > 1 && os.Getenv("VERIF_SCRATCH") != ""; d = filepath.Dir(d) {
			os.Chmod(d, 0o755)
		}
	}
	os.Mkdir(filepath.Join(in.dir, "d"), 0o777)
	os.MkdirAll(filepath.Join(in.dir, "sub", "deep"), 0o777)
	os.Symlink(filepath.Join("sub", "deep"), filepath.Join(in.dir, "lnk"))
	os.WriteFile(filepath.Join(in.dir, "sub", "sp"), []byte("x"), 0o666)
	os.Remove(filepath.Join(in.dir, "sp"))
	if _, err := os.Lstat(filepath.Join(in.dir, "f")); err != nil {
		if err := syscall.Mkfifo(filepath.Join(in.dir, "f"), 0o666); err != nil {
			kit.Harness("mkfifo: %v", err)
		}
	}
	in.shared = lockedfile.MutexAt(filepath.Join(in.dir, "p"))
	for ti, prog := range in.sc.Threads {
		ti, prog := ti+1, prog
		if in.sc.pmode() {
			sched.Go(fmt.Sprintf("P%d", ti), func() { in.proxy(ti, prog) })
			continue
		}
		sched.Go(fmt.Sprintf("T%d", ti), func() {
			for _, a := range prog {
				in.one(ti, a)
			}
		})
	}
}

// monitor is what an acquisition reports to: the in-process overlap monitor, or
// (P-mode) a pipe to the coordinating process.
type monitor interface {
	acquiring(path string, delta int)
	register(th int, a acq)
	criticalSection(a acq)
	releasing(th int, a acq)
	closed(th int, a acq)
	fail(msg string)
}

func (in *instance) acquiring(path string, delta int) { in.closing["acq:"+path] += delta }
func (in *instance) criticalSection(a acq) {
	sched.Point(sched.Op{Kind: "critical-section", Obj: a.Path})
}
func (in *instance) releasing(th int, a acq) {
	in.deregister(th, a)
	in.closing[a.Path]++
}
func (in *instance) closed(th int, a acq) {
	in.closing[a.Path]--
	in.probeReleased(th, a)
}
func (in *instance) fail(msg string) {
	if in.viol == "" {
		in.viol = msg
	}
}

func (in *instance) one(th int, a acq) { acquireOnce(in, in.dir, in.shared, th, a) }

// pathOf: the file a path letter stands for. "s" is spelled through a symbolic
// link to a directory two levels down followed by "..": the kernel resolves
// it to <dir>/sub/sp, while the lexically cleaned string would name <dir>/sp
// (every holder is given the same string; they must meet on the same file).
func pathOf(dir, p string) string {
	if p == "s" {
		return dir + "/lnk/../sp"
	}
	return filepath.Join(dir, p)
}

// acquireOnce performs one acquisition / critical section / release on the real
// lockedfile package and reports to m.
func acquireOnce(m monitor, dir string, shared *lockedfile.Mutex, th int, a acq) {
	path := pathOf(dir, a.Path)
	if a.Rel {
		path = a.Path
	}
	m.acquiring(a.Path, +1)
	var f *lockedfile.File
	var unlock func()
	var err error
	switch a.Form {
	case "open":
		f, err = lockedfile.Open(path)
	case "create":
		f, err = lockedfile.Create(path)
	case "edit":
		f, err = lockedfile.Edit(path)
	case "rdonly":
		f, err = lockedfile.OpenFile(path, os.O_RDONLY, 0)
	case "wronly":
		f, err = lockedfile.OpenFile(path, os.O_WRONLY, 0)
	case "rdwr":
		f, err = lockedfile.OpenFile(path, os.O_RDWR, 0)
	case "mutex":
		unlock, err = lockedfile.MutexAt(path).Lock()
	default:
		if fl, ok := a.flags(); ok {
			f, err = lockedfile.OpenFile(path, fl, 0o666)
		} else {
			err = fmt.Errorf("unknown acquisition form %q", a.Form)
		}
	case "mutexShared":
		unlock, err = shared.Lock()
	}
	m.acquiring(a.Path, -1)
	if err != nil {
		if a.Path == "d" {
			return // a directory cannot be opened for writing: refused, nothing is held
		}
		if a.Path == "r" && a.writer() && os.IsPermission(err) {
			return // no permission to write: refused, nothing is held
		}
		if fl, ok := a.flags(); ok && fl&os.O_EXCL != 0 && os.IsExist(err) {
			return // O_EXCL and the file is there (already, or made by another holder): refused, nothing is held
		}
		if a.Path == "n" && !a.creates() && os.IsNotExist(err) {
			return // nothing there yet and this form does not create: refused, nothing is held
		}
		m.fail(fmt.Sprintf("thread %d: %s failed: %v", th, a, err))
		return
	}
	m.register(th, a)
	if a.GC {
		// whatever the collector may do to objects the package has let go of must
		// not end the lock early
		runtime.GC()
		time.Sleep(2 * time.Millisecond)
		runtime.GC()
		time.Sleep(time.Millisecond)
	}
	m.criticalSection(a)
	dup := -1
	if a.Dup && f != nil {
		dup, _ = syscall.Dup(int(f.Fd()))
	}
	m.releasing(th, a)
	if f != nil {
		if cerr := f.Close(); cerr != nil {
			m.fail(fmt.Sprintf("thread %d: Close of %s failed: %v", th, a, cerr))
		}
	} else {
		unlock()
	}
	m.closed(th, a)
	if dup >= 0 {
		syscall.Close(dup)
		vosBump()
	}
}

// vosBump tells waiting threads that lock state may have changed (the harness
// closed a duplicate descriptor itself).
func vosBump() {
	if f, err := vos.Open(os.DevNull); err == nil {
		f.Close()
	}
}

// ---------- P-mode: every holder is a separate OS process ----------

const pmodeTag = " [one process per holder]"

func (s scenario) pmode() bool { return strings.HasSuffix(s.Name, pmodeTag) }

// unprivTag: the holder processes give up root before they start (user and
// group 65534), so that file permissions apply to them.
const unprivTag = " as an unprivileged user"

func (s scenario) unpriv() bool { return strings.Contains(s.Name, unprivTag) }

type pchildSpec struct {
	Dir  string `json:"dir"`
	Th   int    `json:"th"`
	Prog []acq  `json:"prog"`
	// Unpriv: give up root first
	Unpriv bool `json:"unpriv,omitempty"`
}

// remote is the child's side of the pipe protocol: one line to the coordinator,
// then wait for "G".
type remote struct {
	out *bufio.Writer
	in  *bufio.Reader
}

func (r *remote) send(format string, args ...any) {
	fmt.Fprintf(r.out, format+"\n", args...)
	r.out.Flush()
	if _, err := r.in.ReadString('\n'); err != nil {
		os.Exit(7)
	}
}

func (r *remote) acquiring(path string, delta int) { r.send("Q %s %d", path, delta) }
func (r *remote) register(th int, a acq)           { js, _ := json.Marshal(a); r.send("A %s", js) }
func (r *remote) criticalSection(a acq)            { r.send("S %s", a.Path) }
func (r *remote) releasing(th int, a acq)          { js, _ := json.Marshal(a); r.send("D %s", js) }
func (r *remote) closed(th int, a acq)             { js, _ := json.Marshal(a); r.send("C %s", js) }
func (r *remote) fail(msg string)                  { r.send("E %s", strings.ReplaceAll(msg, "\n", " ")) }

func pchildMain(spec pchildSpec) {
	r := &remote{out: bufio.NewWriter(os.Stdout), in: bufio.NewReader(os.Stdin)}
	os.Chdir(spec.Dir)
	if spec.Unpriv && os.Geteuid() == 0 {
		syscall.Setgroups(nil)
		if syscall.Setgid(65534) != nil || syscall.Setuid(65534) != nil {
			// not possible here: the scenario says nothing then (no acquisition is made)
			fmt.Fprintln(r.out, "F")
			r.out.Flush()
			return
		}
	}
	vos.Reset()
	vos.Hook = func(op *vos.Op) vos.Verdict {
		r.send("P %s %s", op.Kind, filepath.Base(op.Path))
		return vos.Verdict{}
	}
	vos.FlockHook = func(fd int, how int) error {
		mode := "SH"
		if how&syscall.LOCK_EX != 0 {
			mode = "EX"
		}
		r.send("P flock %s", mode)
		for {
			err := syscall.Flock(fd, how|syscall.LOCK_NB)
			if err == nil {
				return nil
			}
			if err != syscall.EWOULDBLOCK {
				return err
			}
			r.send("B %s", mode)
		}
	}
	for _, a := range spec.Prog {
		acquireOnce(r, spec.Dir, nil, spec.Th, a)
	}
	fmt.Fprintln(r.out, "F")
	r.out.Flush()
}

// proxy runs one holder as a child process and turns its messages into
// scheduler calls of the coordinating process.
func (in *instance) proxy(th int, prog []acq) {
	spec, _ := json.Marshal(pchildSpec{in.dir, th, prog, in.sc.unpriv()})
	cmd := exec.Command(os.Args[0], "-pchild", string(spec))
	stdin, _ := cmd.StdinPipe()
	stdout, _ := cmd.StdoutPipe()
	cmd.Stderr = os.Stderr
	if err := cmd.Start(); err != nil {
		kit.Harness("P-mode child: %v", err)
	}
	defer func() {
		stdin.Close()
		cmd.Wait()
	}()
	rd := bufio.NewReader(stdout)
	pendingBump := false
	for {
		line, err := rd.ReadString('\n')
		if err != nil {
			in.fail(fmt.Sprintf("thread %d: child process ended unexpectedly: %v", th, err))
			return
		}
		line = strings.TrimSuffix(line, "\n")
		if pendingBump {
			// the child's previous operation (an unlock or a close) has completed
			in.pgen++
			pendingBump = false
		}
		kind, rest, _ := strings.Cut(line, " ")
		switch kind {
		case "F":
			return
		case "P":
			k, obj, _ := strings.Cut(rest, " ")
			sched.Point(sched.Op{Kind: k, Obj: obj})
			if k == "funlock" || k == "close" {
				pendingBump = true
			}
		case "B":
			gen := in.pgen
			sched.Block(sched.Op{Kind: "flock-wait", Obj: rest}, func() bool { return in.pgen != gen })
		case "Q":
			var path string
			var d int
			fmt.Sscan(rest, &path, &d)
			in.acquiring(path, d)
		case "A", "D", "C":
			var a acq
			json.Unmarshal([]byte(rest), &a)
			switch kind {
			case "A":
				in.register(th, a)
			case "D":
				in.releasing(th, a)
			default:
				in.closed(th, a)
			}
		case "S":
			sched.Point(sched.Op{Kind: "critical-section", Obj: rest})
		case "E":
			in.fail(rest)
		}
		fmt.Fprintln(stdin, "G")
	}
}

type kase struct {
	Scenario scenario `json:"scenario"`
	Choices  []int    `json:"choices"`
	Trace    []string `json:"trace,omitempty"`
}

func judge(in *instance, e *sched.Exec) (string, string) {
	switch {
	case e.PanicVal != nil:
		return "panic", fmt.Sprintf("panic: %v\n%s", e.PanicVal, e.PanicStack)
	case e.Deadlock:
		return "deadlock", "deadlock: " + e.DeadlockAt
	case e.Livelock:
		return "livelock", e.LivelockWhy()
	}
	if in.viol != "" {
		if strings.Contains(in.viol, "still held afterwards") {
			return "not-released-by-close", in.viol
		}
		if strings.Contains(in.viol, "failed") {
			return "acquire-failed", in.viol
		}
		return "overlap", in.viol
	}
	return "", ""
}

var dirSeq int

// freshDir: executions that end in a violation leave their threads parked with
// descriptors and locks; every exploration and every replay therefore works in
// its own directory.
func freshDir(root string) string {
	dirSeq++
	d := filepath.Join(root, fmt.Sprintf("d%d-%d", os.Getpid(), dirSeq))
	os.MkdirAll(d, 0o777)
	return d
}

func runOnce(dir string, sc scenario, choices []int, trace bool) (*instance, *sched.Exec) {
	dir = freshDir(dir)
	in := &instance{sc: sc, dir: dir}
	e := sched.Run(in.body, sched.Options{Prefix: choices, Trace: trace, Horizon: 3000})
	vos.Reset()
	return in, e
}

type shardResult struct {
	Executions int64   `json:"executions"`
	Steps      int64   `json:"steps"`
	MaxDepth   int     `json:"max_depth"`
	Capped     bool    `json:"capped"`
	MaxShared  int     `json:"max_shared"`
	MaxPaths   int     `json:"max_paths"`
	Outcomes   int     `json:"outcomes"`
	Violations []kit.V `json:"violations"`
	Sample     []int   `json:"sample"`
	ReplayOK   bool    `json:"replay_ok"`
	ReplayDiff string  `json:"replay_diff,omitempty"`
}

func explore(r *kit.Run, dir string, sc scenario) shardResult {
	var res shardResult
	in := &instance{sc: sc, dir: freshDir(dir)}
	orders := map[string]bool{}
	x := &sched.Explorer{Body: func() { in.body() }, Bound: sc.Bound, Horizon: 3000, Stop: r.Expired}
	x.Check = func(e *sched.Exec) bool {
		vos.Reset()
		res.Steps += int64(e.Steps)
		class, what := judge(in, e)
		if class != "" {
			_, te := runOnce(dir, sc, e.Choices, true)
			res.Violations = append(res.Violations, kit.V{
				Key:  fmt.Sprintf("%s scenario=%q", class, sc.String()),
				What: fmt.Sprintf("%s: %s\nschedule: %s", sc, what, strings.Join(te.Trace, " | ")),
				Case: kase{sc, e.Choices, te.Trace},
			})
			return false
		}
		if in.maxShared > res.MaxShared {
			res.MaxShared = in.maxShared
		}
		if in.maxPaths > res.MaxPaths {
			res.MaxPaths = in.maxPaths
		}
		orders[fmt.Sprint(in.maxShared, in.maxPaths)] = true
		if res.Sample == nil && len(e.Choices) > 2 {
			res.Sample = append([]int(nil), e.Choices...)
		}
		return true
	}
	// the same schedule twice must give the same trace; a mismatch is tried again
	// (up to three times) before the scenario is called nondeterministic, and the
	// two traces are reported
	for attempt := 0; attempt < 3 && !res.ReplayOK; attempt++ {
		_, e1 := runOnce(dir, sc, nil, true)
		_, e2 := runOnce(dir, sc, e1.Choices, true)
		res.ReplayOK = e1.NoYield != "" || strings.Join(e1.Trace, "|") == strings.Join(e2.Trace, "|")
		if !res.ReplayOK {
			res.ReplayDiff = fmt.Sprintf("attempt %d\nfirst run:  %s\nsecond run: %s", attempt+1, strings.Join(e1.Trace, " | "), strings.Join(e2.Trace, " | "))
		}
	}
	x.Run()
	res.Executions, res.MaxDepth, res.Capped, res.Outcomes = x.Executions, x.MaxDepth, x.Capped, len(orders)
	// sharing must be reachable: otherwise read locks are exclusive
	if len(res.Violations) == 0 && !x.Capped {
		if want := expectShared(sc); want > res.MaxShared {
			res.Violations = append(res.Violations, kit.V{
				Key:  fmt.Sprintf("read-locks-not-shared scenario=%q", sc.String()),
				What: fmt.Sprintf("%s: in no explored execution did %d readers hold the file at the same time (max %d): read locks do not share", sc, want, res.MaxShared),
				Case: kase{Scenario: sc},
			})
		}
		if sc.Name == "independent-paths" && res.MaxPaths < 2 {
			res.Violations = append(res.Violations, kit.V{
				Key:  fmt.Sprintf("paths-not-independent scenario=%q", sc.String()),
				What: "locks on different paths were never held at the same time",
				Case: kase{Scenario: sc},
			})
		}
	}
	return res
}

// expectShared: the number of reader threads on path p if the scenario has no
// writer at all on p (then some interleaving has them all inside at once).
func expectShared(sc scenario) int {
	n := 0
	for _, t := range sc.Threads {
		for _, a := range t {
			if a.Path == "p" && a.writer() {
				return 0
			}
		}
		if len(t) > 0 && t[0].Path == "p" {
			n++
		}
	}
	if n < 2 {
		return 0
	}
	return n
}

func scenarios(th bool) []scenario {
	a := func(form, path string) acq { return acq{Form: form, Path: path} }
	d := func(form, path string) acq { return acq{Form: form, Path: path, Dup: true} }
	b2, b3 := -1, 3
	if th {
		b2, b3 = -1, 5
	}
	scs := []scenario{
		{"W||W", [][]acq{{a("edit", "p")}, {a("edit", "p")}}, b2, false},
		{"W||R", [][]acq{{a("edit", "p")}, {a("open", "p")}}, b2, false},
		{"R||R", [][]acq{{a("open", "p")}, {a("open", "p")}}, b2, false},
		{"R||R(rdonly)", [][]acq{{a("rdonly", "p")}, {a("open", "p")}}, b2, false},
		{"create||R", [][]acq{{a("create", "p")}, {a("open", "p")}}, b2, false},
		{"wronly||R", [][]acq{{a("wronly", "p")}, {a("open", "p")}}, b2, false},
		{"wronly||wronly", [][]acq{{a("wronly", "p")}, {a("wronly", "p")}}, b2, false},
		{"rdwr||rdonly", [][]acq{{a("rdwr", "p")}, {a("rdonly", "p")}}, b2, false},
		{"M||M two values", [][]acq{{a("mutex", "p")}, {a("mutex", "p")}}, b2, false},
		{"M||M shared value", [][]acq{{a("mutexShared", "p")}, {a("mutexShared", "p")}}, b2, false},
		{"M||W", [][]acq{{a("mutex", "p")}, {a("edit", "p")}}, b2, false},
		{"M||R", [][]acq{{a("mutex", "p")}, {a("open", "p")}}, b2, false},
		{"independent-paths", [][]acq{{a("edit", "p")}, {a("edit", "q")}}, b2, false},
		{"two-acquisitions", [][]acq{{a("edit", "p"), a("open", "p")}, {a("open", "p"), a("edit", "p")}}, b2, false},
		{"W+dup||W", [][]acq{{d("edit", "p")}, {a("edit", "p")}}, b2, false},
		{"R+dup||W", [][]acq{{d("open", "p")}, {a("wronly", "p")}}, b2, false},
		{"W||W with EINTR", [][]acq{{a("edit", "p")}, {a("edit", "p")}}, b2, true},
		{"W||R||R", [][]acq{{a("edit", "p")}, {a("open", "p")}, {a("open", "p")}}, b3, false},
		{"R||R||R", [][]acq{{a("open", "p")}, {a("rdonly", "p")}, {a("open", "p")}}, b3, false},
		{"W||W||R", [][]acq{{a("create", "p")}, {a("wronly", "p")}, {a("open", "p")}}, b3, false},
		{"M||M||M", [][]acq{{a("mutex", "p")}, {a("mutexShared", "p")}, {a("mutexShared", "p")}}, b3, false},
	}
	scs = append(scs, scenario{"M||M||M three values", [][]acq{{a("mutex", "p")}, {a("mutex", "p")}, {a("mutex", "p")}}, b3, false})
	scs = append(scs, scenario{"M||M||W", [][]acq{{a("mutex", "p")}, {a("mutex", "p")}, {a("edit", "p")}}, b3, false})
	// paths that are not regular files: a directory (Lock must refuse it or
	// exclude) and a FIFO (truncation fails there and is ignored; the lock must
	// still be held). Only O_RDWR forms: other opens of a FIFO block in the kernel.
	scs = append(scs,
		scenario{"M(dir)||M(dir)", [][]acq{{a("mutex", "d")}, {a("mutex", "d")}}, b2, false},
		scenario{"M(dir)||R(dir)", [][]acq{{a("mutex", "d")}, {a("open", "d")}}, b2, false},
		scenario{"create(fifo)||edit(fifo)", [][]acq{{a("create", "f")}, {a("edit", "f")}}, b2, false},
		scenario{"create(fifo)||create(fifo)", [][]acq{{a("create", "f")}, {a("create", "f")}}, b2, false},
		scenario{"rdwr+trunc(fifo)||rdwr(fifo)", [][]acq{{a(fmt.Sprintf("flags:%d", os.O_RDWR|os.O_TRUNC), "f")}, {a("rdwr", "f")}}, b2, false},
		scenario{"M(fifo)||create(fifo)", [][]acq{{a("mutex", "f")}, {a("create", "f")}}, b2, false})
	// a path that does not exist yet: the first holder creates it
	scs = append(scs,
		scenario{"M(new)||M(new)", [][]acq{{a("mutex", "n")}, {a("mutex", "n")}}, b2, false},
		scenario{"M(new)||M(new)||M(new)", [][]acq{{a("mutex", "n")}, {a("mutex", "n")}, {a("mutex", "n")}}, b3 + 1, false},
		scenario{"M(new);M(new)||M(new)", [][]acq{{a("mutex", "n"), a("mutex", "n")}, {a("mutex", "n")}}, b2, false},
		scenario{"create(new)||edit(new)||M(new)", [][]acq{{a("create", "n")}, {a("edit", "n")}, {a("mutex", "n")}}, b3, false},
		scenario{"edit(new)||edit(new)", [][]acq{{a("edit", "n")}, {a("edit", "n")}}, b2, false})
	// every combination of access mode and open flags a caller may legally pass:
	// write modes exclude a reader and another writer, read modes share
	fb := 2
	for _, mode := range []int{os.O_WRONLY, os.O_RDWR} {
		for mask := 0; mask < 16; mask++ {
			fl := mode
			for i, f := range []int{os.O_APPEND, os.O_CREATE, os.O_TRUNC, os.O_SYNC} {
				if mask&(1<<uint(i)) != 0 {
					fl |= f
				}
			}
			w := a(fmt.Sprintf("flags:%d", fl), "p")
			scs = append(scs,
				scenario{"flags||R", [][]acq{{w}, {a("open", "p")}}, fb, false},
				scenario{"flags||flags", [][]acq{{w}, {w}}, fb, false})
		}
	}
	for _, fl := range []int{os.O_RDONLY | os.O_CREATE, os.O_RDONLY | os.O_SYNC, os.O_RDONLY | os.O_APPEND} {
		rd := a(fmt.Sprintf("flags:%d", fl), "p")
		scs = append(scs, scenario{"R(flags)||R", [][]acq{{rd}, {a("open", "p")}}, fb, false},
			scenario{"R(flags)||W", [][]acq{{rd}, {a("edit", "p")}}, fb, false})
	}
	// O_CREATE|O_EXCL: the caller that creates the file holds it write-locked
	// like any other writer; at an existing path the call fails and holds nothing
	for _, mode := range []int{os.O_WRONLY, os.O_RDWR} {
		ex := a(fmt.Sprintf("flags:%d", mode|os.O_CREATE|os.O_EXCL), "n")
		exT := a(fmt.Sprintf("flags:%d", mode|os.O_CREATE|os.O_EXCL|os.O_TRUNC), "n")
		scs = append(scs,
			scenario{"excl(new)||R(new)", [][]acq{{ex}, {a("open", "n")}}, fb, false},
			scenario{"excl(new)||edit(new)", [][]acq{{ex}, {a("edit", "n")}}, fb, false},
			scenario{"excl(new)||excl(new)", [][]acq{{ex}, {ex}}, fb, false},
			scenario{"excl(new)||M(new)", [][]acq{{ex}, {a("mutex", "n")}}, fb, false},
			scenario{"excl+trunc(new)||create(new)", [][]acq{{exT}, {a("create", "n")}}, fb, false},
			scenario{"excl(existing)||W", [][]acq{{a(fmt.Sprintf("flags:%d", mode|os.O_CREATE|os.O_EXCL), "p")}, {a("edit", "p")}}, fb, false})
	}
	// one path string that the kernel and a lexical clean-up read differently
	scs = append(scs,
		scenario{"M(link/..)||edit(link/..)", [][]acq{{a("mutex", "s")}, {a("edit", "s")}}, fb, false},
		scenario{"M(link/..)||R(link/..)", [][]acq{{a("mutex", "s")}, {a("open", "s")}}, fb, false},
		scenario{"edit(link/..)||create(link/..)", [][]acq{{a("edit", "s")}, {a("create", "s")}}, fb, false},
		scenario{"M(link/..)||M(link/..)", [][]acq{{a("mutex", "s")}, {a("mutex", "s")}}, fb, false})
	// P-mode: the same holders as separate OS processes (no shared *Mutex value there)
	pb := 2
	if th {
		pb = 4 // every execution starts two processes: all schedules of ~40 scenarios do not fit the cap
	}
	var ps []scenario
	for _, sc := range scs {
		if len(sc.Threads) != 2 || sc.EINTR || strings.Contains(sc.Name, "shared") {
			continue
		}
		if !th && !(sc.Name == "W||W" || sc.Name == "W||R" || sc.Name == "R||R" || sc.Name == "M||M two values" || sc.Name == "wronly||R" || sc.Name == "W+dup||W" || sc.Name == "create||R" || sc.Name == "M||R") {
			continue
		}
		b := pb
		if th && (strings.HasPrefix(sc.Name, "flags") || strings.HasPrefix(sc.Name, "R(flags)")) {
			b = 2 // 70 scenarios with real processes: all schedules of each do not fit the cap
		}
		ps = append(ps, scenario{sc.Name + pmodeTag, sc.Threads, b, false})
	}
	// relative paths, and a garbage collection while the lock is held
	rg := func(form string) acq { return acq{Form: form, Path: "p", Rel: true, GC: true} }
	for _, t := range [][][]acq{{{rg("edit")}, {a("edit", "p")}}, {{rg("mutex")}, {a("mutex", "p")}}, {{rg("open")}, {a("edit", "p")}}, {{rg("create")}, {rg("edit")}}} {
		sc := scenario{fmt.Sprintf("%s(relative path, GC)||%s", t[0][0].Form, t[1][0].Form), t, 2, false}
		scs = append(scs, sc)
		ps = append(ps, scenario{sc.Name + pmodeTag, t, 1, false})
	}
	// a lock file that the holders may read but not write (they give up root first)
	for _, t := range [][][]acq{{{a("mutex", "r")}, {a("mutex", "r")}}, {{a("mutex", "r")}, {a("open", "r")}}, {{a("edit", "r")}, {a("open", "r")}}, {{a("open", "r")}, {a("open", "r")}}} {
		ps = append(ps, scenario{fmt.Sprintf("%s(read-only file)||%s(read-only file)", t[0][0].Form, t[1][0].Form) + unprivTag + pmodeTag, t, -1, false})
	}
	return append(scs, ps...)
}

var pchildFlag = flag.String("pchild", "", "internal: run one holder as a P-mode child process")

func main() {
	r := kit.Start("C06", "model_checking")
	if *pchildFlag != "" {
		var spec pchildSpec
		if err := json.Unmarshal([]byte(*pchildFlag), &spec); err != nil {
			os.Exit(8)
		}
		pchildMain(spec)
		return
	}
	root, err := os.MkdirTemp(os.Getenv("VERIF_SCRATCH"), "c06")
	if err != nil {
		kit.Harness("mkdtemp: %v", err)
	}
	if !kit.IsWorker() {
		defer os.RemoveAll(root)
	}
	r.Replayer = func(raw json.RawMessage) []kit.V {
		var c kase
		if err := json.Unmarshal(raw, &c); err != nil {
			kit.Harness("bad case: %v", err)
		}
		if c.Choices == nil && c.Trace == nil {
			// reachability-type violation: re-explore the scenario
			res := explore(r, root, c.Scenario)
			return res.Violations
		}
		in, e := runOnce(root, c.Scenario, c.Choices, true)
		class, what := judge(in, e)
		if class == "" {
			return nil
		}
		return []kit.V{{Key: fmt.Sprintf("%s scenario=%q", class, c.Scenario.String()), What: what + "\nschedule: " + strings.Join(e.Trace, " | "), Case: c}}
	}
	r.MaybeReplay()
	scs := scenarios(r.Thorough())
	var tot shardResult
	var per []string
	var pmodeExecs int64
	r.JobName = func(j int) string { return fmt.Sprintf("scenario %v", scs[j]) }
	r.Sharded(len(scs), func(job int) any {
		res := explore(r, root, scs[job])
		return res
	}, func(job int, raw json.RawMessage) {
		var sr shardResult
		if err := json.Unmarshal(raw, &sr); err != nil {
			kit.Harness("shard result: %v", err)
		}
		if !sr.ReplayOK {
			kit.Harness("nondeterministic replay in scenario %s\n%s", scs[job], sr.ReplayDiff)
		}
		tot.Executions += sr.Executions
		if scs[job].pmode() {
			pmodeExecs += sr.Executions
		}
		tot.Steps += sr.Steps
		tot.Capped = tot.Capped || sr.Capped
		if sr.MaxDepth > tot.MaxDepth {
			tot.MaxDepth = sr.MaxDepth
		}
		for _, v := range sr.Violations {
			r.Violation(v.Key, v.What, v.Case)
		}
		per = append(per, fmt.Sprintf("%s: executions=%d most-readers-at-once=%d", scs[job], sr.Executions, sr.MaxShared))
		if sr.Sample != nil && job%5 == 0 {
			r.Sample(map[string]any{"scenario": scs[job].String(), "choices": sr.Sample})
		}
	})
	if kit.IsWorker() {
		os.RemoveAll(root)
	}
	sort.Strings(per)
	r.Set("states", tot.Steps)
	r.Set("transitions", tot.Steps)
	r.Set("traces_validated_against_impl", tot.Executions)
	r.Set("executions", tot.Executions)
	r.Set("executions_with_one_os_process_per_holder", pmodeExecs)
	r.Set("scenarios", per)
	r.Set("max_decisions_in_one_execution", tot.MaxDepth)
	r.Set("exhaustive", !tot.Capped && !r.Capped())
	r.Set("explanation", "stateless exploration (no state keys: the kernel's lock table is part of the state): every schedule of the listed holders within the preemption bound is executed on the real lockedfile/filelock code against the real flock(2); states is reported as the number of scheduling steps visited (= transitions)")
	r.Assume("in most scenarios threads with private descriptors stand for processes (flock locks belong to the open file description); the scenarios tagged [one process per holder] re-explore the two-holder cases with every holder in its own OS process, driven over pipes by the same scheduler (P-mode), which binds that assumption to the kernel")
	r.Assume("scheduling points at every open/flock/unlock/truncate/stat/close of the instrumented packages; a busy flock disables the thread until some unlock or close happened, then the kernel is asked again")
	r.Finish()
}

func boundName(b int) string {
	if b < 0 {
		return "all schedules"
	}
	return fmt.Sprintf("preemptions<=%d", b)
}
