#!/usr/bin/env python3
"""Regenerates MANIFEST.json from manifest_src.json (one entry per property) so the
file is always schema-valid: properties without a built check go to not_applicable."""
import json, os, sys
root = os.path.dirname(os.path.abspath(__file__))
src = json.load(open(os.path.join(root, 'manifest_src.json')))
props = [json.loads(l) for l in open(os.path.join(root, 'properties.jsonl'))]
checks, na = [], []
for p in props:
    pid = p['id']
    e = src['checks'].get(pid)
    if e and os.path.isdir(os.path.join(root, 'checks', pid.lower())):
        checks.append({
            "property_id": pid,
            "quick_cmd": f"./check {pid} --tier quick",
            "thorough_cmd": f"./check {pid} --tier thorough",
            "evidence_file": f"/verif/evidence/{pid}.json",
            "replay_cmd_template": f"./check {pid} --replay {{path}}",
            "engine": e["engine"],
            "level_claimed": {"category": e["level"], "text": e["text"], "design_ref": f"DESIGN.md section 6, {pid}"},
            "level_note": e["note"],
            "technique": e["technique"],
        })
    else:
        na.append({"property_id": pid, "reason": src.get("pending_reason", "check not built yet in this tree; the design for it is in DESIGN.md section 6")})
m = {
    "version": 1,
    "setup_cmd": "./setup.sh",
    "hooks": src["hooks"],
    "engines": src["engines"],
    "checks": checks,
    "notes": src["notes"],
    "not_applicable": na,
}
json.dump(m, open(os.path.join(root, 'MANIFEST.json'), 'w'), indent=1)
print(f"{len(checks)} checks, {len(na)} not_applicable")
