// Package vrand stands in for "math/rand": every draw is a data choice point of
// the explorer; free-running it is the real generator.
package vrand

import (
	"math/rand"

	"verif/sched"
)

func Intn(n int) int {
	if !sched.Active() {
		return rand.Intn(n)
	}
	if n <= 0 {
		panic("invalid argument to Intn")
	}
	return sched.Choose(n, "rand.Intn")
}

func Int() int {
	if !sched.Active() {
		return rand.Int()
	}
	return sched.Choose(2, "rand.Int")
}

func Int63() int64         { return int64(Int()) }
func Int31n(n int32) int32 { return int32(Intn(int(n))) }
func Int63n(n int64) int64 { return int64(Intn(int(n))) }
func Float64() float64     { return float64(Intn(2)) / 2 }

func Perm(n int) []int {
	if !sched.Active() {
		return rand.Perm(n)
	}
	p := make([]int, n)
	for i := range p {
		p[i] = i
	}
	for i := n - 1; i > 0; i-- {
		j := sched.Choose(i+1, "rand.Perm")
		p[i], p[j] = p[j], p[i]
	}
	return p
}

func Shuffle(n int, swap func(i, j int)) {
	if !sched.Active() {
		rand.Shuffle(n, swap)
		return
	}
	for i := n - 1; i > 0; i-- {
		swap(i, sched.Choose(i+1, "rand.Shuffle"))
	}
}

func Seed(int64) {}
