// Package vcontext stands in for "context" in functions extracted onto the
// virtual runtime: expiry is an event the explorer schedules. The context of
// the modelled world is the root; contexts derived from it (WithCancel,
// WithTimeout) expire with their parent, when cancelled, or when the explorer
// schedules their timer.
package vcontext

import (
	"context"
	"time"

	"verif/sched"
	"verif/virt/vrt"
)

type Context interface {
	Done() *vrt.Chan[struct{}]
	Err() error
}

type CancelFunc func()

var (
	Canceled         = context.Canceled
	DeadlineExceeded = context.DeadlineExceeded
)

type ctx struct{}

func (ctx) Done() *vrt.Chan[struct{}] { return vrt.W().CtxDone }
func (ctx) Err() error                { return vrt.W().CtxErr }

// Current returns the context of the modelled world.
func Current() Context { return ctx{} }

// never is a context that is never done.
type never struct{ c *vrt.Chan[struct{}] }

func (n never) Done() *vrt.Chan[struct{}] { return n.c }
func (never) Err() error                  { return nil }

func Background() Context { return never{vrt.NewChan[struct{}](0)} }
func TODO() Context       { return never{vrt.NewChan[struct{}](0)} }

// derived is a context made by WithCancel / WithTimeout.
type derived struct {
	done *vrt.Chan[struct{}]
	err  error
	kids []*derived
}

func (d *derived) Done() *vrt.Chan[struct{}] { return d.done }
func (d *derived) Err() error                { return d.err }

func (d *derived) finish(err error) {
	if d.err != nil {
		return
	}
	d.err = err
	d.done.Close()
	for _, k := range d.kids {
		k.finish(err)
	}
}

// rootKids are the contexts derived directly from the world's context.
func rootKids() *[]*derived {
	w := vrt.W()
	if w.CtxKids == nil {
		w.CtxKids = &[]*derived{}
	}
	return w.CtxKids.(*[]*derived)
}

// RootExpired is called by the harness right after the world's context has
// expired: contexts derived from it expire too.
func RootExpired() {
	for _, k := range *rootKids() {
		k.finish(vrt.W().CtxErr)
	}
}

func derive(parent Context) *derived {
	d := &derived{done: vrt.NewChan[struct{}](0)}
	switch p := parent.(type) {
	case ctx:
		kids := rootKids()
		*kids = append(*kids, d)
	case *derived:
		p.kids = append(p.kids, d)
	}
	if err := parent.Err(); err != nil {
		d.finish(err)
	}
	return d
}

func WithCancel(parent Context) (Context, CancelFunc) {
	d := derive(parent)
	return d, func() { d.finish(Canceled) }
}

// WithTimeout: the timeout is a timer of the modelled world (it is logged like
// one); when it fires is the explorer's choice.
func WithTimeout(parent Context, _ time.Duration) (Context, CancelFunc) {
	d := derive(parent)
	if d.err != nil {
		return d, func() {}
	}
	w := vrt.W()
	w.Log = append(w.Log, "timer-created")
	sched.Go("timer-fires", func() {
		sched.Block(sched.Op{Kind: "event", Obj: "timer-fires"}, func() bool { return true })
		if d.err != nil {
			return
		}
		w.Log = append(w.Log, "timer-fired")
		d.finish(DeadlineExceeded)
	})
	return d, func() { d.finish(Canceled) }
}

// AfterFunc runs f in its own goroutine once c is done.
func AfterFunc(c Context, f func()) (stop func() bool) {
	stopped, started := false, false
	sched.Go("after-func", func() {
		sched.Block(sched.Op{Kind: "event", Obj: "after-func"}, func() bool { return stopped || c.Err() != nil })
		if stopped {
			return
		}
		started = true
		f()
	})
	return func() bool {
		if started || stopped {
			return false
		}
		stopped = true
		return true
	}
}
