// Package vcontext stands in for "context" in functions extracted onto the
// virtual runtime: expiry is an event the explorer schedules.
package vcontext

import "verif/virt/vrt"

type Context interface {
	Done() *vrt.Chan[struct{}]
	Err() error
}

type ctx struct{}

func (ctx) Done() *vrt.Chan[struct{}] { return vrt.W().CtxDone }
func (ctx) Err() error                { return vrt.W().CtxErr }

// Current returns the context of the modelled world.
func Current() Context { return ctx{} }
