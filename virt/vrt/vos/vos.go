// Package vos stands in for "os" in functions extracted onto the virtual
// runtime: one modelled child process.
package vos

import (
	"errors"
	"os"

	"verif/sched"
	"verif/virt/vrt"
)

type Signal = os.Signal

var (
	Interrupt      Signal = os.Interrupt
	Kill           Signal = os.Kill
	ErrProcessDone        = os.ErrProcessDone
)

type Process struct{ Pid int }

func (p *Process) Signal(sig Signal) error {
	sched.Point(sched.Op{Kind: "proc", Obj: "signal " + sig.String()})
	w := vrt.W()
	ps := &w.Proc
	if ps.Reaped {
		w.Log = append(w.Log, "signal-to-reaped:"+sig.String())
		return ErrProcessDone
	}
	ps.SignalsSent = append(ps.SignalsSent, sig.String())
	w.Log = append(w.Log, "signal:"+sig.String())
	if ps.Exited {
		return nil // a zombie accepts signals
	}
	if sig == Kill {
		ps.Killed = true
		ps.Exited = true
		return nil
	}
	ps.Interrupted = true
	return nil
}

func (p *Process) Kill() error { return p.Signal(Kill) }

// ProcessState is what is known about the modelled process once it was waited for.
type ProcessState struct{ ok, killed bool }

func (p *ProcessState) Success() bool { return p != nil && p.ok && !p.killed }
func (p *ProcessState) Exited() bool  { return p != nil && !p.killed }
func (p *ProcessState) Pid() int      { return 1 }
func (p *ProcessState) ExitCode() int {
	switch {
	case p == nil || p.killed:
		return -1
	case p.ok:
		return 0
	}
	return 1
}
func (p *ProcessState) String() string {
	switch {
	case p == nil:
		return "<nil>"
	case p.killed:
		return "signal: killed"
	case p.ok:
		return "exit status 0"
	}
	return "exit status 1"
}

// State returns the state of the modelled process after Wait.
func State() *ProcessState {
	ps := &vrt.W().Proc
	return &ProcessState{ok: ps.ExitOK, killed: ps.Killed}
}

var errExit = errors.New("exit status 1")
var errKilled = errors.New("signal: killed")

// WaitResult is what cmd.Wait returns for the modelled process.
func WaitResult() error {
	ps := &vrt.W().Proc
	switch {
	case ps.Killed:
		return errKilled
	case ps.ExitOK:
		return nil
	}
	return errExit
}
