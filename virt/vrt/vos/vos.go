// Package vos stands in for "os" in functions extracted onto the virtual
// runtime: one modelled child process.
package vos

import (
	"errors"
	"os"

	"verif/sched"
	"verif/virt/vrt"
)

type Signal = os.Signal

var (
	Interrupt      Signal = os.Interrupt
	Kill           Signal = os.Kill
	ErrProcessDone        = os.ErrProcessDone
)

type Process struct{ Pid int }

func (p *Process) Signal(sig Signal) error {
	sched.Point(sched.Op{Kind: "proc", Obj: "signal " + sig.String()})
	w := vrt.W()
	ps := &w.Proc
	if ps.Reaped {
		w.Log = append(w.Log, "signal-to-reaped:"+sig.String())
		return ErrProcessDone
	}
	ps.SignalsSent = append(ps.SignalsSent, sig.String())
	w.Log = append(w.Log, "signal:"+sig.String())
	if ps.Exited {
		return nil // a zombie accepts signals
	}
	if sig == Kill {
		ps.Killed = true
		ps.Exited = true
		return nil
	}
	ps.Interrupted = true
	return nil
}

func (p *Process) Kill() error { return p.Signal(Kill) }

var errExit = errors.New("exit status 1")
var errKilled = errors.New("signal: killed")

// WaitResult is what cmd.Wait returns for the modelled process.
func WaitResult() error {
	ps := &vrt.W().Proc
	switch {
	case ps.Killed:
		return errKilled
	case ps.ExitOK:
		return nil
	}
	return errExit
}
