// Package vrt is the virtual runtime of engine X: channels, select and
// goroutine creation as scheduler-visible operations. vinstr rewrites the
// channel / go / select syntax of an extracted function onto this package.
package vrt

import (
	"fmt"

	"verif/sched"
)

var chanSeq int

// Reset restarts object naming (call at the start of every execution).
func Reset() { chanSeq = 0; world = &World{} }

type core struct {
	name   string
	cap    int
	buf    []any
	closed bool
	sendq  []*selCase
	recvq  []*selCase
}

type waiter struct {
	fired int // index of the case that completed, -1 while waiting
	val   any
	ok    bool
	cases []*selCase
}

type selCase struct {
	c    *core
	send bool
	val  any
	w    *waiter
	idx  int
}

// Chan is a typed view of a virtual channel.
type Chan[T any] struct{ c *core }

func NewChan[T any](n int) *Chan[T] {
	chanSeq++
	return &Chan[T]{&core{name: fmt.Sprintf("chan#%d", chanSeq), cap: n}}
}

func (c *Chan[T]) VerifDump() string {
	if c == nil {
		return "nilchan"
	}
	return fmt.Sprintf("%s{buf=%v closed=%v sendq=%d recvq=%d}", c.c.name, c.c.buf, c.c.closed, len(c.c.sendq), len(c.c.recvq))
}

// Case is one arm of a select.
type Case struct {
	c    *core
	send bool
	val  any
}

func SendCase[T any](c *Chan[T], v T) Case { return Case{c.c, true, v} }
func RecvCase[T any](c *Chan[T]) Case      { return Case{c.c, false, nil} }

// Cast converts a value received through Select to the channel's element type.
func Cast[T any](c *Chan[T], v any) T {
	if v == nil {
		var z T
		return z
	}
	return v.(T)
}

func ready(k *Case) bool {
	c := k.c
	if c == nil {
		return false // nil channel: never ready
	}
	if k.send {
		return c.closed || len(c.buf) < c.cap || len(c.recvq) > 0
	}
	return len(c.buf) > 0 || c.closed || len(c.sendq) > 0
}

func dequeue(w *waiter) {
	for _, sc := range w.cases {
		q := &sc.c.recvq
		if sc.send {
			q = &sc.c.sendq
		}
		for i, x := range *q {
			if x == sc {
				*q = append((*q)[:i:i], (*q)[i+1:]...)
				break
			}
		}
	}
}

func fire(sc *selCase, v any, ok bool) {
	sc.w.fired, sc.w.val, sc.w.ok = sc.idx, v, ok
	dequeue(sc.w)
}

// perform completes a ready case for the running thread.
func perform(k *Case) (any, bool) {
	c := k.c
	if k.send {
		if c.closed {
			panic("send on closed channel")
		}
		if len(c.recvq) > 0 {
			fire(c.recvq[0], k.val, true)
			return nil, true
		}
		c.buf = append(c.buf, k.val)
		return nil, true
	}
	if len(c.buf) > 0 {
		v := c.buf[0]
		c.buf = c.buf[1:]
		if len(c.sendq) > 0 {
			s := c.sendq[0]
			c.buf = append(c.buf, s.val)
			fire(s, nil, true)
		}
		return v, true
	}
	if len(c.sendq) > 0 {
		s := c.sendq[0]
		v := s.val
		fire(s, nil, true)
		return v, true
	}
	return nil, false // closed
}

// Select performs a select statement. It returns the index of the chosen case
// (len(cases) for default), the received value and ok flag.
func Select(hasDefault bool, cases ...Case) (int, any, bool) {
	desc := "select"
	if len(cases) == 1 && !hasDefault {
		if cases[0].send {
			desc = "send"
		} else {
			desc = "recv"
		}
		if cases[0].c != nil {
			desc += " " + cases[0].c.name
		}
	}
	sched.Point(sched.Op{Kind: "chan", Obj: desc})
	var rdy []int
	for i := range cases {
		if ready(&cases[i]) {
			rdy = append(rdy, i)
		}
	}
	if len(rdy) > 0 {
		// Go picks uniformly among the ready cases: a data choice
		i := rdy[sched.Choose(len(rdy), "select-ready")]
		v, ok := perform(&cases[i])
		sched.Observe(fmt.Sprintf("sel:%d:%v", i, ok))
		return i, v, ok
	}
	if hasDefault {
		sched.Observe("sel:default")
		return len(cases), nil, false
	}
	w := &waiter{fired: -1}
	for i := range cases {
		if cases[i].c == nil {
			continue
		}
		sc := &selCase{c: cases[i].c, send: cases[i].send, val: cases[i].val, w: w, idx: i}
		w.cases = append(w.cases, sc)
		if sc.send {
			sc.c.sendq = append(sc.c.sendq, sc)
		} else {
			sc.c.recvq = append(sc.c.recvq, sc)
		}
	}
	sched.Block(sched.Op{Kind: "chan-wait", Obj: desc}, func() bool { return w.fired >= 0 })
	sched.Observe(fmt.Sprintf("sel:%d:%v", w.fired, w.ok))
	return w.fired, w.val, w.ok
}

func (c *Chan[T]) Send(v T) { Select(false, SendCase(c, v)) }

func (c *Chan[T]) Recv() T {
	_, v, _ := Select(false, RecvCase(c))
	return Cast(c, v)
}

func (c *Chan[T]) Recv2() (T, bool) {
	_, v, ok := Select(false, RecvCase(c))
	return Cast(c, v), ok
}

func (c *Chan[T]) Close() {
	sched.Point(sched.Op{Kind: "chan", Obj: "close " + c.c.name})
	if c.c.closed {
		panic("close of closed channel")
	}
	c.c.closed = true
	for len(c.c.recvq) > 0 {
		fire(c.c.recvq[0], nil, false)
	}
	if len(c.c.sendq) > 0 {
		panic("send on closed channel")
	}
}

func (c *Chan[T]) Len() int { return len(c.c.buf) }
func (c *Chan[T]) Cap() int { return c.c.cap }

// Go starts a scheduler thread.
func Go(name string, f func()) { sched.Go(name, f) }

// ---------- the modelled world: context, timers, one process ----------

// World is the environment of one execution; the harness configures it before
// calling the extracted function, the virtual packages act on it.
type World struct {
	// context
	CtxDone    *Chan[struct{}]
	CtxErr     error
	CtxExpired bool
	CtxKids    any // contexts derived from the world's context (package vcontext)
	// process
	Proc ProcState
	// timers
	Timers []*TimerState
	// log of environment-relevant actions, in order
	Log []string
}

type ProcState struct {
	Behaviour   string // E exits by itself; I exits (status from ExitOK) after the interrupt; G ignores the interrupt
	ExitOK      bool   // status 0 when it exits on its own / after the interrupt
	Exited      bool
	Reaped      bool
	Killed      bool
	Interrupted bool // an interrupt was delivered while it was still running
	SignalsSent []string
	WaitCalled  bool
}

type TimerState struct {
	C       *Chan[Time]
	Stopped bool
	Fired   bool
}

// Time is the virtual time value sent on timer channels.
type Time struct{ T int }

var world = &World{}

// W returns the current world.
func W() *World { return world }

// CanExit reports whether the process-exit event is enabled.
func (p *ProcState) CanExit() bool {
	if p.Exited {
		return false
	}
	switch p.Behaviour {
	case "E":
		return true
	case "I":
		return p.Interrupted
	}
	return false
}

func (w *World) VerifDump() string {
	return fmt.Sprintf("ctx=%v proc=%+v timers=%d log=%v", w.CtxExpired, w.Proc, len(w.Timers), w.Log)
}
