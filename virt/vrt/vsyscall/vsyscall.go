// Package vsyscall stands in for "syscall" (signal names only).
package vsyscall

import "syscall"

const (
	SIGQUIT = syscall.SIGQUIT
	SIGINT  = syscall.SIGINT
	SIGKILL = syscall.SIGKILL
)
