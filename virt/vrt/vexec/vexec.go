// Package vexec stands in for "os/exec".
package vexec

import (
	"verif/sched"
	"verif/virt/vrt"
	"verif/virt/vrt/vos"
)

type Cmd struct {
	Process      *vos.Process
	ProcessState *vos.ProcessState // set by Wait
}

// Wait blocks until the modelled process has exited, reaps it and returns its status.
func (c *Cmd) Wait() error {
	w := vrt.W()
	w.Proc.WaitCalled = true
	sched.Block(sched.Op{Kind: "proc", Obj: "wait"}, func() bool { return w.Proc.Exited })
	w.Proc.Reaped = true
	w.Log = append(w.Log, "reaped")
	c.ProcessState = vos.State()
	return vos.WaitResult()
}
