// Package vtime stands in for "time": a timer fires when the explorer schedules
// its firing event.
package vtime

import (
	"time"

	"verif/sched"
	"verif/virt/vrt"
)

type Duration = time.Duration

const (
	Nanosecond  = time.Nanosecond
	Microsecond = time.Microsecond
	Millisecond = time.Millisecond
	Second      = time.Second
)

type Timer struct {
	C  *vrt.Chan[vrt.Time]
	st *vrt.TimerState
}

func NewTimer(d Duration) *Timer {
	st := &vrt.TimerState{C: vrt.NewChan[vrt.Time](1)}
	w := vrt.W()
	w.Timers = append(w.Timers, st)
	w.Log = append(w.Log, "timer-created")
	// the firing event: enabled as long as the timer is neither stopped nor fired
	sched.Go("timer-fires", func() {
		sched.Block(sched.Op{Kind: "event", Obj: "timer-fires"}, func() bool { return true })
		if st.Stopped {
			return
		}
		st.Fired = true
		w.Log = append(w.Log, "timer-fired")
		st.C.Send(vrt.Time{T: 1})
	})
	return &Timer{C: st.C, st: st}
}

func (t *Timer) Stop() bool {
	active := !t.st.Stopped && !t.st.Fired
	t.st.Stopped = true
	return active
}
