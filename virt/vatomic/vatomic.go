// Package vatomic stands in for "sync/atomic": every operation is a scheduling
// point, sequentially consistent (as Go specifies), then the real operation.
package vatomic

import (
	"fmt"
	"sync/atomic"

	"verif/sched"
)

func pt(kind string) { sched.Point(sched.Op{Kind: kind, Obj: "atomic"}) }

func obs(v any) { sched.Observe(fmt.Sprint("a:", v)) }

func LoadInt32(p *int32) int32        { pt("atomic-load"); v := atomic.LoadInt32(p); obs(v); return v }
func LoadInt64(p *int64) int64        { pt("atomic-load"); v := atomic.LoadInt64(p); obs(v); return v }
func LoadUint32(p *uint32) uint32     { pt("atomic-load"); v := atomic.LoadUint32(p); obs(v); return v }
func LoadUint64(p *uint64) uint64     { pt("atomic-load"); v := atomic.LoadUint64(p); obs(v); return v }
func StoreInt32(p *int32, v int32)    { pt("atomic-store"); atomic.StoreInt32(p, v) }
func StoreInt64(p *int64, v int64)    { pt("atomic-store"); atomic.StoreInt64(p, v) }
func StoreUint32(p *uint32, v uint32) { pt("atomic-store"); atomic.StoreUint32(p, v) }
func StoreUint64(p *uint64, v uint64) { pt("atomic-store"); atomic.StoreUint64(p, v) }
func AddInt32(p *int32, d int32) int32 {
	pt("atomic-add")
	v := atomic.AddInt32(p, d)
	obs(v)
	return v
}
func AddInt64(p *int64, d int64) int64 {
	pt("atomic-add")
	v := atomic.AddInt64(p, d)
	obs(v)
	return v
}
func AddUint32(p *uint32, d uint32) uint32 {
	pt("atomic-add")
	v := atomic.AddUint32(p, d)
	obs(v)
	return v
}
func AddUint64(p *uint64, d uint64) uint64 {
	pt("atomic-add")
	v := atomic.AddUint64(p, d)
	obs(v)
	return v
}
func SwapInt32(p *int32, n int32) int32 {
	pt("atomic-swap")
	v := atomic.SwapInt32(p, n)
	obs(v)
	return v
}
func SwapInt64(p *int64, n int64) int64 {
	pt("atomic-swap")
	v := atomic.SwapInt64(p, n)
	obs(v)
	return v
}
func SwapUint32(p *uint32, n uint32) uint32 {
	pt("atomic-swap")
	v := atomic.SwapUint32(p, n)
	obs(v)
	return v
}
func SwapUint64(p *uint64, n uint64) uint64 {
	pt("atomic-swap")
	v := atomic.SwapUint64(p, n)
	obs(v)
	return v
}
func CompareAndSwapInt32(p *int32, o, n int32) bool {
	pt("atomic-cas")
	v := atomic.CompareAndSwapInt32(p, o, n)
	obs(v)
	return v
}
func CompareAndSwapInt64(p *int64, o, n int64) bool {
	pt("atomic-cas")
	v := atomic.CompareAndSwapInt64(p, o, n)
	obs(v)
	return v
}
func CompareAndSwapUint32(p *uint32, o, n uint32) bool {
	pt("atomic-cas")
	v := atomic.CompareAndSwapUint32(p, o, n)
	obs(v)
	return v
}
func CompareAndSwapUint64(p *uint64, o, n uint64) bool {
	pt("atomic-cas")
	v := atomic.CompareAndSwapUint64(p, o, n)
	obs(v)
	return v
}

type Int32 struct{ v atomic.Int32 }

func (x *Int32) Load() int32        { pt("atomic-load"); v := x.v.Load(); obs(v); return v }
func (x *Int32) Store(n int32)      { pt("atomic-store"); x.v.Store(n) }
func (x *Int32) Add(d int32) int32  { pt("atomic-add"); v := x.v.Add(d); obs(v); return v }
func (x *Int32) Swap(n int32) int32 { pt("atomic-swap"); v := x.v.Swap(n); obs(v); return v }
func (x *Int32) CompareAndSwap(o, n int32) bool {
	pt("atomic-cas")
	v := x.v.CompareAndSwap(o, n)
	obs(v)
	return v
}
func (x *Int32) VerifDump() string { return fmt.Sprint(x.v.Load()) }

type Int64 struct{ v atomic.Int64 }

func (x *Int64) Load() int64        { pt("atomic-load"); v := x.v.Load(); obs(v); return v }
func (x *Int64) Store(n int64)      { pt("atomic-store"); x.v.Store(n) }
func (x *Int64) Add(d int64) int64  { pt("atomic-add"); v := x.v.Add(d); obs(v); return v }
func (x *Int64) Swap(n int64) int64 { pt("atomic-swap"); v := x.v.Swap(n); obs(v); return v }
func (x *Int64) CompareAndSwap(o, n int64) bool {
	pt("atomic-cas")
	v := x.v.CompareAndSwap(o, n)
	obs(v)
	return v
}
func (x *Int64) VerifDump() string { return fmt.Sprint(x.v.Load()) }

type Uint32 struct{ v atomic.Uint32 }

func (x *Uint32) Load() uint32         { pt("atomic-load"); v := x.v.Load(); obs(v); return v }
func (x *Uint32) Store(n uint32)       { pt("atomic-store"); x.v.Store(n) }
func (x *Uint32) Add(d uint32) uint32  { pt("atomic-add"); v := x.v.Add(d); obs(v); return v }
func (x *Uint32) Swap(n uint32) uint32 { pt("atomic-swap"); v := x.v.Swap(n); obs(v); return v }
func (x *Uint32) CompareAndSwap(o, n uint32) bool {
	pt("atomic-cas")
	v := x.v.CompareAndSwap(o, n)
	obs(v)
	return v
}
func (x *Uint32) VerifDump() string { return fmt.Sprint(x.v.Load()) }

type Bool struct{ v atomic.Bool }

func (x *Bool) Load() bool       { pt("atomic-load"); v := x.v.Load(); obs(v); return v }
func (x *Bool) Store(n bool)     { pt("atomic-store"); x.v.Store(n) }
func (x *Bool) Swap(n bool) bool { pt("atomic-swap"); v := x.v.Swap(n); obs(v); return v }
func (x *Bool) CompareAndSwap(o, n bool) bool {
	pt("atomic-cas")
	v := x.v.CompareAndSwap(o, n)
	obs(v)
	return v
}
func (x *Bool) VerifDump() string { return fmt.Sprint(x.v.Load()) }

type Value struct{ v atomic.Value }

func (x *Value) Load() any {
	pt("atomic-load")
	v := x.v.Load()
	sched.ObserveValue("av", v)
	return v
}
func (x *Value) Store(n any)       { pt("atomic-store"); x.v.Store(n) }
func (x *Value) VerifDump() string { return sched.Dump(x.v.Load()) }

type Pointer[T any] struct{ v atomic.Pointer[T] }

func (x *Pointer[T]) Load() *T {
	pt("atomic-load")
	v := x.v.Load()
	sched.ObserveValue("ap", v)
	return v
}
func (x *Pointer[T]) Store(n *T) { pt("atomic-store"); x.v.Store(n) }
func (x *Pointer[T]) CompareAndSwap(o, n *T) bool {
	pt("atomic-cas")
	v := x.v.CompareAndSwap(o, n)
	obs(v)
	return v
}
func (x *Pointer[T]) VerifDump() string { return sched.Dump(x.v.Load()) }
