// Package vsyscall stands in for "syscall" in lockedfile/internal/filelock.
package vsyscall

import (
	"syscall"

	"verif/virt/vos"
)

type Errno = syscall.Errno

const (
	LOCK_SH = syscall.LOCK_SH
	LOCK_EX = syscall.LOCK_EX
	LOCK_UN = syscall.LOCK_UN
	LOCK_NB = syscall.LOCK_NB

	EINTR       = syscall.EINTR
	ENOSYS      = syscall.ENOSYS
	ENOTSUP     = syscall.ENOTSUP
	EOPNOTSUPP  = syscall.EOPNOTSUPP
	EAGAIN      = syscall.EAGAIN
	EWOULDBLOCK = syscall.EWOULDBLOCK
	EIO         = syscall.EIO
	ENOSPC      = syscall.ENOSPC
)

func Flock(fd int, how int) error { return vos.Flock(fd, how) }
