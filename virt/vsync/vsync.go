// Package vsync stands in for "sync" in instrumented packages (import
// redirection by vinstr). Under an active scheduler every acquiring operation
// is a scheduling point whose enabledness the explorer sees; free-running, the
// types delegate to the real sync package (race pass).
package vsync

import (
	"fmt"
	"sort"
	"strings"
	"sync"

	"verif/sched"
)

type Locker = sync.Locker

var objSeq int

func name(p *string, kind string) string {
	if *p == "" {
		objSeq++
		*p = fmt.Sprintf("%s#%d", kind, objSeq)
	}
	return *p
}

// ResetNames restarts object numbering (call at the start of every execution
// so that names are stable across executions).
func ResetNames() { objSeq = 0 }

// ---- Mutex ----

type Mutex struct {
	real   sync.Mutex
	locked bool
	holder int
	nm     string
}

func (m *Mutex) Lock() {
	if !sched.Active() {
		m.real.Lock()
		return
	}
	sched.Block(sched.Op{Kind: "lock", Obj: name(&m.nm, "mutex")}, func() bool { return !m.locked })
	m.locked = true
	m.holder = sched.Self()
}

func (m *Mutex) TryLock() bool {
	if !sched.Active() {
		return m.real.TryLock()
	}
	sched.Point(sched.Op{Kind: "trylock", Obj: name(&m.nm, "mutex")})
	if m.locked {
		sched.Observe("trylock:false")
		return false
	}
	m.locked = true
	m.holder = sched.Self()
	sched.Observe("trylock:true")
	return true
}

func (m *Mutex) Unlock() {
	if !sched.Active() {
		m.real.Unlock()
		return
	}
	if !m.locked {
		panic("sync: unlock of unlocked mutex")
	}
	m.locked = false
	m.holder = 0
}

func (m *Mutex) VerifDump() string {
	if m.locked {
		return fmt.Sprintf("M(held by %d)", m.holder)
	}
	return "M(free)"
}

// ---- RWMutex ----

type RWMutex struct {
	real    sync.RWMutex
	writer  bool
	readers int
	nm      string
}

func (m *RWMutex) Lock() {
	if !sched.Active() {
		m.real.Lock()
		return
	}
	sched.Block(sched.Op{Kind: "lock", Obj: name(&m.nm, "rwmutex")}, func() bool { return !m.writer && m.readers == 0 })
	m.writer = true
}

func (m *RWMutex) Unlock() {
	if !sched.Active() {
		m.real.Unlock()
		return
	}
	m.writer = false
}

func (m *RWMutex) RLock() {
	if !sched.Active() {
		m.real.RLock()
		return
	}
	sched.Block(sched.Op{Kind: "rlock", Obj: name(&m.nm, "rwmutex")}, func() bool { return !m.writer })
	m.readers++
}

func (m *RWMutex) RUnlock() {
	if !sched.Active() {
		m.real.RUnlock()
		return
	}
	m.readers--
}

func (m *RWMutex) VerifDump() string { return fmt.Sprintf("RW(w=%v,r=%d)", m.writer, m.readers) }

// ---- Cond ----

type condWaiter struct {
	tid      int
	signaled bool
}

type Cond struct {
	L       Locker
	real    *sync.Cond
	waiters []*condWaiter
	nm      string
}

func NewCond(l Locker) *Cond { return &Cond{L: l} }

func (c *Cond) realCond() *sync.Cond {
	if c.real == nil {
		c.real = sync.NewCond(c.L)
	}
	return c.real
}

func (c *Cond) lockFree() bool {
	switch l := c.L.(type) {
	case *Mutex:
		return !l.locked
	case *RWMutex:
		return !l.writer && l.readers == 0
	}
	return true
}

func (c *Cond) Wait() {
	if !sched.Active() {
		c.realCond().Wait()
		return
	}
	w := &condWaiter{tid: sched.Self()}
	c.waiters = append(c.waiters, w)
	c.L.Unlock()
	// Disabled until signalled; then competes for L.
	sched.Block(sched.Op{Kind: "cond-wait", Obj: name(&c.nm, "cond")}, func() bool { return w.signaled && c.lockFree() })
	switch l := c.L.(type) {
	case *Mutex:
		l.locked = true
		l.holder = sched.Self()
	case *RWMutex:
		l.writer = true
	default:
		c.L.Lock()
	}
}

func (c *Cond) take(i int) {
	c.waiters[i].signaled = true
	c.waiters = append(c.waiters[:i], c.waiters[i+1:]...)
}

// Signal wakes one waiter; which one is a data choice (the documented contract
// allows any).
func (c *Cond) Signal() {
	if !sched.Active() {
		c.realCond().Signal()
		return
	}
	sched.Point(sched.Op{Kind: "cond-signal", Obj: name(&c.nm, "cond")})
	if len(c.waiters) == 0 {
		return
	}
	c.take(sched.Choose(len(c.waiters), "signal-target"))
}

func (c *Cond) Broadcast() {
	if !sched.Active() {
		c.realCond().Broadcast()
		return
	}
	sched.Point(sched.Op{Kind: "cond-broadcast", Obj: name(&c.nm, "cond")})
	for len(c.waiters) > 0 {
		c.take(0)
	}
}

func (c *Cond) VerifDump() string {
	var ids []string
	for _, w := range c.waiters {
		ids = append(ids, fmt.Sprint(w.tid))
	}
	sort.Strings(ids)
	return "C(waiting " + strings.Join(ids, " ") + ")"
}

// ---- Map ----

type Map struct {
	real sync.Map
	keys []any
	m    map[any]any
	nm   string
}

func (m *Map) Load(key any) (any, bool) {
	if !sched.Active() {
		return m.real.Load(key)
	}
	sched.Point(sched.Op{Kind: "map-load", Obj: name(&m.nm, "map")})
	v, ok := m.m[key]
	sched.ObserveValue(fmt.Sprint("load:", ok), v)
	return v, ok
}

func (m *Map) Store(key, value any) {
	if !sched.Active() {
		m.real.Store(key, value)
		return
	}
	sched.Point(sched.Op{Kind: "map-store", Obj: name(&m.nm, "map")})
	m.store(key, value)
}

func (m *Map) store(key, value any) {
	if m.m == nil {
		m.m = map[any]any{}
	}
	if _, ok := m.m[key]; !ok {
		m.keys = append(m.keys, key)
	}
	m.m[key] = value
}

func (m *Map) LoadOrStore(key, value any) (any, bool) {
	if !sched.Active() {
		return m.real.LoadOrStore(key, value)
	}
	sched.Point(sched.Op{Kind: "map-loadorstore", Obj: name(&m.nm, "map")})
	if v, ok := m.m[key]; ok {
		sched.ObserveValue("los:loaded", v)
		return v, true
	}
	m.store(key, value)
	sched.Observe("los:stored")
	return value, false
}

func (m *Map) LoadAndDelete(key any) (any, bool) {
	if !sched.Active() {
		return m.real.LoadAndDelete(key)
	}
	sched.Point(sched.Op{Kind: "map-loadanddelete", Obj: name(&m.nm, "map")})
	v, ok := m.m[key]
	if ok {
		m.del(key)
	}
	sched.ObserveValue(fmt.Sprint("lad:", ok), v)
	return v, ok
}

func (m *Map) del(key any) {
	delete(m.m, key)
	for i, k := range m.keys {
		if k == key {
			m.keys = append(m.keys[:i], m.keys[i+1:]...)
			break
		}
	}
}

func (m *Map) Delete(key any) {
	if !sched.Active() {
		m.real.Delete(key)
		return
	}
	sched.Point(sched.Op{Kind: "map-delete", Obj: name(&m.nm, "map")})
	m.del(key)
}

func (m *Map) Range(f func(key, value any) bool) {
	if !sched.Active() {
		m.real.Range(f)
		return
	}
	sched.Point(sched.Op{Kind: "map-range", Obj: name(&m.nm, "map")})
	for _, k := range append([]any(nil), m.keys...) {
		if v, ok := m.m[k]; ok {
			if !f(k, v) {
				break
			}
		}
	}
}

func (m *Map) VerifDump() string { return sched.Dump(m.m) }

// ---- WaitGroup, Once ----

type WaitGroup struct {
	real sync.WaitGroup
	n    int
	nm   string
}

func (w *WaitGroup) Add(d int) {
	if !sched.Active() {
		w.real.Add(d)
		return
	}
	sched.Point(sched.Op{Kind: "wg-add", Obj: name(&w.nm, "wg")})
	w.n += d
	if w.n < 0 {
		panic("sync: negative WaitGroup counter")
	}
}

func (w *WaitGroup) Done() { w.Add(-1) }

func (w *WaitGroup) Wait() {
	if !sched.Active() {
		w.real.Wait()
		return
	}
	sched.Block(sched.Op{Kind: "wg-wait", Obj: name(&w.nm, "wg")}, func() bool { return w.n == 0 })
}

func (w *WaitGroup) VerifDump() string { return fmt.Sprintf("WG(%d)", w.n) }

type Once struct {
	real sync.Once
	m    Mutex
	done bool
}

func (o *Once) Do(f func()) {
	if !sched.Active() {
		o.real.Do(f)
		return
	}
	sched.Point(sched.Op{Kind: "once", Obj: "once"})
	if o.done {
		return
	}
	o.m.Lock()
	defer o.m.Unlock()
	if !o.done {
		defer func() { o.done = true }()
		f()
	}
}

func (o *Once) VerifDump() string { return fmt.Sprintf("Once(%v,%s)", o.done, o.m.VerifDump()) }

// Pool is a deterministic stand-in for sync.Pool: Get returns the value put
// last (sync.Pool may return any value that was put, or none; always re-using
// is one of its legal behaviours and the one that exposes aliasing of pooled
// values, and it keeps replays reproducible). Its operations are not scheduling
// points.
type Pool struct {
	New   func() any
	mu    sync.Mutex
	items []any
}

func (p *Pool) Get() any {
	p.mu.Lock()
	if n := len(p.items); n > 0 {
		x := p.items[n-1]
		p.items = p.items[:n-1]
		p.mu.Unlock()
		return x
	}
	p.mu.Unlock()
	if p.New != nil {
		return p.New()
	}
	return nil
}

func (p *Pool) Put(x any) {
	if x == nil {
		return
	}
	p.mu.Lock()
	p.items = append(p.items, x)
	p.mu.Unlock()
}

func OnceFunc(f func()) func()             { return sync.OnceFunc(f) }
func OnceValue[T any](f func() T) func() T { return sync.OnceValue(f) }
