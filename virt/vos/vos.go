// Package vos stands in for "os" in instrumented packages. Every wrapped call
// goes to the real file system; before it does, the installed Hook sees the
// operation and may let it proceed, fail it, make a write short, or stop the
// "process" there (crash). Engine S installs a hook that is a scheduling point;
// engine F installs a hook that numbers the operations and injects one fault.
// With no hook the package is a plain pass-through.
package vos

import (
	"errors"
	"io"
	"io/fs"
	"os"
	"syscall"
	"time"
)

// Op describes one intercepted operation.
type Op struct {
	Kind string // "open", "stat", "write", "truncate", "close", "remove", "chtimes", "flock", ...
	Path string
	N    int  // bytes for read/write
	Mut  bool // changes file-system state
	Flag int  // open flags
}

// Verdict is the hook's decision.
type Verdict struct {
	Fail  error // return this error without effect
	Short int   // >0 for writes: write only this many bytes, then return ErrShort... (0 = off)
	Crash bool  // stop here: panic(Crash{}) before the operation; later mutating calls are refused
	// CrashAfterShort (with Short): the process dies in the middle of the write,
	// after Short bytes reached the file
	CrashAfterShort bool
}

// Crash is the panic value of an injected crash.
type Crash struct{ At Op }

var (
	// Hook is consulted before every wrapped operation (nil = pass through).
	Hook func(op *Op) Verdict
	// crashed is set by an injected crash: the process is "dead", deferred
	// clean-up code must not be able to change the file system any more.
	crashed bool

	ErrInjected = &fs.PathError{Op: "injected", Path: "", Err: syscall.EIO}
	ErrCrashed  = errors.New("vos: process crashed (injected)")
)

// Reset clears the crashed flag and the hook.
func Reset() { crashed = false; Hook = nil; lockGen = 0 }

// Crashed reports whether an injected crash happened.
func Crashed() bool { return crashed }

func before(op Op) (Verdict, error) {
	if crashed {
		if op.Mut {
			return Verdict{}, ErrCrashed
		}
		return Verdict{}, nil
	}
	if Hook == nil {
		return Verdict{}, nil
	}
	v := Hook(&op)
	if v.Crash {
		crashed = true
		panic(Crash{op})
	}
	if v.Fail != nil {
		return v, v.Fail
	}
	return v, nil
}

// ---- re-exports ----

type (
	FileMode     = fs.FileMode
	FileInfo     = fs.FileInfo
	DirEntry     = fs.DirEntry
	PathError    = fs.PathError
	LinkError    = os.LinkError
	SyscallError = os.SyscallError
	Signal       = os.Signal
	Process      = os.Process
)

const (
	O_RDONLY = os.O_RDONLY
	O_WRONLY = os.O_WRONLY
	O_RDWR   = os.O_RDWR
	O_APPEND = os.O_APPEND
	O_CREATE = os.O_CREATE
	O_EXCL   = os.O_EXCL
	O_SYNC   = os.O_SYNC
	O_TRUNC  = os.O_TRUNC

	ModePerm      = os.ModePerm
	ModeDir       = os.ModeDir
	ModeExclusive = os.ModeExclusive
	PathSeparator = os.PathSeparator
	DevNull       = os.DevNull
)

var (
	ErrNotExist   = os.ErrNotExist
	ErrExist      = os.ErrExist
	ErrPermission = os.ErrPermission
	ErrClosed     = os.ErrClosed
	ErrInvalid    = os.ErrInvalid

	Stdin  = os.Stdin
	Stdout = os.Stdout
	Stderr = os.Stderr
	Args   = os.Args
)

func Getenv(k string) string                { return os.Getenv(k) }
func LookupEnv(k string) (string, bool)     { return os.LookupEnv(k) }
func Environ() []string                     { return os.Environ() }
func UserCacheDir() (string, error)         { return os.UserCacheDir() }
func UserHomeDir() (string, error)          { return os.UserHomeDir() }
func TempDir() string                       { return os.TempDir() }
func Getpid() int                           { return os.Getpid() }
func Getwd() (string, error)                { return os.Getwd() }
func Exit(c int)                            { os.Exit(c) }
func IsNotExist(err error) bool             { return os.IsNotExist(err) }
func IsExist(err error) bool                { return os.IsExist(err) }
func IsPermission(err error) bool           { return os.IsPermission(err) }
func SameFile(a, b FileInfo) bool           { return os.SameFile(a, b) }
func MkdirTemp(d, p string) (string, error) { return os.MkdirTemp(d, p) }

// ---- path operations ----

func Stat(name string) (FileInfo, error) {
	if _, err := before(Op{Kind: "stat", Path: name}); err != nil {
		return nil, err
	}
	return os.Stat(name)
}

func Lstat(name string) (FileInfo, error) {
	if _, err := before(Op{Kind: "lstat", Path: name}); err != nil {
		return nil, err
	}
	return os.Lstat(name)
}

func Remove(name string) error {
	if _, err := before(Op{Kind: "remove", Path: name, Mut: true}); err != nil {
		return err
	}
	return os.Remove(name)
}

func RemoveAll(name string) error {
	if _, err := before(Op{Kind: "removeall", Path: name, Mut: true}); err != nil {
		return err
	}
	return os.RemoveAll(name)
}

func Rename(a, b string) error {
	if _, err := before(Op{Kind: "rename", Path: a, Mut: true}); err != nil {
		return err
	}
	return os.Rename(a, b)
}

func Chtimes(name string, a, m time.Time) error {
	if _, err := before(Op{Kind: "chtimes", Path: name, Mut: true}); err != nil {
		return err
	}
	return os.Chtimes(name, a, m)
}

func Chmod(name string, m FileMode) error {
	if _, err := before(Op{Kind: "chmod", Path: name, Mut: true}); err != nil {
		return err
	}
	return os.Chmod(name, m)
}

func Mkdir(name string, m FileMode) error {
	if _, err := before(Op{Kind: "mkdir", Path: name, Mut: true}); err != nil {
		return err
	}
	return os.Mkdir(name, m)
}

func MkdirAll(name string, m FileMode) error {
	if _, err := before(Op{Kind: "mkdirall", Path: name, Mut: true}); err != nil {
		return err
	}
	return os.MkdirAll(name, m)
}

func Truncate(name string, size int64) error {
	if _, err := before(Op{Kind: "truncate-path", Path: name, Mut: true}); err != nil {
		return err
	}
	return os.Truncate(name, size)
}

func ReadDir(name string) ([]DirEntry, error) {
	if _, err := before(Op{Kind: "readdir", Path: name}); err != nil {
		return nil, err
	}
	return os.ReadDir(name)
}

// ReadFile is expanded into open / read... / close so that each step is visible.
func ReadFile(name string) ([]byte, error) {
	f, err := Open(name)
	if err != nil {
		return nil, err
	}
	defer f.Close()
	return io.ReadAll(f)
}

func WriteFile(name string, data []byte, perm FileMode) error {
	f, err := OpenFile(name, O_WRONLY|O_CREATE|O_TRUNC, perm)
	if err != nil {
		return err
	}
	_, err = f.Write(data)
	if err1 := f.Close(); err1 != nil && err == nil {
		err = err1
	}
	return err
}

// ---- File ----

type File struct {
	f    *os.File
	name string
}

// Real returns the wrapped file (harness use).
func (f *File) Real() *os.File { return f.f }

func Open(name string) (*File, error) { return OpenFile(name, O_RDONLY, 0) }

func Create(name string) (*File, error) {
	return OpenFile(name, O_RDWR|O_CREATE|O_TRUNC, 0o666)
}

func OpenFile(name string, flag int, perm FileMode) (*File, error) {
	mut := flag&(O_CREATE|O_TRUNC) != 0
	if _, err := before(Op{Kind: "open", Path: name, Mut: mut, Flag: flag}); err != nil {
		return nil, err
	}
	f, err := os.OpenFile(name, flag, perm)
	if err != nil {
		return nil, err
	}
	return &File{f, name}, nil
}

func NewFile(fd uintptr, name string) *File {
	f := os.NewFile(fd, name)
	if f == nil {
		return nil
	}
	return &File{f, name}
}

func (f *File) Name() string { return f.name }
func (f *File) Fd() uintptr  { return f.f.Fd() }

func (f *File) Stat() (FileInfo, error) {
	if _, err := before(Op{Kind: "fstat", Path: f.name}); err != nil {
		return nil, err
	}
	return f.f.Stat()
}

func (f *File) Read(b []byte) (int, error) {
	if _, err := before(Op{Kind: "read", Path: f.name, N: len(b)}); err != nil {
		return 0, err
	}
	return f.f.Read(b)
}

func (f *File) ReadAt(b []byte, off int64) (int, error) {
	if _, err := before(Op{Kind: "readat", Path: f.name, N: len(b)}); err != nil {
		return 0, err
	}
	return f.f.ReadAt(b, off)
}

func (f *File) Seek(off int64, whence int) (int64, error) {
	return f.f.Seek(off, whence)
}

func (f *File) Write(b []byte) (int, error) {
	v, err := before(Op{Kind: "write", Path: f.name, N: len(b), Mut: true})
	if err != nil {
		return 0, err
	}
	if v.Short > 0 && v.Short < len(b) {
		n, _ := f.f.Write(b[:v.Short])
		if v.CrashAfterShort {
			crashed = true
			panic(Crash{Op{Kind: "write", Path: f.name, N: n}})
		}
		return n, &fs.PathError{Op: "write", Path: f.name, Err: syscall.ENOSPC}
	}
	return f.f.Write(b)
}

func (f *File) WriteString(s string) (int, error) { return f.Write([]byte(s)) }

func (f *File) WriteAt(b []byte, off int64) (int, error) {
	v, err := before(Op{Kind: "writeat", Path: f.name, N: len(b), Mut: true})
	if err != nil {
		return 0, err
	}
	if v.Short > 0 && v.Short < len(b) {
		n, _ := f.f.WriteAt(b[:v.Short], off)
		return n, &fs.PathError{Op: "write", Path: f.name, Err: syscall.ENOSPC}
	}
	return f.f.WriteAt(b, off)
}

func (f *File) Truncate(size int64) error {
	if _, err := before(Op{Kind: "ftruncate", Path: f.name, Mut: true}); err != nil {
		return err
	}
	return f.f.Truncate(size)
}

func (f *File) Sync() error {
	if _, err := before(Op{Kind: "fsync", Path: f.name}); err != nil {
		return err
	}
	return f.f.Sync()
}

func (f *File) Chmod(m FileMode) error {
	if _, err := before(Op{Kind: "fchmod", Path: f.name, Mut: true}); err != nil {
		return err
	}
	return f.f.Chmod(m)
}

func (f *File) Readdirnames(n int) ([]string, error) {
	if _, err := before(Op{Kind: "readdirnames", Path: f.name}); err != nil {
		return nil, err
	}
	return f.f.Readdirnames(n)
}

func (f *File) ReadDir(n int) ([]DirEntry, error) {
	if _, err := before(Op{Kind: "readdir", Path: f.name}); err != nil {
		return nil, err
	}
	return f.f.ReadDir(n)
}

// Close always really closes the descriptor (a dead process's descriptors are
// closed by the kernel too). A failure injected into close is reported after
// closing, like a deferred write-back error.
func (f *File) Close() error {
	var fail error
	if !crashed && Hook != nil {
		op := Op{Kind: "close", Path: f.name}
		v := Hook(&op)
		if v.Crash {
			crashed = true
			f.f.Close()
			lockGen++
			panic(Crash{op})
		}
		fail = v.Fail
	}
	err := f.f.Close()
	lockGen++
	if fail != nil {
		return fail
	}
	return err
}

// ---- flock ----

// lockGen counts unlock / close events; a thread that found the lock busy waits
// for it to change before asking the kernel again.
var lockGen int

func LockGen() int { return lockGen }

// FlockHook, when set, replaces the blocking flock(2) by a cooperative version
// (engine S): it is given the descriptor and the operation and must return when
// the lock is held (or an error).
var FlockHook func(fd int, how int) error

// Flock is syscall.Flock with interception.
func Flock(fd int, how int) error {
	if how&syscall.LOCK_UN != 0 {
		if _, err := before(Op{Kind: "funlock", Path: "", Mut: false}); err != nil {
			return err
		}
		err := syscall.Flock(fd, how)
		lockGen++
		return err
	}
	if FlockHook != nil && !crashed {
		return FlockHook(fd, how)
	}
	if _, err := before(Op{Kind: "flock", Path: ""}); err != nil {
		return err
	}
	return syscall.Flock(fd, how)
}
