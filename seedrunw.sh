#!/bin/bash
# seedrunw.sh <patch.diff (absolute)> <check-id>...: like seedrun.sh but on a scratch
# worktree (VERIF_REPO), so that /repo stays untouched while other runs use it.
patch=$1; shift
cd /verif
W=/dev/shm/seedw-$$
git -C /repo worktree add -q --detach $W HEAD || exit 2
trap 'git -C /repo worktree remove --force $W; rm -rf $W-out' EXIT
git -C $W apply $patch || { echo "patch does not apply"; exit 2; }
mkdir -p $W-out
for id in "$@"; do
  VERIF_REPO=$W VERIF_OUT=$W-out ./check $id --tier ${TIER:-quick} > /tmp/seedrunw.$$.log 2>&1; rc=$?
  echo "== $id rc=$rc $(grep -c '^VIOLATION' /tmp/seedrunw.$$.log) violation lines"
  grep -E '^(violation:|HARNESS|KNOWN)' /tmp/seedrunw.$$.log | head -4
  tail -1 /tmp/seedrunw.$$.log
  rm -f /tmp/seedrunw.$$.log
done
