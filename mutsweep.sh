#!/bin/bash
# mutsweep.sh <file-relative-to-repo> <check-id>... [-- funcs]
# Generates single-point mutants of the file (cmd/mutgen), applies each in turn to
# a scratch worktree of /repo's HEAD (VERIF_REPO; /repo itself is not touched),
# runs the quick checks until one reports a violation, and reverts. Survivors are then run against the package's own tests. One line per
# mutant goes to mutations/sweep-<name>.tsv. A demonstration aid, not a check.
set -u
cd "$(dirname "$0")"
export GOFLAGS=-mod=mod GOPROXY=off GOSUMDB=off GOTOOLCHAIN=local
rel=$1; shift
checks=(); funcs=""
while [ $# -gt 0 ]; do if [ "$1" = "--" ]; then shift; funcs=$1; break; fi; checks+=("$1"); shift; done
name=$(echo "$rel" | tr '/.' '--')
out=/dev/shm/mut/$name
rm -rf $out; mkdir -p $out mutations
[ -x bin/mutgen ] || go build -o bin/mutgen ./cmd/mutgen
R=/dev/shm/mutrepo-$name
git -C /repo worktree remove --force $R 2>/dev/null
git -C /repo worktree add -q --detach $R HEAD || exit 2
export VERIF_REPO=$R VERIF_OUT=$out/outroot VERIF_FAIL_FAST=1
mkdir -p $VERIF_OUT
bin/mutgen -file $R/$rel -out $out ${funcs:+-funcs $funcs}
tsv=mutations/sweep-$name.tsv
echo -e "id\tline\tfunc\tmutation\tresult\tby" > $tsv
trap 'git -C /repo worktree remove --force $R' EXIT
pkg=$(dirname $rel)
n=$(python3 -c "import json;print(len(json.load(open('$out/index.json'))))")
for i in $(seq 0 $((n-1))); do
  read -r id line fn file desc < <(python3 -c "
import json;m=json.load(open('$out/index.json'))[$i];print(m['id'],m['line'],m['func'],m['file'],m['desc'].replace('\t',' '))")
  cp $out/$file $R/$rel
  res=survived; by=""
  if ! (cd $R && go build ./... ) >/dev/null 2>&1; then res=nobuild
  else
    for c in "${checks[@]}"; do
      timeout 900 ./check $c --tier quick > $out/log 2>&1; rc=$?
      if [ $rc = 1 ]; then res=killed; by=$c; break; fi
      if [ $rc = 124 ]; then res=hang; by=$c; break; fi
      if [ $rc != 0 ]; then res=harness; by="$c: $(grep -m1 HARNESS $out/log | cut -c1-120)"; break; fi
    done
    if [ $res = survived ]; then
      if ! (cd $R && timeout 600 go test -vet=off -count=1 ./$pkg/... ) > $out/testlog 2>&1; then res=survived-but-package-tests-fail; fi
    fi
  fi
  git -C $R checkout -- .
  printf '%s\t%s\t%s\t%s\t%s\t%s\n' "$id" "$line" "$fn" "$desc" "$res" "$by" >> $tsv
done
awk -F'\t' 'NR>1{c[$5]++} END{for(k in c) print k, c[k]}' $tsv
