#!/bin/bash
# mutsweep.sh <file-relative-to-repo> <check-id>... [-- funcs]
# Generates single-point mutants of the file (cmd/mutgen), applies each to /repo's
# working tree in turn, runs the quick checks until one reports a violation, and
# reverts. Survivors are then run against the package's own tests. One line per
# mutant goes to mutations/sweep-<name>.tsv. A demonstration aid, not a check.
set -u
cd "$(dirname "$0")"
export GOFLAGS=-mod=mod GOPROXY=off GOSUMDB=off GOTOOLCHAIN=local
rel=$1; shift
checks=(); funcs=""
while [ $# -gt 0 ]; do if [ "$1" = "--" ]; then shift; funcs=$1; break; fi; checks+=("$1"); shift; done
name=$(echo "$rel" | tr '/.' '--')
out=/dev/shm/mut/$name
rm -rf $out; mkdir -p $out mutations
[ -x bin/mutgen ] || go build -o bin/mutgen ./cmd/mutgen
git -C /repo diff --quiet || { echo "/repo not clean"; exit 2; }
bin/mutgen -file /repo/$rel -out $out ${funcs:+-funcs $funcs}
tsv=mutations/sweep-$name.tsv
echo -e "id\tline\tfunc\tmutation\tresult\tby" > $tsv
trap 'git -C /repo checkout -- . ' EXIT
pkg=$(dirname $rel)
n=$(python3 -c "import json;print(len(json.load(open('$out/index.json'))))")
for i in $(seq 0 $((n-1))); do
  read -r id line fn file desc < <(python3 -c "
import json;m=json.load(open('$out/index.json'))[$i];print(m['id'],m['line'],m['func'],m['file'],m['desc'].replace('\t',' '))")
  cp $out/$file /repo/$rel
  res=survived; by=""
  if ! (cd /repo && go build ./... ) >/dev/null 2>&1; then res=nobuild
  else
    for c in "${checks[@]}"; do
      timeout 600 ./check $c --tier quick > $out/log 2>&1; rc=$?
      if [ $rc = 1 ]; then res=killed; by=$c; break; fi
      if [ $rc = 124 ]; then res=hang; by=$c; break; fi
      if [ $rc != 0 ]; then res=harness; by="$c: $(grep -m1 HARNESS $out/log | cut -c1-120)"; break; fi
    done
    if [ $res = survived ]; then
      if ! (cd /repo && timeout 600 go test -vet=off -count=1 ./$pkg/... ) > $out/testlog 2>&1; then res=survived-but-package-tests-fail; fi
    fi
  fi
  git -C /repo checkout -- .
  echo -e "$id\t$line\t$fn\t$desc\t$res\t$by" >> $tsv
done
awk -F'\t' 'NR>1{c[$5]++} END{for(k in c) print k, c[k]}' $tsv
