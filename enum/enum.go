// Package enum is engine E: bounded-exhaustive enumeration of token strings.
package enum

import (
	"sync"
)

// Strings calls f(worker, s) for every concatenation of at most maxLen tokens
// of alpha (including the empty one), exactly once each, using the given number
// of workers. s is only valid during the call. Token sequences, not byte
// strings, are enumerated: if two token sequences spell the same bytes both are
// visited (alphabets used here are prefix-free single tokens, so that does not
// happen unless stated).
func Strings(alpha [][]byte, maxLen, workers int, f func(w int, s []byte)) {
	if workers < 1 {
		workers = 1
	}
	// Prefix length used for sharding.
	p := 0
	n := 1
	for p < maxLen && n < workers*8 {
		n *= len(alpha)
		p++
	}
	type job struct{ prefix []int }
	jobs := make(chan job, 64)
	var wg sync.WaitGroup
	for w := 0; w < workers; w++ {
		wg.Add(1)
		go func(w int) {
			defer wg.Done()
			buf := make([]byte, 0, 256)
			for j := range jobs {
				buf = buf[:0]
				for _, t := range j.prefix {
					buf = append(buf, alpha[t]...)
				}
				if len(j.prefix) < p {
					// short string: exactly this one
					f(w, buf[:len(buf):len(buf)])
					continue
				}
				rec(alpha, maxLen-len(j.prefix), buf, w, f)
			}
		}(w)
	}
	// all prefixes of length < p are complete strings; those of length p are subtree roots
	var gen func(cur []int)
	gen = func(cur []int) {
		jobs <- job{append([]int(nil), cur...)}
		if len(cur) == p {
			return
		}
		for t := range alpha {
			gen(append(cur, t))
		}
	}
	gen(nil)
	close(jobs)
	wg.Wait()
}

func rec(alpha [][]byte, left int, buf []byte, w int, f func(int, []byte)) {
	// capacity = length: code under test that reads past the end of its input
	// must fail loudly instead of seeing bytes of an earlier string
	f(w, buf[:len(buf):len(buf)])
	if left == 0 {
		return
	}
	for _, t := range alpha {
		rec(alpha, left-1, append(buf, t...), w, f)
	}
}

// Count returns the number of token strings of length <= maxLen.
func Count(k, maxLen int) int64 {
	var total, pow int64 = 0, 1
	for i := 0; i <= maxLen; i++ {
		total += pow
		pow *= int64(k)
	}
	return total
}

// Bytes turns a list of strings into a token alphabet.
func Bytes(toks ...string) [][]byte {
	out := make([][]byte, len(toks))
	for i, t := range toks {
		out[i] = []byte(t)
	}
	return out
}
