#!/bin/bash
# mutrerun.sh <file-relative-to-repo> <check-id>...: re-runs the mutants of an
# earlier mutsweep.sh of that file whose result was "harness" or "hang" (after
# the machinery was repaired) and rewrites their rows. Needs the mutant files
# of that sweep in /dev/shm/mut/<name>.
set -u
cd "$(dirname "$0")"
export GOFLAGS=-mod=mod GOPROXY=off GOSUMDB=off GOTOOLCHAIN=local
rel=$1; shift
checks=("$@")
name=$(echo "$rel" | tr '/.' '--')
out=/dev/shm/mut/$name
tsv=mutations/sweep-$name.tsv
[ -f $out/index.json ] || { echo "no mutant files in $out"; exit 2; }
R=/dev/shm/mutrerun-$name
git -C /repo worktree remove --force $R 2>/dev/null
git -C /repo worktree add -q --detach $R HEAD || exit 2
trap 'git -C /repo worktree remove --force $R' EXIT
export VERIF_REPO=$R VERIF_OUT=$out/outroot-rerun VERIF_FAIL_FAST=1
mkdir -p $VERIF_OUT
for id in $(awk -F"\t" -v also="${RERUN_ALSO:-}" '$5=="harness"||$5=="hang"||(also!="" && $5==also){print $1}' $tsv); do
  read -r line fn file desc < <(python3 -c "
import json
for m in json.load(open('$out/index.json')):
    if str(m['id'])=='$id': print(m['line'],m['func'],m['file'],m['desc'].replace('\t',' '))")
  cp $out/$file $R/$rel
  res=survived; by=""
  for c in "${checks[@]}"; do
    timeout 900 ./check $c --tier quick > $out/log-rerun 2>&1; rc=$?
    if [ $rc = 1 ]; then res=killed; by="$c: $(grep -m1 '^violation' $out/log-rerun | cut -c1-100)"; break; fi
    if [ $rc = 124 ]; then res=hang; by=$c; break; fi
    if [ $rc != 0 ]; then res=harness; by="$c: $(grep -m1 HARNESS $out/log-rerun | cut -c1-120)"; break; fi
  done
  git -C $R checkout -- .
  python3 - "$tsv" "$id" "$res" "$by" <<'PY'
import sys
tsv,id,res,by=sys.argv[1:5]
rows=open(tsv).read().split('\n')
for i,r in enumerate(rows):
    f=r.split('\t')
    if f and f[0]==id:
        f[4:]=[res,by]; rows[i]='\t'.join(f)
open(tsv,'w').write('\n'.join(rows))
PY
  echo "$id $line $fn $desc -> $res $by"
done
