// Package fsched connects the os shim to engine S: every intercepted file
// operation becomes a scheduling point, and flock(2) becomes cooperative — the
// kernel still decides admission (real LOCK_NB attempt), a thread that finds the
// lock busy is disabled until some unlock or close has happened.
package fsched

import (
	"os"
	"path/filepath"
	"strconv"
	"strings"
	"syscall"

	"verif/sched"
	"verif/virt/vos"
)

// Invisible lists operation kinds that are not scheduling points (set per
// property, with the argument why they commute with everything observed).
var Invisible = map[string]bool{}

// EINTROnce, when set, makes the first flock attempt of the execution that
// reaches the choice return EINTR (a data choice; the retry loop must absorb it).
var EINTROnce bool

var eintrUsed bool

// a file name that holds this process's id differs from run to run
var pid = strconv.Itoa(os.Getpid())

// Install hooks the shim for the current execution. Call at the start of every
// execution body.
func Install() {
	vos.Reset()
	eintrUsed = false
	vos.Hook = func(op *vos.Op) vos.Verdict {
		if !sched.Active() || Invisible[op.Kind] {
			return vos.Verdict{}
		}
		sched.Point(sched.Op{Kind: op.Kind, Obj: strings.ReplaceAll(filepath.Base(op.Path), pid, "<pid>")})
		return vos.Verdict{}
	}
	vos.FlockHook = func(fd int, how int) error {
		if !sched.Active() {
			return syscall.Flock(fd, how)
		}
		mode := "SH"
		if how&syscall.LOCK_EX != 0 {
			mode = "EX"
		}
		sched.Point(sched.Op{Kind: "flock", Obj: mode})
		if EINTROnce && !eintrUsed {
			if sched.Choose(2, "flock-eintr") == 1 {
				eintrUsed = true
				return syscall.EINTR
			}
		}
		for {
			err := syscall.Flock(fd, how|syscall.LOCK_NB)
			if err == nil {
				return nil
			}
			if err != syscall.EWOULDBLOCK {
				return err
			}
			gen := vos.LockGen()
			sched.Block(sched.Op{Kind: "flock-wait", Obj: mode}, func() bool { return vos.LockGen() != gen })
		}
	}
}
