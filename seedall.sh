#!/bin/bash
# seedall.sh: applies every kept seeded change to /repo in turn and runs the quick checks that
# are recorded as catching it; prints one line per (seed, check). /repo must be clean.
cd /verif
git -C /repo diff --quiet || { echo "/repo not clean"; exit 2; }
for d in seeded/*/; do
  name=$(basename $d)
  checks=$(python3 -c "import json;print(' '.join(json.load(open('$d/meta.json'))['caught_by']))")
  git -C /repo apply /verif/$d/patch.diff 2>/dev/null || { echo "$name: PATCH DOES NOT APPLY"; continue; }
  for c in $checks; do
    ./check $c --tier quick > /tmp/seedall.$$.log 2>&1; rc=$?
    n=$(grep -c '^VIOLATION' /tmp/seedall.$$.log)
    echo "$name $c rc=$rc violations=$n $(grep -E '^HARNESS' /tmp/seedall.$$.log | head -1 | cut -c1-120)"
  done
  git -C /repo checkout -- . ; git -C /repo clean -fdq
done
rm -f /tmp/seedall.$$.log
