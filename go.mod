module verif

go 1.23

require (
	github.com/anishathalye/porcupine v1.3.0
	github.com/rogpeppe/go-internal v0.0.0
	golang.org/x/mod v0.21.0
	golang.org/x/sys v0.26.0
	golang.org/x/tools v0.26.0
)

replace github.com/rogpeppe/go-internal => /repo
