// Package vhook is the target of the scheduling points that vinstr inserts
// before selected statements of the code under test.
package vhook

import "verif/sched"

// Point is a scheduling point labelled by the instrumenter (no-op when no
// controlled execution is active).
func Point(label string) { sched.Point(sched.Op{Kind: "hook", Obj: label}) }
