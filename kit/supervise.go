package kit

import (
	"bytes"
	"encoding/json"
	"fmt"
	"io"
	"os"
	"os/exec"
	"path/filepath"
	"strings"
	"sync"
	"syscall"
	"time"
)

// The top-level process of a check only supervises: it runs the check proper as
// a child process (same binary, same arguments) and passes its output and exit
// status through. If the child is brought down by the Go runtime - a fatal
// error such as a stack overflow, concurrent map writes or running out of
// memory, or a panic on a goroutine the check does not guard - that is the code
// under test crashing, and the supervisor reports it as a violation instead of
// letting the check end without a verdict. Harness errors (HARNESS-ERROR lines)
// pass through unchanged.

type tailWriter struct {
	mu  sync.Mutex
	buf []byte
	max int
}

func (t *tailWriter) Write(p []byte) (int, error) {
	t.mu.Lock()
	defer t.mu.Unlock()
	t.buf = append(t.buf, p...)
	if len(t.buf) > 2*t.max {
		t.buf = append([]byte(nil), t.buf[len(t.buf)-t.max:]...)
	}
	return len(p), nil
}

func (t *tailWriter) String() string {
	t.mu.Lock()
	defer t.mu.Unlock()
	return string(t.buf)
}

func (r *Run) supervise() {
	cmd := exec.Command(os.Args[0], os.Args[1:]...)
	cmd.Env = append(os.Environ(), "VERIF_SUPERVISED=1")
	cmd.Stdin = os.Stdin
	outTail := &tailWriter{max: 1 << 16}
	errTail := &tailWriter{max: 1 << 18}
	// the head of stderr holds the runtime's message, the tail may be thousands
	// of goroutine stacks: keep the first 64 KiB separately
	errHead := &headWriter{max: 1 << 16}
	cmd.Stdout = io.MultiWriter(os.Stdout, outTail)
	cmd.Stderr = io.MultiWriter(&quietAfter{w: os.Stderr, max: 1 << 16}, errTail, errHead)
	err := cmd.Run()
	if err == nil {
		os.Exit(0)
	}
	ee, ok := err.(*exec.ExitError)
	if !ok {
		Harness("supervisor: cannot run the check: %v", err)
	}
	code := ee.ExitCode()
	out := outTail.String()
	if code == 1 && strings.Contains(out, "VIOLATION property=") {
		os.Exit(1)
	}
	if strings.Contains(out, "HARNESS-ERROR") {
		os.Exit(2)
	}
	head := errHead.String()
	why := ""
	switch {
	case strings.Contains(head, "fatal error: "):
		why = "fatal error of the Go runtime"
	case strings.Contains(head, "panic: "):
		why = "unrecovered panic"
	case strings.Contains(head, "runtime: "):
		why = "runtime failure"
	default:
		if ws, ok := ee.Sys().(syscall.WaitStatus); ok && ws.Signaled() {
			if ws.Signal() == syscall.SIGKILL {
				why = "killed (SIGKILL: most likely out of memory)"
			} else if ws.Signal() == syscall.SIGSEGV || ws.Signal() == syscall.SIGBUS || ws.Signal() == syscall.SIGABRT {
				why = "died from signal " + ws.Signal().String()
			}
		}
	}
	if why == "" {
		fmt.Printf("HARNESS-ERROR the check process ended with status %d without a verdict\n", code)
		os.Exit(2)
	}
	lines := strings.Split(head, "\n")
	if len(lines) > 40 {
		lines = lines[:40]
	}
	what := fmt.Sprintf("the process running the check was brought down (%s) while exercising the code under test; first lines of its stderr:\n%s", why, strings.Join(lines, "\n"))
	first := ""
	for _, l := range lines {
		if strings.HasPrefix(l, "fatal error: ") || strings.HasPrefix(l, "panic: ") {
			first = l
			break
		}
	}
	if len(first) > 120 {
		first = first[:120]
	}
	v := V{Key: "check-process-crash " + first, What: what, Case: map[string]any{"crash": true, "args": os.Args[1:]}, NoConfirm: true}
	wall := time.Since(r.start).Seconds()
	ev := map[string]any{
		"property_id": r.ID,
		"tier":        r.Tier,
		"seed":        r.Seed,
		"level":       r.Level,
		"coverage":    map[string]any{"exhaustive": false, "check_process_crashed": true, "states": 0, "transitions": 0, "evaluations": 0},
		"assumptions": []string{},
		"wall_s":      float64(int(wall*100)) / 100,
		"violations":  1,
	}
	data, _ := json.MarshalIndent(ev, "", " ")
	evdir := filepath.Join(outRoot(r.root), "evidence")
	os.MkdirAll(evdir, 0o777)
	os.WriteFile(filepath.Join(evdir, r.ID+".json"), append(data, '\n'), 0o666)
	path := r.writeReplay(v)
	fmt.Printf("violation: %s\n  %s\n", v.Key, v.What)
	fmt.Printf("VIOLATION property=%s replay=%s\n", r.ID, path)
	fmt.Printf("%s FAILED tier=%s wall=%.1fs check_process_crashed=true exhaustive=false\n", r.ID, r.Tier, wall)
	os.Exit(1)
}

type headWriter struct {
	mu  sync.Mutex
	buf bytes.Buffer
	max int
}

func (h *headWriter) Write(p []byte) (int, error) {
	h.mu.Lock()
	defer h.mu.Unlock()
	if room := h.max - h.buf.Len(); room > 0 {
		if len(p) > room {
			h.buf.Write(p[:room])
		} else {
			h.buf.Write(p)
		}
	}
	return len(p), nil
}

func (h *headWriter) String() string {
	h.mu.Lock()
	defer h.mu.Unlock()
	return h.buf.String()
}

// quietAfter passes the first max bytes through and drops the rest (a crash
// dump can be many megabytes of goroutine stacks).
type quietAfter struct {
	w   io.Writer
	max int
	n   int
}

func (q *quietAfter) Write(p []byte) (int, error) {
	if q.n < q.max {
		k := len(p)
		if q.n+k > q.max {
			k = q.max - q.n
		}
		q.w.Write(p[:k])
		q.n += k
	}
	return len(p), nil
}
