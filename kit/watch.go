package kit

import (
	"fmt"
	"os"
	"runtime"
	"strconv"
	"sync"
	"sync/atomic"
	"time"
)

// A watchdog for evaluations that never return. The checks that feed inputs to
// pure functions call Watch before each evaluation; if a worker stays on the
// same input for StuckAfter (an endless loop in the code under test, possibly
// eating memory), the run reports that input as a violation and ends, instead
// of hanging or being killed for lack of memory. Normal evaluations take
// microseconds; the limit is a minute.

type watchSlot struct {
	seq    atomic.Uint64
	active atomic.Bool
	buf    []byte // read by the watchdog only while seq does not move
	_      [64]byte
}

var (
	watchSlots [128]watchSlot
	watchOnce  sync.Once
)

// StuckAfter is how long one evaluation may take before it is reported.
var StuckAfter = 60 * time.Second

// Watch records that worker slot starts evaluating input.
func (r *Run) Watch(slot int, input []byte) {
	s := &watchSlots[slot&127]
	s.buf = input
	s.active.Store(true)
	s.seq.Add(1)
	watchOnce.Do(func() { go r.watchdog() })
}

// WatchDone records that worker slot is between evaluations.
func (r *Run) WatchDone(slot int) {
	s := &watchSlots[slot&127]
	s.active.Store(false)
	s.seq.Add(1)
}

func (r *Run) watchdog() {
	if v := os.Getenv("VERIF_STUCK_S"); v != "" {
		if n, err := strconv.Atoi(v); err == nil && n > 0 {
			StuckAfter = time.Duration(n) * time.Second
		}
	}
	var last [128]uint64
	var since [128]time.Time
	for {
		time.Sleep(500 * time.Millisecond)
		now := time.Now()
		var heap uint64
		for i := range watchSlots {
			s := &watchSlots[i]
			if !s.active.Load() {
				since[i] = time.Time{}
				continue
			}
			q := s.seq.Load()
			if q != last[i] || since[i].IsZero() {
				last[i], since[i] = q, now
				continue
			}
			stuck := now.Sub(since[i])
			if stuck >= 2*time.Second && heap == 0 {
				var ms runtime.MemStats
				runtime.ReadMemStats(&ms)
				heap = ms.HeapAlloc + 1
			}
			if stuck >= StuckAfter || (stuck >= 2*time.Second && heap > 4<<30) {
				input := append([]byte(nil), s.buf...)
				if s.seq.Load() != q {
					continue
				}
				r.reportStuck(input, stuck, heap)
			}
		}
	}
}

func (r *Run) reportStuck(input []byte, stuck time.Duration, heap uint64) {
	v := V{Key: "no-return input=" + Q(input), What: fmt.Sprintf("the evaluation of input %s has not returned after %v (heap in use %d MiB): endless loop in the code under test", Q(input), stuck.Round(time.Second), heap>>20)}
	if r.Stuck != nil {
		v = r.Stuck(input)
		v.What = fmt.Sprintf("%s [the evaluation has not returned after %v, heap in use %d MiB]", v.What, stuck.Round(time.Second), heap>>20)
	}
	v.NoConfirm = true
	if len(v.Key) > 300 {
		v.Key = v.Key[:300]
	}
	r.skipConfirm = true
	r.Set("exhaustive", false)
	r.Set("ended_by_watchdog", true)
	r.ViolationV(v)
	r.Finish()
}
