package kit

import (
	"bufio"
	"encoding/json"
	"flag"
	"fmt"
	"io"
	"os"
	"os/exec"
	"regexp"
	"strings"
	"sync"
)

var workerFlag = flag.Bool("worker", false, "internal: run as a shard worker (jobs on stdin, results on stdout)")

// IsWorker reports whether this process is a shard worker.
func IsWorker() bool { return *workerFlag }

type jobResult struct {
	Job    int             `json:"job"`
	Result json.RawMessage `json:"result"`
	// Poisoned: the worker cannot be used for further jobs (WorkerPoisoned)
	Poisoned bool `json:"poisoned,omitempty"`
	// Fatal: the worker gave up on this job and exits (UnderTestFailed)
	Fatal *V `json:"fatal,omitempty"`
}

var workerJob = -1

// UnderTestFailed reports that the code under test failed at a place where the
// harness itself needs it to work (a fault-free set-up step: opening a cache,
// storing the start state, starting a server, running a batch). That is a
// defect of the code under test, so it is reported as a violation, not as a
// harness error. It does not return.
func UnderTestFailed(format string, args ...any) {
	what := fmt.Sprintf(format, args...)
	key := regexp.MustCompile(`/[^\s:"']+`).ReplaceAllString(what, "<path>")
	if len(key) > 120 {
		key = key[:120]
	}
	v := V{Key: "set-up-failed " + key, What: "the code under test failed in a step the harness relies on (no fault was injected there): " + what, Case: map[string]any{"setup_failure": what}, NoConfirm: true}
	if IsWorker() {
		workerFatal(v)
	}
	if current == nil {
		Harness("%s", what)
	}
	current.ViolationV(v)
	current.Finish()
}

// workerFatal ends a worker process with a violation for the parent.
func workerFatal(v V) {
	line, _ := json.Marshal(jobResult{Job: workerJob, Result: json.RawMessage("null"), Fatal: &v})
	os.Stdout.Write(append(line, '\n'))
	os.Exit(0)
}

// WorkerPoisoned, when set, is asked after every job whether this worker
// process is still fit for further jobs (the scheduler sets it: a thread of the
// code under test that spins for ever stays behind). A poisoned worker is
// replaced by a fresh process.
var WorkerPoisoned func() bool

// Sharded runs jobs 0..n-1 in worker subprocesses of this same binary
// (GOMAXPROCS=1 each, one job at a time per worker) and calls merge in the
// parent for every result, in completion order. In a worker process it serves
// jobs from stdin and never returns. work must be deterministic for a job.
// A worker that dies turns the run into a HARNESS-ERROR.
func (r *Run) Sharded(n int, work func(job int) any, merge func(job int, raw json.RawMessage)) {
	if IsWorker() {
		in := bufio.NewScanner(os.Stdin)
		out := bufio.NewWriter(os.Stdout)
		for in.Scan() {
			var job int
			if _, err := fmt.Sscan(in.Text(), &job); err != nil {
				continue
			}
			workerJob = job
			res := work(job)
			raw, err := json.Marshal(res)
			if err != nil {
				Harness("worker: marshal: %v", err)
			}
			line, _ := json.Marshal(jobResult{Job: job, Result: raw, Poisoned: WorkerPoisoned != nil && WorkerPoisoned()})
			out.Write(line)
			out.WriteByte('\n')
			out.Flush()
		}
		os.Exit(0)
	}
	nw := r.Workers()
	if nw > n {
		nw = n
	}
	jobs := make(chan int, n)
	for i := 0; i < n; i++ {
		jobs <- i
	}
	close(jobs)
	var mu sync.Mutex
	var wg sync.WaitGroup
	fail := make(chan string, nw)
	for w := 0; w < nw; w++ {
		wg.Add(1)
		go func() {
			defer wg.Done()
			for {
				cmd := exec.Command(os.Args[0], "-worker", "-tier", r.Tier, "-cap", r.cap.String())
				cmd.Env = append(os.Environ(), "GOMAXPROCS=1")
				head := &headWriter{max: 1 << 15}
				cmd.Stderr = io.MultiWriter(&quietAfter{w: os.Stderr, max: 1 << 15}, head)
				stdin, _ := cmd.StdinPipe()
				stdout, _ := cmd.StdoutPipe()
				if err := cmd.Start(); err != nil {
					fail <- err.Error()
					return
				}
				rd := bufio.NewReaderSize(stdout, 1<<20)
				replace := false
				crashed := false
				for job := range jobs {
					fmt.Fprintf(stdin, "%d\n", job)
					line, err := rd.ReadBytes('\n')
					if err != nil {
						if err != io.EOF || len(line) == 0 {
							cmd.Wait()
							h := head.String()
							if strings.Contains(h, "fatal error: ") || strings.Contains(h, "panic: ") {
								// the code under test brought the worker down: a violation
								// of this job, not a harness failure; a fresh worker takes over
								name := fmt.Sprintf("job %d", job)
								if r.JobName != nil {
									name = r.JobName(job)
								}
								lines := strings.Split(h, "\n")
								if len(lines) > 30 {
									lines = lines[:30]
								}
								first := lines[0]
								for _, l := range lines {
									if strings.HasPrefix(l, "fatal error: ") || strings.HasPrefix(l, "panic: ") {
										first = l
										break
									}
								}
								if len(first) > 100 {
									first = first[:100]
								}
								mu.Lock()
								r.ViolationV(V{Key: "worker-crash " + name + ": " + first, What: fmt.Sprintf("%s: the process exploring it was brought down by the Go runtime; first lines of its stderr:\n%s", name, strings.Join(lines, "\n")), Case: map[string]any{"crash": true, "job": job}, NoConfirm: true})
								r.inexhaustive = true
								mu.Unlock()
								replace = true
								crashed = true
								break
							}
							fail <- fmt.Sprintf("worker died on job %d: %v", job, err)
							return
						}
					}
					var jr jobResult
					if err := json.Unmarshal(line, &jr); err != nil {
						fail <- fmt.Sprintf("worker output on job %d: %v: %q", job, err, line)
						return
					}
					if jr.Fatal != nil {
						mu.Lock()
						name := fmt.Sprintf("job %d", job)
						if r.JobName != nil {
							name = r.JobName(job)
						}
						f := *jr.Fatal
						f.Key += " (" + name + ")"
						f.What = name + ": " + f.What
						r.ViolationV(f)
						r.inexhaustive = true
						mu.Unlock()
						replace = true
						crashed = true // the worker has exited
						cmd.Wait()
						break
					}
					mu.Lock()
					merge(jr.Job, jr.Result)
					mu.Unlock()
					if jr.Poisoned {
						replace = true
						break
					}
				}
				stdin.Close()
				if replace && !crashed {
					cmd.Process.Kill()
				}
				if !crashed {
					cmd.Wait()
				}
				if !replace {
					return
				}
			}
		}()
	}
	wg.Wait()
	select {
	case msg := <-fail:
		Harness("%s", msg)
	default:
	}
}

// RemainingCap returns the time left before the internal cap.
func (r *Run) StartedAgo() float64 { return sinceSeconds(r) }
