// Package kit is the part every check shares: tiers, evidence, violations,
// known findings, replay files and the 5x confirmation rule (DESIGN.md 5.2-5.5).
package kit

import (
	"crypto/sha256"
	"encoding/json"
	"flag"
	"fmt"
	"os"
	"path/filepath"
	"runtime"
	"runtime/debug"
	"sort"
	"strconv"
	"strings"
	"sync"
	"sync/atomic"
	"syscall"
	"time"
)

// V is one violation: a stable key (identifies the failing input, history or
// call site), a human description, and the case in the form Replayer accepts.
type V struct {
	Key  string `json:"key"`
	What string `json:"what"`
	Case any    `json:"case"`
	// NoConfirm skips the 5x replay confirmation (race-detector reports: the
	// detector has no false positives but a race need not show on every run).
	NoConfirm bool `json:"no_confirm,omitempty"`
	// Timing: the verdict compares wall-clock times of real processes. Seen
	// once among many concurrent cases on a loaded machine and never again when
	// the case is replayed alone, it says nothing about the code: it is then
	// counted in the evidence (wall_clock_observations_not_reproduced) and not
	// reported. Reproduced once but not every time it is a harness error like
	// any other unstable verdict.
	Timing bool `json:"timing,omitempty"`
}

type Run struct {
	ID    string
	Level string
	Tier  string
	Seed  int

	// Replayer re-runs one recorded case (the Case of a V, as raw JSON) without
	// the explorer and returns the violations it shows (nil if none).
	Replayer func(raw json.RawMessage) []V
	// ConcurrentReplay: the Replayer is safe to call from several goroutines and
	// the code under test is documented as free of shared state (pure functions);
	// a violation that does not reproduce alone is then replayed concurrently.
	ConcurrentReplay bool
	// Noise exercises the code under test with varied inputs; it runs in other
	// goroutines while a case is replayed concurrently.
	Noise func(i int)
	// JobName names a shard job in reports (default "job N").
	JobName func(job int) string
	// Stuck turns an input whose evaluation never returned (see Watch) into
	// the violation to report; its Case must be replayable.
	Stuck func(input []byte) V

	// skipConfirm: the run is being ended by the watchdog (the code under test
	// hangs); replaying further cases could hang as well
	skipConfirm bool
	// inexhaustive: part of the exploration was lost (a worker crashed)
	inexhaustive bool
	finishing    bool
	ffOnce       sync.Once
	ffStop       int32

	start    time.Time
	cap      time.Duration
	mu       sync.Mutex
	cov      map[string]any
	counters map[string]*int64
	samples  []any
	assume   []string
	viol     map[string]V
	order    []string
	capped   int32
	replay   string
	perClass map[string]int
	dropped  int64
	root     string
}

// noYieldMarker: see sched.NoYieldMarker (a thread of the code under test spins
// for ever; replaying the case would leave another one spinning).
const noYieldMarker = "without reaching a scheduling point"

const (
	maxKeys  = 40
	perClass = 3
)

// current is the Run of this process (for package-level helpers).
var current *Run

func verifRoot() string {
	if d := os.Getenv("VERIF_ROOT"); d != "" {
		return d
	}
	return "/verif"
}

// outRoot: where evidence and replay files go. VERIF_OUT redirects them (used
// by the mutation sweep, which runs checks against scratch copies of the
// repository and must not overwrite the evidence of the real tree).
func outRoot(root string) string {
	if d := os.Getenv("VERIF_OUT"); d != "" {
		return d
	}
	return root
}

// Start parses the common flags. Extra flags may be registered on flag.CommandLine
// before calling it.
func Start(id, level string) *Run {
	r := &Run{ID: id, Level: level, start: time.Now(), cov: map[string]any{}, counters: map[string]*int64{}, viol: map[string]V{}, root: verifRoot()}
	debug.SetGCPercent(800)
	go sampleDescriptors()
	tier := flag.String("tier", envOr("VERIF_TIER", "quick"), "quick|thorough")
	replay := flag.String("replay", "", "replay file")
	capS := flag.Duration("cap", 0, "internal wall-clock cap (0 = tier default)")
	flag.Parse()
	r.Tier = *tier
	if r.Tier != "quick" && r.Tier != "thorough" {
		Harness("unknown tier %q", r.Tier)
	}
	r.replay = *replay
	r.Seed, _ = strconv.Atoi(os.Getenv("VERIF_SEED"))
	r.cap = *capS
	if r.cap == 0 {
		if r.Tier == "quick" {
			r.cap = 150 * time.Second
		} else {
			r.cap = 25 * time.Minute
		}
	}
	current = r
	if os.Getenv("VERIF_SUPERVISED") == "" && os.Getenv("VERIF_NO_SUPERVISOR") == "" {
		r.supervise() // runs the check proper as a child process; does not return
	}
	return r
}

func envOr(k, d string) string {
	if v := os.Getenv(k); v != "" {
		return v
	}
	return d
}

func (r *Run) Thorough() bool { return r.Tier == "thorough" }

// Workers is the number of parallel workers a check should use.
func (r *Run) Workers() int {
	if s := os.Getenv("VERIF_WORKERS"); s != "" {
		if n, err := strconv.Atoi(s); err == nil && n > 0 {
			return n
		}
	}
	return runtime.NumCPU()
}

// Expired reports whether the internal cap was reached; a check that stops because
// of it must not claim exhaustiveness (Capped is recorded automatically).
func (r *Run) Expired() bool {
	if atomic.LoadInt32(&r.ffStop) != 0 {
		// fail-fast (mutation sweep): the exploration winds down like at the cap
		atomic.StoreInt32(&r.capped, 1)
		return true
	}
	if time.Since(r.start) > r.cap {
		atomic.StoreInt32(&r.capped, 1)
		return true
	}
	return false
}

func (r *Run) Capped() bool { return atomic.LoadInt32(&r.capped) != 0 }

// MaybeReplay runs the replay given on the command line, if any, and exits.
// Call it after setting Replayer.
func (r *Run) MaybeReplay() {
	if r.replay == "" {
		return
	}
	data, err := os.ReadFile(r.replay)
	if err != nil {
		Harness("read replay: %v", err)
	}
	var f struct {
		Property string          `json:"property"`
		Key      string          `json:"key"`
		What     string          `json:"what"`
		Case     json.RawMessage `json:"case"`
	}
	if err := json.Unmarshal(data, &f); err != nil {
		Harness("parse replay: %v", err)
	}
	if strings.HasPrefix(f.Key, "check-process-crash") {
		// recorded by the supervisor: the process running the check was brought
		// down. There is no single case to replay; the whole check runs again.
		fmt.Printf("replay of %s: the check process crashed; running the whole check again\n", r.replay)
		r.replay = ""
		return
	}
	if strings.HasPrefix(f.Key, "no-return") {
		// recorded by the watchdog: the case did not return. It reproduces by not
		// returning again.
		go func() {
			time.Sleep(StuckAfter)
			fmt.Printf("replay of %s (%s)\nrecorded: %s\nreproduced: the case has not returned after %v\n", r.replay, f.Key, f.What, StuckAfter)
			fmt.Printf("VIOLATION property=%s replay=%s\n", r.ID, r.replay)
			os.Exit(1)
		}()
	}
	vs := r.Replayer(f.Case)
	fmt.Printf("replay of %s (%s)\nrecorded: %s\n", r.replay, f.Key, f.What)
	if len(vs) == 0 {
		fmt.Println("result: no violation reproduced")
		os.Exit(0)
	}
	for _, v := range vs {
		fmt.Printf("reproduced: key=%s\n  %s\n", v.Key, v.What)
	}
	fmt.Printf("VIOLATION property=%s replay=%s\n", r.ID, r.replay)
	os.Exit(1)
}

// openDescriptors describes what the descriptors of this process point to.
func openDescriptors() string {
	ents, err := os.ReadDir("/proc/self/fd")
	if err != nil || len(ents) < 200 {
		return ""
	}
	count := map[string]int{}
	for _, e := range ents {
		t, err := os.Readlink("/proc/self/fd/" + e.Name())
		if err != nil {
			continue
		}
		// group by kind and by the last two path elements
		if strings.HasPrefix(t, "/") {
			p := strings.Split(t, "/")
			if len(p) > 2 {
				t = ".../" + strings.Join(p[len(p)-2:], "/")
			}
		} else if i := strings.IndexByte(t, ':'); i > 0 {
			t = t[:i]
		}
		count[t]++
	}
	type kv struct {
		k string
		n int
	}
	var l []kv
	for k, n := range count {
		l = append(l, kv{k, n})
	}
	sort.Slice(l, func(i, j int) bool { return l[i].n > l[j].n || l[i].n == l[j].n && l[i].k < l[j].k })
	if len(l) > 5 {
		l = l[:5]
	}
	out := fmt.Sprintf(" (%d descriptors open in this process; most frequent targets:", len(ents))
	for _, e := range l {
		out += fmt.Sprintf(" %dx %s", e.n, e.k)
	}
	return out + ")"
}

// ViolationV records a violation given as a V (keeps NoConfirm).
func (r *Run) ViolationV(v V) {
	r.Violation(v.Key, v.What, v.Case)
	if v.NoConfirm || v.Timing {
		r.mu.Lock()
		if x, ok := r.viol[v.Key]; ok {
			x.NoConfirm = x.NoConfirm || v.NoConfirm
			x.Timing = x.Timing || v.Timing
			r.viol[v.Key] = x
		}
		r.mu.Unlock()
	}
}

// Violation records a violation (first one per key wins). Safe for concurrent use.
func (r *Run) Violation(key, what string, c any) {
	leak := false
	if strings.Contains(what, "too many open files") {
		// The process ran out of file descriptors. The harness closes what it
		// opens (the unchanged tree runs the same cases without coming near the
		// limit), so the code under test keeps descriptors open. Which case hits
		// the limit depends on everything that ran before: reported as one
		// violation of its own, not confirmed by replaying a single case.
		key, what, leak = "descriptor-leak", "the process ran out of file descriptors while exercising the code under test: "+what+openDescriptors(), true
	}
	r.mu.Lock()
	defer r.mu.Unlock()
	if _, ok := r.viol[key]; ok || r.finishing {
		return
	}
	if leak {
		defer func() {
			if x, ok := r.viol[key]; ok {
				x.NoConfirm = true
				r.viol[key] = x
			}
		}()
	}
	if os.Getenv("VERIF_FAIL_FAST") != "" {
		// used by the mutation sweep: the first violation that is not a listed
		// finding ends the run (after the usual confirmation)
		if _, listed := r.known()[key]; !listed {
			// the exploration is asked to stop (it polls Expired) and finishes in
			// its own thread; a loop that does not poll is cut short after a while
			atomic.StoreInt32(&r.ffStop, 1)
			r.ffOnce.Do(func() {
				go func() {
					time.Sleep(90 * time.Second)
					r.Finish()
				}()
			})
		}
	}
	if f := os.Getenv("VERIF_DUMP_VIOLATIONS"); f != "" {
		// debugging aid: every violation key, one per line
		if fh, err := os.OpenFile(f, os.O_APPEND|os.O_CREATE|os.O_WRONLY, 0o666); err == nil {
			fmt.Fprintln(fh, key)
			fh.Close()
		}
	}
	// at most perClass keys per class (the key's first word) and maxKeys overall
	class := key
	if i := strings.IndexByte(key, ' '); i > 0 {
		class = key[:i]
	}
	if r.perClass == nil {
		r.perClass = map[string]int{}
	}
	if r.perClass[class] >= perClass || len(r.viol) >= maxKeys {
		// keep the shortest cases of a class: replace the longest kept key of
		// this class if the new one is shorter
		longest := ""
		for k := range r.viol {
			if strings.HasPrefix(k, class+" ") && len(k) > len(longest) {
				longest = k
			}
		}
		r.dropped++
		if longest == "" || len(key) >= len(longest) {
			return
		}
		delete(r.viol, longest)
		for i, k := range r.order {
			if k == longest {
				r.order = append(r.order[:i], r.order[i+1:]...)
				break
			}
		}
		r.perClass[class]--
	}
	r.perClass[class]++
	r.viol[key] = V{Key: key, What: what, Case: c}
	r.order = append(r.order, key)
}

// Violations returns the number of distinct violation keys so far.
func (r *Run) Violations() int {
	r.mu.Lock()
	defer r.mu.Unlock()
	return len(r.viol)
}

func (r *Run) Set(k string, v any) {
	r.mu.Lock()
	r.cov[k] = v
	r.mu.Unlock()
}

// Counter returns a named atomic counter that ends up in coverage.
func (r *Run) Counter(k string) *int64 {
	r.mu.Lock()
	defer r.mu.Unlock()
	c, ok := r.counters[k]
	if !ok {
		c = new(int64)
		r.counters[k] = c
	}
	return c
}

func (r *Run) Add(k string, n int64) { atomic.AddInt64(r.Counter(k), n) }

// Sample keeps up to 8 written-out cases.
func (r *Run) Sample(v any) {
	r.mu.Lock()
	if len(r.samples) < 8 {
		r.samples = append(r.samples, v)
	}
	r.mu.Unlock()
}

func (r *Run) Assume(s string) {
	r.mu.Lock()
	r.assume = append(r.assume, s)
	r.mu.Unlock()
}

type knownFile struct {
	Findings []struct {
		Property string `json:"property"`
		Key      string `json:"key"`
		What     string `json:"what"`
	} `json:"findings"`
	Fixed []struct {
		Property string `json:"property"`
		Commit   string `json:"commit"`
		What     string `json:"what"`
	} `json:"fixed"`
}

func (r *Run) known() map[string]string {
	m := map[string]string{}
	data, err := os.ReadFile(filepath.Join(r.root, "known_findings.json"))
	if err != nil {
		return m
	}
	var kf knownFile
	if err := json.Unmarshal(data, &kf); err != nil {
		Harness("known_findings.json: %v", err)
	}
	for _, f := range kf.Findings {
		if f.Property == r.ID {
			m[f.Key] = f.What
		}
	}
	return m
}

// Finish confirms violations, writes evidence, prints the verdict and exits.
func (r *Run) Finish() {
	if ents, err := os.ReadDir("/proc/self/fd"); err != nil || len(ents) > 1000 {
		// files abandoned by the code under test are closed when the collector
		// finds them: make room for the evidence and replay files
		runtime.GC()
		runtime.GC()
		time.Sleep(50 * time.Millisecond)
	}
	known := r.known()
	var unlisted []V
	var knownSeen []string
	// Finish may run while workers are still reporting (watchdog, fail-fast):
	// work on a snapshot
	r.mu.Lock()
	order := append([]string(nil), r.order...)
	viol := make(map[string]V, len(r.viol))
	for k, v := range r.viol {
		viol[k] = v
	}
	r.finishing = true
	r.mu.Unlock()
	for _, k := range order {
		v, ok := viol[k]
		if !ok {
			continue
		}
		if what, ok := known[k]; ok {
			knownSeen = append(knownSeen, fmt.Sprintf("KNOWN-FINDING: property=%s %s (%s)", r.ID, k, what))
			continue
		}
		unlisted = append(unlisted, v)
	}
	// 5x confirmation of each unlisted violation through the replayer.
	var confirmed []V
	notReproduced := 0
nextViolation:
	for _, v := range unlisted {
		if r.Replayer != nil && !v.NoConfirm && !r.skipConfirm && !strings.Contains(v.What, noYieldMarker) {
			raw, err := json.Marshal(v.Case)
			if err != nil {
				Harness("marshal case: %v", err)
			}
			for i := 0; i < 5; i++ {
				got := r.Replayer(raw)
				ok := false
				for _, g := range got {
					if g.Key == v.Key {
						ok = true
					}
				}
				if !ok && r.ConcurrentReplay {
					// The case fails only while other callers are active (the main pass runs
					// many workers): shared state inside the code under test. Replay it from
					// several goroutines at once; the oracle is a function of one call's
					// result, so a failure seen there is genuine.
					ok = r.replayConcurrently(raw, v.Key)
					if ok && !strings.Contains(v.What, "[only while other goroutines") {
						v.What += " [only while other goroutines call the same function: state shared between calls]"
					}
				}
				if !ok {
					if lv, leak := descriptorLeak(v.What); leak {
						// which case trips over the exhausted descriptors depends on
						// everything that ran before it
						v = lv
						break
					}
					if v.Timing && i == 0 {
						notReproduced++
						fmt.Printf("NOTE property=%s a wall-clock observation made among concurrent cases did not reproduce when the case was replayed alone and is not counted: %s\n", r.ID, oneLine(v.What))
						continue nextViolation
					}
					Harness("flaky: violation %q did not reproduce on replay %d/5: %s", v.Key, i+1, v.What)
				}
			}
		}
		dup := false
		for _, c := range confirmed {
			if c.Key == v.Key {
				dup = true
			}
		}
		if !dup {
			confirmed = append(confirmed, v)
		}
	}
	wall := time.Since(r.start).Seconds()
	cov := map[string]any{}
	for k, v := range r.cov {
		cov[k] = v
	}
	for k, c := range r.counters {
		cov[k] = atomic.LoadInt64(c)
	}
	if len(r.samples) > 0 {
		cov["samples"] = r.samples
	}
	if r.Capped() {
		cov["exhaustive"] = false
		cov["cap_reached_s"] = r.cap.Seconds()
	}
	if r.inexhaustive {
		cov["exhaustive"] = false
	}
	if r.dropped > 0 {
		cov["further_violations_not_listed"] = r.dropped
	}
	if notReproduced > 0 {
		cov["wall_clock_observations_not_reproduced"] = notReproduced
	}
	if len(knownSeen) > 0 {
		cov["known_findings_seen"] = len(knownSeen)
	}
	ev := map[string]any{
		"property_id": r.ID,
		"tier":        r.Tier,
		"seed":        r.Seed,
		"level":       r.Level,
		"coverage":    cov,
		"assumptions": r.assume,
		"wall_s":      float64(int(wall*100)) / 100,
		"violations":  len(confirmed),
	}
	if r.assume == nil {
		ev["assumptions"] = []string{}
	}
	data, err := json.MarshalIndent(ev, "", " ")
	if err != nil {
		Harness("evidence: %v", err)
	}
	evdir := filepath.Join(outRoot(r.root), "evidence")
	os.MkdirAll(evdir, 0o777)
	if err := os.WriteFile(filepath.Join(evdir, r.ID+".json"), append(data, '\n'), 0o666); err != nil {
		Harness("write evidence: %v", err)
	}
	for _, l := range knownSeen {
		fmt.Println(l)
	}
	for _, v := range confirmed {
		path := r.writeReplay(v)
		fmt.Printf("violation: %s\n  %s\n", v.Key, v.What)
		fmt.Printf("VIOLATION property=%s replay=%s\n", r.ID, path)
	}
	fmt.Printf("%s %s tier=%s wall=%.1fs %s\n", r.ID, verdict(len(confirmed)), r.Tier, wall, summary(cov))
	if len(confirmed) > 0 {
		os.Exit(1)
	}
	os.Exit(0)
}

func verdict(n int) string {
	if n == 0 {
		return "OK"
	}
	return "FAILED"
}

func summary(cov map[string]any) string {
	var ks []string
	for k, v := range cov {
		switch v.(type) {
		case int, int64, bool, float64:
			ks = append(ks, fmt.Sprintf("%s=%v", k, v))
		}
	}
	sort.Strings(ks)
	return strings.Join(ks, " ")
}

func (r *Run) writeReplay(v V) string {
	dir := filepath.Join(outRoot(r.root), "replays")
	os.MkdirAll(dir, 0o777)
	h := sha256.Sum256([]byte(v.Key))
	path := filepath.Join(dir, fmt.Sprintf("%s-%x.json", r.ID, h[:6]))
	data, _ := json.MarshalIndent(map[string]any{"property": r.ID, "key": v.Key, "what": v.What, "case": v.Case}, "", " ")
	if err := os.WriteFile(path, append(data, '\n'), 0o666); err != nil {
		Harness("write replay: %v", err)
	}
	return path
}

// Harness reports a defect of the machinery itself: exit status 2, never a
// VIOLATION line and never a pass.
func Harness(format string, args ...any) {
	if v, leak := descriptorLeak(fmt.Sprintf(format, args...)); leak && !inHarness.Swap(true) {
		// the harness tripped over descriptors that the code under test left open
		if IsWorker() {
			workerFatal(v)
		}
		if r := current; r != nil && r.mu.TryLock() {
			fin := r.finishing
			r.mu.Unlock()
			if !fin {
				r.ViolationV(v)
				r.Finish()
			}
		}
	}
	fmt.Printf("HARNESS-ERROR "+format+"\n", args...)
	os.Exit(2)
}

var inHarness atomic.Bool

var (
	fdMu       sync.Mutex
	fdPeak     int
	fdPeakDesc string
)

// sampleDescriptors records the largest number of open descriptors seen (the
// garbage collector closes abandoned files eventually, so the number at the
// time somebody asks says little).
func sampleDescriptors() {
	for {
		time.Sleep(200 * time.Millisecond)
		ents, err := os.ReadDir("/proc/self/fd")
		if err != nil {
			return
		}
		fdMu.Lock()
		if len(ents) > fdPeak {
			fdPeak = len(ents)
			if fdPeak >= 200 {
				fdPeakDesc = openDescriptors()
			}
		}
		fdMu.Unlock()
	}
}

// descriptorLeak reports whether this process is close to its limit of open
// files, and the violation that describes it. The harness closes what it opens
// (the unchanged tree runs the same cases far below the limit), so descriptors
// piling up belong to the code under test.
func descriptorLeak(context string) (V, bool) {
	var lim syscall.Rlimit
	if syscall.Getrlimit(syscall.RLIMIT_NOFILE, &lim) != nil {
		return V{}, false
	}
	ents, _ := os.ReadDir("/proc/self/fd")
	fdMu.Lock()
	peak, desc := fdPeak, fdPeakDesc
	fdMu.Unlock()
	if len(ents) >= peak {
		peak, desc = len(ents), openDescriptors()
	}
	if os.Getenv("VERIF_DEBUG_FD") != "" {
		fmt.Fprintf(os.Stderr, "descriptors: now %d peak %d limit %d\n", len(ents), peak, lim.Cur)
	}
	// the harnesses stay below about a hundred descriptors on the unchanged tree;
	// abandoned files are closed by the garbage collector, so the limit itself
	// is only touched for moments
	if uint64(peak) < lim.Cur/2 && peak < 1000 {
		return V{}, false
	}
	what := "the code under test keeps file descriptors open: the process is running out of them" + desc + "; first noticed as: " + context
	return V{Key: "descriptor-leak", What: what, Case: map[string]any{"descriptor_leak": context}, NoConfirm: true}, true
}

// Q quotes bytes for keys and messages.
func Q(b []byte) string { return strconv.Quote(string(b)) }

func sinceSeconds(r *Run) float64 { return time.Since(r.start).Seconds() }

func (r *Run) replayConcurrently(raw json.RawMessage, key string) bool {
	var found, stop int32
	var wg sync.WaitGroup
	deadline := time.Now().Add(2 * time.Second)
	for g := 0; g < 8; g++ {
		wg.Add(1)
		go func(g int) {
			defer wg.Done()
			for i := 0; time.Now().Before(deadline) && atomic.LoadInt32(&found) == 0 && atomic.LoadInt32(&stop) == 0; i++ {
				if g >= 2 && r.Noise != nil {
					func() {
						defer func() { recover() }() // the noise may itself trip over the shared state
						r.Noise(g*1000003 + i)
					}()
					continue
				}
				for _, v := range r.Replayer(raw) {
					if v.Key == key {
						atomic.StoreInt32(&found, 1)
					}
				}
			}
		}(g)
	}
	wg.Wait()
	return found != 0
}

func oneLine(s string) string {
	s = strings.ReplaceAll(s, "\n", " / ")
	if len(s) > 400 {
		s = s[:400] + "..."
	}
	return s
}
