// mutgen writes single-point mutants of a Go source file: one file per mutant
// (the whole mutated source) plus an index. It is a detection-demonstration aid
// (mutations/README.md), not part of any check.
//
//	mutgen -file /repo/par/work.go -out /dev/shm/mut/par-work [-funcs Do,runner]
package main

import (
	"bytes"
	"encoding/json"
	"flag"
	"fmt"
	"go/ast"
	"go/parser"
	"go/printer"
	"go/token"
	"os"
	"path/filepath"
	"strconv"
	"strings"
)

type mutant struct {
	ID   int    `json:"id"`
	Line int    `json:"line"`
	Func string `json:"func"`
	Desc string `json:"desc"`
	File string `json:"file"`
}

var swaps = map[token.Token][]token.Token{
	token.EQL:  {token.NEQ},
	token.NEQ:  {token.EQL},
	token.LSS:  {token.LEQ, token.GEQ},
	token.LEQ:  {token.LSS, token.GTR},
	token.GTR:  {token.GEQ, token.LEQ},
	token.GEQ:  {token.GTR, token.LSS},
	token.LAND: {token.LOR},
	token.LOR:  {token.LAND},
	token.ADD:  {token.SUB},
	token.SUB:  {token.ADD},
	token.AND:  {token.OR},
	token.OR:   {token.AND},
}

func main() {
	file := flag.String("file", "", "source file")
	out := flag.String("out", "", "output directory")
	funcs := flag.String("funcs", "", "comma-separated function names (default all)")
	flag.Parse()
	src, err := os.ReadFile(*file)
	if err != nil {
		panic(err)
	}
	want := map[string]bool{}
	for _, f := range strings.Split(*funcs, ",") {
		if f != "" {
			want[f] = true
		}
	}
	os.MkdirAll(*out, 0o777)
	var index []mutant
	n := 0
	emit := func(fset *token.FileSet, f *ast.File, line int, fn, desc string) {
		var buf bytes.Buffer
		if err := (&printer.Config{Mode: printer.UseSpaces | printer.TabIndent, Tabwidth: 8}).Fprint(&buf, fset, f); err != nil {
			return
		}
		n++
		name := fmt.Sprintf("m%04d.go", n)
		os.WriteFile(filepath.Join(*out, name), buf.Bytes(), 0o666)
		index = append(index, mutant{n, line, fn, desc, name})
	}
	// Every mutation re-parses the file so that mutants are independent; sites
	// are addressed by their ordinal in a deterministic walk.
	type site struct {
		kind string
		ord  int
		alt  int
	}
	countSites := func() []site {
		fset := token.NewFileSet()
		f, err := parser.ParseFile(fset, *file, src, parser.ParseComments)
		if err != nil {
			panic(err)
		}
		var sites []site
		ord := map[string]int{}
		walk(f, want, func(fn string, node ast.Node, parent *[]ast.Stmt, idx int) {
			switch x := node.(type) {
			case *ast.BinaryExpr:
				for a := range swaps[x.Op] {
					sites = append(sites, site{"bin", ord["bin"], a})
				}
				ord["bin"]++
			case *ast.BasicLit:
				if x.Kind == token.INT {
					sites = append(sites, site{"int", ord["int"], 0}, site{"int", ord["int"], 1})
					ord["int"]++
				}
			case *ast.Ident:
				if x.Name == "true" || x.Name == "false" {
					sites = append(sites, site{"bool", ord["bool"], 0})
					ord["bool"]++
				}
			case *ast.IfStmt:
				sites = append(sites, site{"ifneg", ord["ifneg"], 0})
				ord["ifneg"]++
			case ast.Stmt:
				if parent != nil && deletable(x) {
					sites = append(sites, site{"del", ord["del"], 0})
					ord["del"]++
				}
			}
		})
		return sites
	}
	for _, s := range countSites() {
		fset := token.NewFileSet()
		f, _ := parser.ParseFile(fset, *file, src, parser.ParseComments)
		ord := map[string]int{}
		done := false
		walk(f, want, func(fn string, node ast.Node, parent *[]ast.Stmt, idx int) {
			if done {
				return
			}
			line := fset.Position(node.Pos()).Line
			switch x := node.(type) {
			case *ast.BinaryExpr:
				if s.kind == "bin" {
					if ord["bin"] == s.ord {
						old := x.Op
						x.Op = swaps[old][s.alt]
						emit(fset, f, line, fn, fmt.Sprintf("%s -> %s", old, x.Op))
						done = true
					}
					ord["bin"]++
				}
			case *ast.BasicLit:
				if s.kind == "int" && x.Kind == token.INT {
					if ord["int"] == s.ord {
						v, err := strconv.ParseInt(x.Value, 0, 64)
						if err == nil {
							nv := v + 1
							if s.alt == 1 {
								nv = v - 1
							}
							old := x.Value
							x.Value = strconv.FormatInt(nv, 10)
							emit(fset, f, line, fn, fmt.Sprintf("%s -> %s", old, x.Value))
						}
						done = true
					}
					ord["int"]++
				}
			case *ast.Ident:
				if s.kind == "bool" && (x.Name == "true" || x.Name == "false") {
					if ord["bool"] == s.ord {
						old := x.Name
						if old == "true" {
							x.Name = "false"
						} else {
							x.Name = "true"
						}
						emit(fset, f, line, fn, old+" -> "+x.Name)
						done = true
					}
					ord["bool"]++
				}
			case *ast.IfStmt:
				if s.kind == "ifneg" {
					if ord["ifneg"] == s.ord {
						x.Cond = &ast.UnaryExpr{Op: token.NOT, X: &ast.ParenExpr{X: x.Cond}}
						emit(fset, f, line, fn, "if cond -> if !(cond)")
						done = true
					}
					ord["ifneg"]++
				}
			case ast.Stmt:
				if s.kind == "del" && parent != nil && deletable(x) {
					if ord["del"] == s.ord {
						var b bytes.Buffer
						printer.Fprint(&b, fset, x)
						desc := strings.SplitN(b.String(), "\n", 2)[0]
						(*parent)[idx] = &ast.EmptyStmt{Semicolon: x.Pos(), Implicit: false}
						emit(fset, f, line, fn, "delete: "+desc)
						done = true
					}
					ord["del"]++
				}
			}
		})
	}
	data, _ := json.MarshalIndent(index, "", " ")
	os.WriteFile(filepath.Join(*out, "index.json"), data, 0o666)
	fmt.Printf("%d mutants\n", len(index))
}

func deletable(s ast.Stmt) bool {
	switch x := s.(type) {
	case *ast.ExprStmt, *ast.IncDecStmt, *ast.DeferStmt, *ast.GoStmt:
		return true
	case *ast.AssignStmt:
		return x.Tok != token.DEFINE
	}
	return false
}

// walk visits the nodes of the selected functions in a fixed order; for
// statements it also passes the enclosing list and index.
func walk(f *ast.File, want map[string]bool, visit func(fn string, n ast.Node, parent *[]ast.Stmt, idx int)) {
	for _, d := range f.Decls {
		fd, ok := d.(*ast.FuncDecl)
		if !ok || fd.Body == nil {
			continue
		}
		if len(want) > 0 && !want[fd.Name.Name] {
			continue
		}
		fn := fd.Name.Name
		var rec func(n ast.Node)
		list := func(l *[]ast.Stmt) {
			for i := range *l {
				st := (*l)[i]
				visit(fn, st, l, i)
				rec((*l)[i])
			}
		}
		rec = func(n ast.Node) {
			ast.Inspect(n, func(c ast.Node) bool {
				if c == nil || c == n {
					return true
				}
				switch x := c.(type) {
				case *ast.BlockStmt:
					list(&x.List)
					return false
				case *ast.CaseClause:
					for _, e := range x.List {
						rec0(e, fn, visit)
					}
					list(&x.Body)
					return false
				case *ast.CommClause:
					list(&x.Body)
					return false
				case ast.Stmt:
					// statements outside lists (if init, for post): visit, not deletable
					visit(fn, x, nil, 0)
					return true
				default:
					visit(fn, c, nil, 0)
					return true
				}
			})
		}
		list(&fd.Body.List)
	}
}

func rec0(e ast.Node, fn string, visit func(fn string, n ast.Node, parent *[]ast.Stmt, idx int)) {
	ast.Inspect(e, func(c ast.Node) bool {
		if c != nil {
			visit(fn, c, nil, 0)
		}
		return true
	})
}
