// vinstr regenerates the instrumented variants of /repo's source files for one
// check, from the live working tree, and writes an overlay.json for
// `go build -overlay` (DESIGN.md section 3). Nothing under /repo is written.
//
// Configuration (checks/<id>/instr.conf), one directive per line:
//
//	file <path relative to repo>      starts a block for one source file
//	  import <std path> <replacement> redirect an import, keeping the local name
//	  gostmt <pkg path>               rewrite `go f(x)` to <pkg>.Go(name, func(){ f(x) })
//	  point <pkg path> <label> <callee-substring>
//	                                  insert <pkg>.Point(label) before each statement that calls a
//	                                  function whose printed form contains the substring
//	  require <text>                  fail unless the source contains <text>
//	add <path relative to repo> <path relative to verif>
//	                                  add a file (must not exist in repo) through the overlay
package main

import (
	"bytes"
	"encoding/json"
	"flag"
	"fmt"
	"go/ast"
	"go/format"
	"go/parser"
	"go/token"
	"os"
	"path"
	"path/filepath"
	"strconv"
	"strings"

	"golang.org/x/tools/go/ast/astutil"
)

type fileBlock struct {
	rel      string
	imports  map[string]string
	optional map[string]bool
	gostmt   string
	points   [][3]string
	require  []string

	extract    []string // function names to extract (engine X)
	extractOut string   // virtual file path relative to the verif root
	extractPkg string
}

func die(format string, args ...any) {
	fmt.Fprintf(os.Stderr, "vinstr: "+format+"\n", args...)
	os.Exit(1)
}

func main() {
	conf := flag.String("conf", "", "instr.conf")
	repo := flag.String("repo", "/repo", "repository root")
	verif := flag.String("verif", "/verif", "verif root")
	out := flag.String("out", "", "output directory")
	flag.Parse()
	data, err := os.ReadFile(*conf)
	if err != nil {
		die("%v", err)
	}
	var blocks []*fileBlock
	var extracts []*fileBlock
	var cur *fileBlock
	adds := map[string]string{}
	for ln, line := range strings.Split(string(data), "\n") {
		f := strings.Fields(line)
		if len(f) == 0 || strings.HasPrefix(f[0], "#") {
			continue
		}
		switch f[0] {
		case "file":
			cur = &fileBlock{rel: f[1], imports: map[string]string{}}
			blocks = append(blocks, cur)
		case "import", "import?":
			// import? redirects the import if the file has it (a file that does
			// not import the package today may after a change)
			if cur == nil || len(f) != 3 {
				die("%s:%d: bad import directive", *conf, ln+1)
			}
			cur.imports[f[1]] = f[2]
			if f[0] == "import?" {
				if cur.optional == nil {
					cur.optional = map[string]bool{}
				}
				cur.optional[f[1]] = true
			}
		case "gostmt":
			cur.gostmt = f[1]
		case "point":
			if len(f) != 4 {
				die("%s:%d: bad point directive", *conf, ln+1)
			}
			cur.points = append(cur.points, [3]string{f[1], f[2], f[3]})
		case "require":
			cur.require = append(cur.require, strings.TrimSpace(strings.TrimPrefix(strings.TrimSpace(line), "require")))
		case "add":
			adds[f[1]] = f[2]
		case "extract":
			if len(f) != 5 {
				die("%s:%d: extract <repo file> <func,func> <out path in verif> <package>", *conf, ln+1)
			}
			cur = &fileBlock{rel: f[1], imports: map[string]string{}, extract: strings.Split(f[2], ","), extractOut: f[3], extractPkg: f[4]}
			extracts = append(extracts, cur)
		default:
			die("%s:%d: unknown directive %q", *conf, ln+1, f[0])
		}
	}
	if err := os.MkdirAll(*out, 0o777); err != nil {
		die("%v", err)
	}
	overlay := map[string]string{}
	for i, b := range blocks {
		src := filepath.Join(*repo, b.rel)
		text, err := os.ReadFile(src)
		if err != nil {
			die("%v", err)
		}
		for _, r := range b.require {
			if !bytes.Contains(text, []byte(r)) {
				die("%s no longer contains %q (instrumentation assumption broken)", b.rel, r)
			}
		}
		res, err := transform(src, text, b)
		if err != nil {
			die("%s: %v", b.rel, err)
		}
		dst := filepath.Join(*out, fmt.Sprintf("f%d_%s", i, filepath.Base(b.rel)))
		if err := os.WriteFile(dst, res, 0o666); err != nil {
			die("%v", err)
		}
		overlay[src] = dst
	}
	for i, b := range extracts {
		src := filepath.Join(*repo, b.rel)
		text, err := os.ReadFile(src)
		if err != nil {
			die("%v", err)
		}
		res, err := extractFuncs(src, text, b)
		if err != nil {
			die("extract from %s: %v", b.rel, err)
		}
		dst := filepath.Join(*out, fmt.Sprintf("x%d_%s", i, filepath.Base(b.extractOut)))
		if err := os.WriteFile(dst, res, 0o666); err != nil {
			die("%v", err)
		}
		overlay[filepath.Join(*verif, b.extractOut)] = dst
	}
	for rel, from := range adds {
		dst := filepath.Join(*repo, rel)
		if _, err := os.Stat(dst); err == nil {
			die("add %s: file exists in repository", rel)
		}
		overlay[dst] = filepath.Join(*verif, from)
	}
	js, _ := json.MarshalIndent(map[string]any{"Replace": overlay}, "", " ")
	if err := os.WriteFile(filepath.Join(*out, "overlay.json"), js, 0o666); err != nil {
		die("%v", err)
	}
}

func transform(filename string, text []byte, b *fileBlock) ([]byte, error) {
	fset := token.NewFileSet()
	// Comments are dropped from the body (the printer would misplace them around
	// rewritten statements); the text before the package clause, which holds any
	// build constraints, is carried over verbatim. Compiler directives in the
	// body would be lost, so their presence is an error.
	f, err := parser.ParseFile(fset, filename, text, 0)
	if err != nil {
		return nil, err
	}
	pkgOff := fset.Position(f.Package).Offset
	header := text[:pkgOff]
	for _, line := range strings.Split(string(text[pkgOff:]), "\n") {
		t := strings.TrimSpace(line)
		if strings.HasPrefix(t, "//go:") && !strings.HasPrefix(t, "//go:generate") {
			return nil, fmt.Errorf("compiler directive %q in the body is not supported by the instrumenter", t)
		}
	}
	// 1. import redirection
	done := map[string]bool{}
	for _, im := range f.Imports {
		p, _ := strconv.Unquote(im.Path.Value)
		repl, ok := b.imports[p]
		if !ok {
			continue
		}
		local := path.Base(p)
		if im.Name != nil {
			local = im.Name.Name
		}
		im.Name = ast.NewIdent(local)
		im.Path.Value = strconv.Quote(repl)
		done[p] = true
	}
	for p := range b.imports {
		if !done[p] && !b.optional[p] {
			return nil, fmt.Errorf("import %q to redirect not found", p)
		}
	}
	extra := map[string]string{} // local name -> path
	// 2. go statements
	if b.gostmt != "" {
		n := 0
		ast.Inspect(f, func(node ast.Node) bool {
			blk, ok := node.(*ast.BlockStmt)
			if !ok {
				return true
			}
			for i, st := range blk.List {
				g, ok := st.(*ast.GoStmt)
				if !ok {
					continue
				}
				n++
				blk.List[i] = rewriteGo(g, fset, n)
			}
			return true
		})
		// go statements directly in case clauses etc. are not handled: make sure none is left
		left := 0
		ast.Inspect(f, func(node ast.Node) bool {
			if _, ok := node.(*ast.GoStmt); ok {
				left++
			}
			return true
		})
		if left > 0 {
			return nil, fmt.Errorf("%d go statement(s) in a position the rewriter does not handle", left)
		}
		if n > 0 {
			extra["verifsched"] = b.gostmt
		}
	}
	// 3. points
	for _, pt := range b.points {
		pkg, label, sub := pt[0], pt[1], pt[2]
		hits := 0
		ast.Inspect(f, func(node ast.Node) bool {
			blk, ok := node.(*ast.BlockStmt)
			if !ok {
				return true
			}
			var nl []ast.Stmt
			for _, st := range blk.List {
				if stmtCalls(fset, st, sub) {
					hits++
					nl = append(nl, &ast.ExprStmt{X: &ast.CallExpr{
						Fun:  &ast.SelectorExpr{X: ast.NewIdent("verifhook"), Sel: ast.NewIdent("Point")},
						Args: []ast.Expr{&ast.BasicLit{Kind: token.STRING, Value: strconv.Quote(label)}},
					}})
				}
				nl = append(nl, st)
			}
			blk.List = nl
			return true
		})
		if hits == 0 {
			return nil, fmt.Errorf("point %s: no statement calls %q", label, sub)
		}
		extra["verifhook"] = pkg
	}
	for local, p := range extra {
		spec := &ast.ImportSpec{Name: ast.NewIdent(local), Path: &ast.BasicLit{Kind: token.STRING, Value: strconv.Quote(p)}}
		f.Decls = append([]ast.Decl{&ast.GenDecl{Tok: token.IMPORT, Specs: []ast.Spec{spec}}}, f.Decls...)
	}
	var buf bytes.Buffer
	if err := format.Node(&buf, fset, f); err != nil {
		return nil, err
	}
	return append(append([]byte(nil), header...), buf.Bytes()...), nil
}

// stmtCalls reports whether st directly (not inside a nested block or function
// literal) contains a call whose function expression prints with the substring.
func stmtCalls(fset *token.FileSet, st ast.Stmt, sub string) bool {
	switch st.(type) {
	case *ast.ExprStmt, *ast.AssignStmt, *ast.ReturnStmt, *ast.DeferStmt, *ast.IfStmt:
	default:
		return false
	}
	found := false
	var root ast.Node = st
	if ifs, ok := st.(*ast.IfStmt); ok {
		// only the init and condition belong to this statement
		found = nodeCalls(fset, ifs.Init, sub) || nodeCalls(fset, ifs.Cond, sub)
		return found
	}
	return nodeCalls(fset, root, sub)
}

func nodeCalls(fset *token.FileSet, n ast.Node, sub string) bool {
	if n == nil || (fmt.Sprintf("%v", n) == "<nil>") {
		return false
	}
	found := false
	ast.Inspect(n, func(x ast.Node) bool {
		switch c := x.(type) {
		case *ast.FuncLit, *ast.BlockStmt:
			return false
		case *ast.CallExpr:
			// the call's own text: function expression and arguments, function
			// literals elided (their bodies are other statements)
			var b bytes.Buffer
			if _, lit := c.Fun.(*ast.FuncLit); !lit {
				format.Node(&b, fset, c.Fun)
			}
			b.WriteByte('(')
			for i, a := range c.Args {
				if i > 0 {
					b.WriteString(", ")
				}
				if _, lit := a.(*ast.FuncLit); lit {
					b.WriteString("func")
					continue
				}
				format.Node(&b, fset, a)
			}
			b.WriteByte(')')
			if strings.Contains(b.String(), sub) {
				found = true
			}
		}
		return true
	})
	return found
}

// rewriteGo turns `go f(a, b)` into
//
//	{ _a0, _a1 := a, b; verifsched.Go("go#n", func() { f(_a0, _a1) }) }
//
// so operands are evaluated at spawn time as the language specifies. A function
// literal callee or a method value receiver is evaluated at spawn time too.
func rewriteGo(g *ast.GoStmt, fset *token.FileSet, n int) ast.Stmt {
	call := g.Call
	var lhs, rhs []ast.Expr
	newArgs := make([]ast.Expr, len(call.Args))
	for i, a := range call.Args {
		id := ast.NewIdent(fmt.Sprintf("_verifArg%d", i))
		lhs = append(lhs, id)
		rhs = append(rhs, a)
		newArgs[i] = id
	}
	fun := call.Fun
	if _, isLit := fun.(*ast.FuncLit); !isLit {
		id := ast.NewIdent("_verifFun")
		lhs = append(lhs, id)
		rhs = append(rhs, fun)
		fun = id
	}
	inner := &ast.CallExpr{Fun: fun, Args: newArgs, Ellipsis: call.Ellipsis}
	spawn := &ast.ExprStmt{X: &ast.CallExpr{
		Fun: &ast.SelectorExpr{X: ast.NewIdent("verifsched"), Sel: ast.NewIdent("Go")},
		Args: []ast.Expr{
			&ast.BasicLit{Kind: token.STRING, Value: strconv.Quote(fmt.Sprintf("go#%d", n))},
			&ast.FuncLit{Type: &ast.FuncType{Params: &ast.FieldList{}}, Body: &ast.BlockStmt{List: []ast.Stmt{&ast.ExprStmt{X: inner}}}},
		},
	}}
	blk := &ast.BlockStmt{}
	if len(lhs) > 0 {
		blk.List = append(blk.List, &ast.AssignStmt{Lhs: lhs, Tok: token.DEFINE, Rhs: rhs})
	}
	blk.List = append(blk.List, spawn)
	return blk
}

// ---------- engine X: function extraction onto the virtual runtime ----------

func vrtSel(name string) ast.Expr {
	return &ast.SelectorExpr{X: ast.NewIdent("vrt"), Sel: ast.NewIdent(name)}
}

func chanOf(elem ast.Expr) ast.Expr {
	return &ast.StarExpr{X: &ast.IndexExpr{X: vrtSel("Chan"), Index: elem}}
}

// rewriteChans rewrites go statements, channel types, make(chan), send, receive,
// close and select onto package vrt. It is purely syntactic.
func rewriteChans(n ast.Node, goCount *int) ast.Node {
	var pre func(c *astutil.Cursor) bool
	rw := func(x ast.Node) ast.Node { return rewriteChans(x, goCount) }
	rwExpr := func(e ast.Expr) ast.Expr {
		if e == nil {
			return nil
		}
		return rw(e).(ast.Expr)
	}
	method := func(recv ast.Expr, name string, args ...ast.Expr) *ast.CallExpr {
		return &ast.CallExpr{Fun: &ast.SelectorExpr{X: rwExpr(recv), Sel: ast.NewIdent(name)}, Args: args}
	}
	pre = func(c *astutil.Cursor) bool {
		switch x := c.Node().(type) {
		case *ast.ChanType:
			c.Replace(chanOf(rwExpr(x.Value)))
			return false
		case *ast.SendStmt:
			c.Replace(&ast.ExprStmt{X: method(x.Chan, "Send", rwExpr(x.Value))})
			return false
		case *ast.UnaryExpr:
			if x.Op == token.ARROW {
				c.Replace(method(x.X, "Recv"))
				return false
			}
		case *ast.AssignStmt:
			if len(x.Lhs) == 2 && len(x.Rhs) == 1 {
				if u, ok := x.Rhs[0].(*ast.UnaryExpr); ok && u.Op == token.ARROW {
					x.Rhs[0] = method(u.X, "Recv2")
					return false
				}
			}
		case *ast.CallExpr:
			if id, ok := x.Fun.(*ast.Ident); ok {
				if id.Name == "make" && len(x.Args) >= 1 {
					if ct, ok := x.Args[0].(*ast.ChanType); ok {
						var size ast.Expr = &ast.BasicLit{Kind: token.INT, Value: "0"}
						if len(x.Args) > 1 {
							size = rwExpr(x.Args[1])
						}
						c.Replace(&ast.CallExpr{Fun: &ast.IndexExpr{X: vrtSel("NewChan"), Index: rwExpr(ct.Value)}, Args: []ast.Expr{size}})
						return false
					}
				}
				if id.Name == "close" && len(x.Args) == 1 {
					c.Replace(method(x.Args[0], "Close"))
					return false
				}
			}
		case *ast.GoStmt:
			*goCount++
			call := rw(x.Call).(*ast.CallExpr)
			var body *ast.BlockStmt
			if fl, ok := call.Fun.(*ast.FuncLit); ok && len(call.Args) == 0 {
				body = fl.Body
			} else {
				body = &ast.BlockStmt{List: []ast.Stmt{&ast.ExprStmt{X: call}}}
			}
			c.Replace(&ast.ExprStmt{X: &ast.CallExpr{Fun: vrtSel("Go"), Args: []ast.Expr{
				&ast.BasicLit{Kind: token.STRING, Value: strconv.Quote(fmt.Sprintf("go#%d", *goCount))},
				&ast.FuncLit{Type: &ast.FuncType{Params: &ast.FieldList{}}, Body: body},
			}}})
			return false
		case *ast.SelectStmt:
			hasDefault := "false"
			var cases []ast.Expr
			var clauses []ast.Stmt
			idx := 0
			var defaultBody []ast.Stmt
			for _, cl := range x.Body.List {
				cc := cl.(*ast.CommClause)
				var body []ast.Stmt
				for _, st := range cc.Body {
					body = append(body, rw(st).(ast.Stmt))
				}
				if cc.Comm == nil {
					hasDefault = "true"
					defaultBody = body
					continue
				}
				switch comm := cc.Comm.(type) {
				case *ast.SendStmt:
					cases = append(cases, &ast.CallExpr{Fun: vrtSel("SendCase"), Args: []ast.Expr{rwExpr(comm.Chan), rwExpr(comm.Value)}})
				case *ast.ExprStmt:
					u := comm.X.(*ast.UnaryExpr)
					cases = append(cases, &ast.CallExpr{Fun: vrtSel("RecvCase"), Args: []ast.Expr{rwExpr(u.X)}})
				case *ast.AssignStmt:
					u := comm.Rhs[0].(*ast.UnaryExpr)
					ch := rwExpr(u.X)
					cases = append(cases, &ast.CallExpr{Fun: vrtSel("RecvCase"), Args: []ast.Expr{ch}})
					rhs := []ast.Expr{&ast.CallExpr{Fun: vrtSel("Cast"), Args: []ast.Expr{ch, ast.NewIdent("_verifV")}}}
					if len(comm.Lhs) == 2 {
						rhs = append(rhs, ast.NewIdent("_verifOK"))
					}
					body = append([]ast.Stmt{&ast.AssignStmt{Lhs: comm.Lhs, Tok: comm.Tok, Rhs: rhs}}, body...)
				}
				clauses = append(clauses, &ast.CaseClause{List: []ast.Expr{&ast.BasicLit{Kind: token.INT, Value: strconv.Itoa(idx)}}, Body: body})
				idx++
			}
			if hasDefault == "true" {
				clauses = append(clauses, &ast.CaseClause{Body: defaultBody})
			}
			args := append([]ast.Expr{ast.NewIdent(hasDefault)}, cases...)
			blk := &ast.BlockStmt{List: []ast.Stmt{
				&ast.AssignStmt{Lhs: []ast.Expr{ast.NewIdent("_verifI"), ast.NewIdent("_verifV"), ast.NewIdent("_verifOK")}, Tok: token.DEFINE, Rhs: []ast.Expr{&ast.CallExpr{Fun: vrtSel("Select"), Args: args}}},
				&ast.AssignStmt{Lhs: []ast.Expr{ast.NewIdent("_"), ast.NewIdent("_")}, Tok: token.ASSIGN, Rhs: []ast.Expr{ast.NewIdent("_verifV"), ast.NewIdent("_verifOK")}},
				&ast.SwitchStmt{Tag: ast.NewIdent("_verifI"), Body: &ast.BlockStmt{List: clauses}},
			}}
			// a labelled break out of a select is not supported
			c.Replace(blk)
			return false
		}
		return true
	}
	return astutil.Apply(n, pre, nil)
}

// extractFuncs copies the named functions out of the source file into a new
// package whose imports are the configured virtual packages.
func extractFuncs(filename string, text []byte, b *fileBlock) ([]byte, error) {
	fset := token.NewFileSet()
	f, err := parser.ParseFile(fset, filename, text, 0)
	if err != nil {
		return nil, err
	}
	local := map[string]string{} // local import name -> path
	for _, im := range f.Imports {
		p, _ := strconv.Unquote(im.Path.Value)
		name := path.Base(p)
		if im.Name != nil {
			name = im.Name.Name
		}
		local[name] = p
	}
	var decls []ast.Decl
	used := map[string]bool{}
	goCount := 0
	for _, want := range b.extract {
		var fd *ast.FuncDecl
		for _, d := range f.Decls {
			if x, ok := d.(*ast.FuncDecl); ok && x.Recv == nil && x.Name.Name == want {
				fd = x
			}
		}
		if fd == nil {
			return nil, fmt.Errorf("function %s not found", want)
		}
		fd = rewriteChans(fd, &goCount).(*ast.FuncDecl)
		ast.Inspect(fd, func(n ast.Node) bool {
			if se, ok := n.(*ast.SelectorExpr); ok {
				if id, ok := se.X.(*ast.Ident); ok && id.Obj == nil {
					if _, isImp := local[id.Name]; isImp {
						used[id.Name] = true
					}
				}
			}
			return true
		})
		decls = append(decls, fd)
		// exported alias
		decls = append(decls, &ast.GenDecl{Tok: token.VAR, Specs: []ast.Spec{&ast.ValueSpec{
			Names:  []*ast.Ident{ast.NewIdent("X_" + want)},
			Values: []ast.Expr{ast.NewIdent(want)},
		}}})
	}
	var specs []ast.Spec
	specs = append(specs, &ast.ImportSpec{Name: ast.NewIdent("vrt"), Path: &ast.BasicLit{Kind: token.STRING, Value: strconv.Quote("verif/virt/vrt")}})
	for name := range used {
		if name == "vrt" {
			continue
		}
		p := local[name]
		repl, ok := b.imports[p]
		if !ok {
			return nil, fmt.Errorf("extracted code uses package %q, for which no virtual replacement is configured", p)
		}
		specs = append(specs, &ast.ImportSpec{Name: ast.NewIdent(name), Path: &ast.BasicLit{Kind: token.STRING, Value: strconv.Quote(repl)}})
	}
	nf := &ast.File{Name: ast.NewIdent(b.extractPkg), Decls: append([]ast.Decl{&ast.GenDecl{Tok: token.IMPORT, Lparen: 1, Specs: specs}}, decls...)}
	var buf bytes.Buffer
	buf.WriteString("// Code generated by vinstr from " + b.rel + " (functions " + strings.Join(b.extract, ", ") + "); DO NOT EDIT.\n\n")
	if err := format.Node(&buf, token.NewFileSet(), nf); err != nil {
		return nil, err
	}
	return buf.Bytes(), nil
}
