// vinstr regenerates the instrumented variants of /repo's source files for one
// check, from the live working tree, and writes an overlay.json for
// `go build -overlay` (DESIGN.md section 3). Nothing under /repo is written.
//
// Configuration (checks/<id>/instr.conf), one directive per line:
//
//	file <path relative to repo>      starts a block for one source file
//	  import <std path> <replacement> redirect an import, keeping the local name
//	  gostmt <pkg path>               rewrite `go f(x)` to <pkg>.Go(name, func(){ f(x) })
//	  point <pkg path> <label> <callee-substring>
//	                                  insert <pkg>.Point(label) before each statement that calls a
//	                                  function whose printed form contains the substring
//	  require <text>                  fail unless the source contains <text>
//	add <path relative to repo> <path relative to verif>
//	                                  add a file (must not exist in repo) through the overlay
package main

import (
	"bytes"
	"encoding/json"
	"flag"
	"fmt"
	"go/ast"
	"go/format"
	"go/parser"
	"go/token"
	"os"
	"path"
	"path/filepath"
	"strconv"
	"strings"
)

type fileBlock struct {
	rel     string
	imports map[string]string
	gostmt  string
	points  [][3]string
	require []string
}

func die(format string, args ...any) {
	fmt.Fprintf(os.Stderr, "vinstr: "+format+"\n", args...)
	os.Exit(1)
}

func main() {
	conf := flag.String("conf", "", "instr.conf")
	repo := flag.String("repo", "/repo", "repository root")
	verif := flag.String("verif", "/verif", "verif root")
	out := flag.String("out", "", "output directory")
	flag.Parse()
	data, err := os.ReadFile(*conf)
	if err != nil {
		die("%v", err)
	}
	var blocks []*fileBlock
	var cur *fileBlock
	adds := map[string]string{}
	for ln, line := range strings.Split(string(data), "\n") {
		f := strings.Fields(line)
		if len(f) == 0 || strings.HasPrefix(f[0], "#") {
			continue
		}
		switch f[0] {
		case "file":
			cur = &fileBlock{rel: f[1], imports: map[string]string{}}
			blocks = append(blocks, cur)
		case "import":
			if cur == nil || len(f) != 3 {
				die("%s:%d: bad import directive", *conf, ln+1)
			}
			cur.imports[f[1]] = f[2]
		case "gostmt":
			cur.gostmt = f[1]
		case "point":
			if len(f) != 4 {
				die("%s:%d: bad point directive", *conf, ln+1)
			}
			cur.points = append(cur.points, [3]string{f[1], f[2], f[3]})
		case "require":
			cur.require = append(cur.require, strings.TrimSpace(strings.TrimPrefix(strings.TrimSpace(line), "require")))
		case "add":
			adds[f[1]] = f[2]
		default:
			die("%s:%d: unknown directive %q", *conf, ln+1, f[0])
		}
	}
	if err := os.MkdirAll(*out, 0o777); err != nil {
		die("%v", err)
	}
	overlay := map[string]string{}
	for i, b := range blocks {
		src := filepath.Join(*repo, b.rel)
		text, err := os.ReadFile(src)
		if err != nil {
			die("%v", err)
		}
		for _, r := range b.require {
			if !bytes.Contains(text, []byte(r)) {
				die("%s no longer contains %q (instrumentation assumption broken)", b.rel, r)
			}
		}
		res, err := transform(src, text, b)
		if err != nil {
			die("%s: %v", b.rel, err)
		}
		dst := filepath.Join(*out, fmt.Sprintf("f%d_%s", i, filepath.Base(b.rel)))
		if err := os.WriteFile(dst, res, 0o666); err != nil {
			die("%v", err)
		}
		overlay[src] = dst
	}
	for rel, from := range adds {
		dst := filepath.Join(*repo, rel)
		if _, err := os.Stat(dst); err == nil {
			die("add %s: file exists in repository", rel)
		}
		overlay[dst] = filepath.Join(*verif, from)
	}
	js, _ := json.MarshalIndent(map[string]any{"Replace": overlay}, "", " ")
	if err := os.WriteFile(filepath.Join(*out, "overlay.json"), js, 0o666); err != nil {
		die("%v", err)
	}
}

func transform(filename string, text []byte, b *fileBlock) ([]byte, error) {
	fset := token.NewFileSet()
	// Comments are dropped from the body (the printer would misplace them around
	// rewritten statements); the text before the package clause, which holds any
	// build constraints, is carried over verbatim. Compiler directives in the
	// body would be lost, so their presence is an error.
	f, err := parser.ParseFile(fset, filename, text, 0)
	if err != nil {
		return nil, err
	}
	pkgOff := fset.Position(f.Package).Offset
	header := text[:pkgOff]
	for _, line := range strings.Split(string(text[pkgOff:]), "\n") {
		t := strings.TrimSpace(line)
		if strings.HasPrefix(t, "//go:") && !strings.HasPrefix(t, "//go:generate") {
			return nil, fmt.Errorf("compiler directive %q in the body is not supported by the instrumenter", t)
		}
	}
	// 1. import redirection
	done := map[string]bool{}
	for _, im := range f.Imports {
		p, _ := strconv.Unquote(im.Path.Value)
		repl, ok := b.imports[p]
		if !ok {
			continue
		}
		local := path.Base(p)
		if im.Name != nil {
			local = im.Name.Name
		}
		im.Name = ast.NewIdent(local)
		im.Path.Value = strconv.Quote(repl)
		done[p] = true
	}
	for p := range b.imports {
		if !done[p] {
			return nil, fmt.Errorf("import %q to redirect not found", p)
		}
	}
	extra := map[string]string{} // local name -> path
	// 2. go statements
	if b.gostmt != "" {
		n := 0
		ast.Inspect(f, func(node ast.Node) bool {
			blk, ok := node.(*ast.BlockStmt)
			if !ok {
				return true
			}
			for i, st := range blk.List {
				g, ok := st.(*ast.GoStmt)
				if !ok {
					continue
				}
				n++
				blk.List[i] = rewriteGo(g, fset, n)
			}
			return true
		})
		// go statements directly in case clauses etc. are not handled: make sure none is left
		left := 0
		ast.Inspect(f, func(node ast.Node) bool {
			if _, ok := node.(*ast.GoStmt); ok {
				left++
			}
			return true
		})
		if left > 0 {
			return nil, fmt.Errorf("%d go statement(s) in a position the rewriter does not handle", left)
		}
		if n > 0 {
			extra["verifsched"] = b.gostmt
		}
	}
	// 3. points
	for _, pt := range b.points {
		pkg, label, sub := pt[0], pt[1], pt[2]
		hits := 0
		ast.Inspect(f, func(node ast.Node) bool {
			blk, ok := node.(*ast.BlockStmt)
			if !ok {
				return true
			}
			var nl []ast.Stmt
			for _, st := range blk.List {
				if stmtCalls(fset, st, sub) {
					hits++
					nl = append(nl, &ast.ExprStmt{X: &ast.CallExpr{
						Fun:  &ast.SelectorExpr{X: ast.NewIdent("verifhook"), Sel: ast.NewIdent("Point")},
						Args: []ast.Expr{&ast.BasicLit{Kind: token.STRING, Value: strconv.Quote(label)}},
					}})
				}
				nl = append(nl, st)
			}
			blk.List = nl
			return true
		})
		if hits == 0 {
			return nil, fmt.Errorf("point %s: no statement calls %q", label, sub)
		}
		extra["verifhook"] = pkg
	}
	for local, p := range extra {
		spec := &ast.ImportSpec{Name: ast.NewIdent(local), Path: &ast.BasicLit{Kind: token.STRING, Value: strconv.Quote(p)}}
		f.Decls = append([]ast.Decl{&ast.GenDecl{Tok: token.IMPORT, Specs: []ast.Spec{spec}}}, f.Decls...)
	}
	var buf bytes.Buffer
	if err := format.Node(&buf, fset, f); err != nil {
		return nil, err
	}
	return append(append([]byte(nil), header...), buf.Bytes()...), nil
}

// stmtCalls reports whether st directly (not inside a nested block or function
// literal) contains a call whose function expression prints with the substring.
func stmtCalls(fset *token.FileSet, st ast.Stmt, sub string) bool {
	switch st.(type) {
	case *ast.ExprStmt, *ast.AssignStmt, *ast.ReturnStmt, *ast.DeferStmt, *ast.IfStmt:
	default:
		return false
	}
	found := false
	var root ast.Node = st
	if ifs, ok := st.(*ast.IfStmt); ok {
		// only the init and condition belong to this statement
		found = nodeCalls(fset, ifs.Init, sub) || nodeCalls(fset, ifs.Cond, sub)
		return found
	}
	return nodeCalls(fset, root, sub)
}

func nodeCalls(fset *token.FileSet, n ast.Node, sub string) bool {
	if n == nil || (fmt.Sprintf("%v", n) == "<nil>") {
		return false
	}
	found := false
	ast.Inspect(n, func(x ast.Node) bool {
		switch c := x.(type) {
		case *ast.FuncLit, *ast.BlockStmt:
			return false
		case *ast.CallExpr:
			// the call's own text: function expression and arguments, function
			// literals elided (their bodies are other statements)
			var b bytes.Buffer
			if _, lit := c.Fun.(*ast.FuncLit); !lit {
				format.Node(&b, fset, c.Fun)
			}
			b.WriteByte('(')
			for i, a := range c.Args {
				if i > 0 {
					b.WriteString(", ")
				}
				if _, lit := a.(*ast.FuncLit); lit {
					b.WriteString("func")
					continue
				}
				format.Node(&b, fset, a)
			}
			b.WriteByte(')')
			if strings.Contains(b.String(), sub) {
				found = true
			}
		}
		return true
	})
	return found
}

// rewriteGo turns `go f(a, b)` into
//
//	{ _a0, _a1 := a, b; verifsched.Go("go#n", func() { f(_a0, _a1) }) }
//
// so operands are evaluated at spawn time as the language specifies. A function
// literal callee or a method value receiver is evaluated at spawn time too.
func rewriteGo(g *ast.GoStmt, fset *token.FileSet, n int) ast.Stmt {
	call := g.Call
	var lhs, rhs []ast.Expr
	newArgs := make([]ast.Expr, len(call.Args))
	for i, a := range call.Args {
		id := ast.NewIdent(fmt.Sprintf("_verifArg%d", i))
		lhs = append(lhs, id)
		rhs = append(rhs, a)
		newArgs[i] = id
	}
	fun := call.Fun
	if _, isLit := fun.(*ast.FuncLit); !isLit {
		id := ast.NewIdent("_verifFun")
		lhs = append(lhs, id)
		rhs = append(rhs, fun)
		fun = id
	}
	inner := &ast.CallExpr{Fun: fun, Args: newArgs, Ellipsis: call.Ellipsis}
	spawn := &ast.ExprStmt{X: &ast.CallExpr{
		Fun: &ast.SelectorExpr{X: ast.NewIdent("verifsched"), Sel: ast.NewIdent("Go")},
		Args: []ast.Expr{
			&ast.BasicLit{Kind: token.STRING, Value: strconv.Quote(fmt.Sprintf("go#%d", n))},
			&ast.FuncLit{Type: &ast.FuncType{Params: &ast.FieldList{}}, Body: &ast.BlockStmt{List: []ast.Stmt{&ast.ExprStmt{X: inner}}}},
		},
	}}
	blk := &ast.BlockStmt{}
	if len(lhs) > 0 {
		blk.List = append(blk.List, &ast.AssignStmt{Lhs: lhs, Tok: token.DEFINE, Rhs: rhs})
	}
	blk.List = append(blk.List, spawn)
	return blk
}
