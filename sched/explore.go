package sched

// Explorer enumerates the choice tree of a scenario depth-first (CHESS style):
// run with a prefix, then for every later decision try each alternative whose
// preemption count stays within the bound.
type Explorer struct {
	Body     func()           // starts the scenario (fresh objects every time); runs as thread 1
	Check    func(*Exec) bool // oracle for one finished execution; false stops the search
	Bound    int              // max preemptions; <0 = unbounded
	Memo     *Memo            // state caching (only sound with Bound < 0)
	StateKey func() string
	Horizon  int
	Stop     func() bool // polled between executions (time cap)

	Executions int64
	Decisions  int64
	MaxDepth   int
	Pruned     int64
	Capped     bool
	stopped    bool
}

// Run explores everything below the empty prefix.
func (x *Explorer) Run() { x.explore(nil, 0) }

// RunFrom explores the subtree below a prefix (sharding).
func (x *Explorer) RunFrom(prefix []int) {
	x.explore(prefix, -1)
}

func (x *Explorer) explore(prefix []int, preBefore int) {
	if x.stopped {
		return
	}
	if x.Stop != nil && x.Stop() {
		x.Capped = true
		x.stopped = true
		return
	}
	e := Run(x.Body, Options{Prefix: prefix, Horizon: x.Horizon, Memo: x.Memo, StateKey: x.StateKey})
	x.Executions++
	x.Decisions += int64(len(e.Points) - len(prefix))
	if len(e.Points) > x.MaxDepth {
		x.MaxDepth = len(e.Points)
	}
	if e.NoYield != "" {
		// nothing further can be executed in this process
		x.Capped = true
		x.stopped = true
		if x.Check != nil {
			x.Check(e)
		}
		return
	}
	if x.Check != nil && !x.Check(e) {
		x.stopped = true
		return
	}
	if e.aborted {
		// a failed execution that the oracle chose to tolerate cannot be extended
		return
	}
	limit := len(e.Points)
	if p := e.PrunedAt(); p >= 0 {
		x.Pruned++
		limit = p
	}
	// preemptions used by the decisions before index i
	cost := 0
	for i := 0; i < len(e.Points) && i < limit; i++ {
		p := e.Points[i]
		if i >= len(prefix) {
			for alt := 1; alt < p.Arity; alt++ {
				c := cost
				if p.Preemptive {
					c++
				}
				if x.Bound >= 0 && c > x.Bound {
					continue
				}
				np := make([]int, i+1)
				copy(np, e.Choices[:i])
				np[i] = alt
				x.explore(np, c)
				if x.stopped {
					return
				}
			}
		}
		if p.Preemptive && e.Choices[i] > 0 {
			cost++
		}
	}
}
