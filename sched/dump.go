package sched

import (
	"fmt"
	"reflect"
	"sort"
	"strings"
	"unsafe"
)

// Dumper is implemented by shim types that know their own canonical state.
type Dumper interface {
	VerifDump() string
}

// Dump renders the complete state reachable from the roots (unexported fields
// included) in a canonical, address-free form: pointers are followed, cycles
// are cut with back-references numbered in visiting order, map entries are
// sorted, funcs and channels are rendered as presence only.
func Dump(roots ...any) string {
	d := &dumper{seen: map[unsafe.Pointer]int{}}
	for _, r := range roots {
		d.val(reflect.ValueOf(r), 0)
		d.sb.WriteByte(';')
	}
	return d.sb.String()
}

type dumper struct {
	sb   strings.Builder
	seen map[unsafe.Pointer]int
}

var dumperType = reflect.TypeOf((*Dumper)(nil)).Elem()

func (d *dumper) val(v reflect.Value, depth int) {
	if !v.IsValid() {
		d.sb.WriteString("nil")
		return
	}
	if depth > 40 {
		d.sb.WriteString("...")
		return
	}
	// make unexported fields readable
	if !v.CanInterface() && v.CanAddr() {
		v = reflect.NewAt(v.Type(), unsafe.Pointer(v.UnsafeAddr())).Elem()
	}
	if v.CanAddr() && v.Addr().Type().Implements(dumperType) && v.Addr().CanInterface() {
		d.sb.WriteString(v.Addr().Interface().(Dumper).VerifDump())
		return
	}
	if v.Type().Implements(dumperType) && v.CanInterface() && !(v.Kind() == reflect.Ptr && v.IsNil()) {
		d.sb.WriteString(v.Interface().(Dumper).VerifDump())
		return
	}
	switch v.Kind() {
	case reflect.Ptr:
		if v.IsNil() {
			d.sb.WriteString("nil")
			return
		}
		p := unsafe.Pointer(v.Pointer())
		if n, ok := d.seen[p]; ok {
			fmt.Fprintf(&d.sb, "^%d", n)
			return
		}
		d.seen[p] = len(d.seen)
		d.sb.WriteByte('&')
		d.val(v.Elem(), depth+1)
	case reflect.Interface:
		if v.IsNil() {
			d.sb.WriteString("nil")
			return
		}
		d.val(v.Elem(), depth+1)
	case reflect.Struct:
		d.sb.WriteByte('{')
		for i := 0; i < v.NumField(); i++ {
			f := v.Field(i)
			if f.Kind() == reflect.Func {
				continue
			}
			d.sb.WriteString(v.Type().Field(i).Name)
			d.sb.WriteByte(':')
			if !f.CanAddr() {
				// copy to an addressable value so unexported fields can be read
				c := reflect.New(v.Type()).Elem()
				c.Set(v)
				f = c.Field(i)
			}
			d.val(f, depth+1)
			d.sb.WriteByte(',')
		}
		d.sb.WriteByte('}')
	case reflect.Slice, reflect.Array:
		if v.Kind() == reflect.Slice && v.IsNil() {
			d.sb.WriteString("[]")
			return
		}
		d.sb.WriteByte('[')
		for i := 0; i < v.Len(); i++ {
			d.val(v.Index(i), depth+1)
			d.sb.WriteByte(',')
		}
		d.sb.WriteByte(']')
	case reflect.Map:
		var ents []string
		it := v.MapRange()
		for it.Next() {
			kd := &dumper{seen: d.seen}
			kd.val(it.Key(), depth+1)
			kd.sb.WriteByte('=')
			kd.val(it.Value(), depth+1)
			ents = append(ents, kd.sb.String())
		}
		sort.Strings(ents)
		d.sb.WriteString("map[" + strings.Join(ents, ",") + "]")
	case reflect.Func, reflect.Chan, reflect.UnsafePointer:
		if v.IsNil() {
			d.sb.WriteString("nil")
		} else {
			d.sb.WriteString(v.Kind().String())
		}
	case reflect.String:
		fmt.Fprintf(&d.sb, "%q", v.String())
	case reflect.Bool:
		fmt.Fprintf(&d.sb, "%v", v.Bool())
	case reflect.Int, reflect.Int8, reflect.Int16, reflect.Int32, reflect.Int64:
		fmt.Fprintf(&d.sb, "%d", v.Int())
	case reflect.Uint, reflect.Uint8, reflect.Uint16, reflect.Uint32, reflect.Uint64, reflect.Uintptr:
		fmt.Fprintf(&d.sb, "%d", v.Uint())
	case reflect.Float32, reflect.Float64:
		fmt.Fprintf(&d.sb, "%v", v.Float())
	default:
		fmt.Fprintf(&d.sb, "?%s", v.Kind())
	}
}
