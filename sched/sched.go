// Package sched is engine S: a cooperative scheduler that owns every hooked
// synchronisation step of the code under test, plus a stateless depth-first
// explorer over the resulting choice tree (DESIGN.md 4.1 and 12).
//
// Exactly one harness thread runs at any time; all others are parked inside
// Point/Block. Shims call Point (or Block, with an enabledness predicate)
// *before* an operation takes effect. When no execution is active every entry
// point degrades to a no-op, so that the same shims run free (race pass).
package sched

import (
	"fmt"
	"reflect"
	"runtime"
	"strings"
	"sync"
	"sync/atomic"
	"time"
	"verif/kit"
)

// Op describes the operation a thread is about to perform.
type Op struct {
	Kind string // "lock", "atomic", "cond-wait", "flock", "line", ...
	Obj  string // object it applies to (stable name)
}

func (o Op) String() string { return o.Kind + " " + o.Obj }

type thread struct {
	id      int
	name    string
	resume  chan struct{}
	op      Op
	enabled func() bool // nil = always enabled
	done    bool
	started bool
	pos     int    // points passed
	obs     uint64 // hash of everything shims returned to this thread
	inGet   int    // harness-defined "must not block" depth
	daemon  bool   // environment event: need not run or finish
	quit    bool   // set when the execution is over: BlockOrQuit returns false
}

// PointInfo records one decision of an execution.
type PointInfo struct {
	Arity      int    // number of alternatives (>= 2; single-option points are not recorded)
	Preemptive bool   // alternatives 1.. switch away from a runnable thread
	Kind       string // "sched" or a data-choice label
	Key        string // global state key at this point (memo mode only)
	Desc       string // enabled ops, for traces
}

// Exec is one execution.
type Exec struct {
	threads []*thread
	cur     *thread
	parked  chan struct{}
	prefix  []int
	Choices []int
	Points  []PointInfo
	Trace   []string // chosen op per step (only when tracing)
	tracing bool

	Deadlock              bool
	Livelock              bool
	DeadlockAt            string
	PanicVal              any
	PanicStack            string
	Steps                 int
	horizon               int
	memo                  *Memo
	prunedAt              int // index into Points from which no branching may happen (-1: none)
	draining              bool
	stateKey              func() string
	mustNotBlockViolation string
	aborted               bool
	objIDs                map[uintptr]int
	keep                  []any

	// NoYield: a thread ran for NoYieldAfter without reaching a scheduling
	// point (an endless loop in the code under test); reported as Livelock
	NoYield string
	waiting atomic.Bool
	waitSeq atomic.Uint64
	noYield atomic.Bool
}

// LivelockWhy describes why Livelock was set.
func (e *Exec) LivelockWhy() string {
	if e.NoYield != "" {
		return e.NoYield
	}
	return "execution exceeded the step horizon"
}

var poisoned atomic.Bool
var lastNoYield string

func init() { kit.WorkerPoisoned = Poisoned }

// Poisoned reports whether some execution of this process ended with a thread
// that never reached a scheduling point again (it is still running).
func Poisoned() bool { return poisoned.Load() }

// NoYieldMarker is part of every NoYield description (the kit does not replay
// such cases: each replay would leave another thread spinning).
const NoYieldMarker = "without reaching a scheduling point"

// NoYieldAfter is how long one thread may run between two scheduling points
// before the execution is declared livelocked. Steps normally take microseconds.
var NoYieldAfter = 20 * time.Second

var (
	watchedExec atomic.Pointer[Exec]
	watchOnce   sync.Once
)

func watchNoYield() {
	var lastE *Exec
	var lastSeq uint64
	var since time.Time
	for {
		time.Sleep(500 * time.Millisecond)
		e := watchedExec.Load()
		if e == nil || !e.waiting.Load() {
			lastE = nil
			continue
		}
		q := e.waitSeq.Load()
		if e != lastE || q != lastSeq {
			lastE, lastSeq, since = e, q, time.Now()
			continue
		}
		if time.Since(since) >= NoYieldAfter && !e.noYield.Load() {
			e.noYield.Store(true)
			select {
			case e.parked <- struct{}{}:
			case <-time.After(5 * time.Second):
			}
		}
	}
}

var (
	mu     sync.Mutex
	active *Exec
)

// Active reports whether a controlled execution is running.
func Active() bool { return active != nil }

// Self returns the id of the running thread (0 when free-running).
func Self() int {
	if active == nil || active.cur == nil {
		return 0
	}
	return active.cur.id
}

// ThreadName returns the name of the running thread.
func ThreadName() string {
	if active == nil || active.cur == nil {
		return ""
	}
	return active.cur.name
}

// Observe mixes a value that a shim returned to the running thread into that
// thread's observation hash (part of the global state key).
func Observe(v string) {
	e := active
	if e == nil || e.cur == nil {
		return
	}
	h := e.cur.obs
	if h == 0 {
		h = 14695981039346656037
	}
	for i := 0; i < len(v); i++ {
		h ^= uint64(v[i])
		h *= 1099511628211
	}
	h ^= 0xff
	h *= 1099511628211
	e.cur.obs = h
}

// ObserveValue is Observe for a value handed to the running thread: a pointer is
// observed by identity (numbered in order of first observation within the
// execution), anything else by its canonical dump. The pointee's contents are
// deliberately not part of it: the thread holds the pointer, not a copy.
func ObserveValue(tag string, v any) {
	e := active
	if e == nil || e.cur == nil {
		return
	}
	rv := reflect.ValueOf(v)
	if rv.IsValid() && rv.Kind() == reflect.Ptr {
		if rv.IsNil() {
			Observe(tag + ":nilptr")
			return
		}
		if e.objIDs == nil {
			e.objIDs = map[uintptr]int{}
		}
		id, ok := e.objIDs[rv.Pointer()]
		if !ok {
			id = len(e.objIDs) + 1
			e.objIDs[rv.Pointer()] = id
			e.keep = append(e.keep, v) // keep alive so addresses are not reused
		}
		Observe(fmt.Sprintf("%s:obj%d", tag, id))
		return
	}
	Observe(tag + ":" + Dump(v))
}

// Point is a scheduling point before an always-enabled operation.
func Point(op Op) { Block(op, nil) }

// Block is a scheduling point before an operation that is enabled only while
// enabled() holds (nil = always). It returns when the explorer has chosen this
// thread and the operation is enabled.
func Block(op Op, enabled func() bool) {
	e := active
	if e == nil {
		return
	}
	t := e.cur
	if t == nil {
		panic("sched: Point outside a harness thread")
	}
	t.op, t.enabled = op, enabled
	t.pos++
	e.parked <- struct{}{}
	<-t.resume
}

// GoDaemon starts a thread for an environment event (a timer firing, a process
// exiting). It does not keep the execution alive: when every ordinary thread
// has finished, a daemon parked in BlockOrQuit is told to quit.
func GoDaemon(name string, f func()) {
	e := active
	if e == nil {
		return
	}
	t := e.spawn(name, f)
	t.daemon = true
}

// BlockOrQuit is Block for daemon threads: it returns false if the execution
// ended while the thread was parked; the thread must then return at once.
func BlockOrQuit(op Op, enabled func() bool) bool {
	e := active
	if e == nil {
		return false
	}
	t := e.cur
	Block(op, enabled)
	return !t.quit
}

// Choose is a data choice point with n alternatives (cost 0). Free-running it
// returns 0.
func Choose(n int, label string) int {
	e := active
	if e == nil || n <= 1 {
		return 0
	}
	c := e.next(n, false, label, "")
	Observe(fmt.Sprintf("choose:%d", c))
	return c
}

// Go starts a new harness thread running f. Free-running it is a plain go
// statement.
func Go(name string, f func()) {
	e := active
	if e == nil {
		go f()
		return
	}
	e.spawn(name, f)
}

// MustNotBlock marks the dynamic extent of a call that the property says never
// blocks (par.Cache.Get). While depth > 0, a Block whose predicate is false at
// the moment the thread reaches it is recorded as a violation.
func MustNotBlock(delta int) {
	e := active
	if e == nil || e.cur == nil {
		return
	}
	e.cur.inGet += delta
}

func (e *Exec) spawn(name string, f func()) *thread {
	t := &thread{id: len(e.threads) + 1, name: name, resume: make(chan struct{})}
	if t.id > 1 {
		t.name = fmt.Sprintf("%s.t%d", name, t.id)
	}
	t.op = Op{"start", name}
	e.threads = append(e.threads, t)
	go func() {
		<-t.resume
		if e.aborted {
			return
		}
		defer func() {
			if r := recover(); r != nil {
				buf := make([]byte, 4096)
				n := runtime.Stack(buf, false)
				e.PanicVal = r
				e.PanicStack = string(buf[:n])
			}
			t.done = true
			e.parked <- struct{}{}
		}()
		f()
	}()
	return t
}

// next returns the choice at the current decision (from the prefix, else 0) and
// records it.
func (e *Exec) next(arity int, preemptive bool, kind, desc string) int {
	i := len(e.Choices)
	c := 0
	if i < len(e.prefix) {
		c = e.prefix[i]
		if c < 0 || c >= arity {
			panic(fmt.Sprintf("sched: replay divergence at decision %d: choice %d out of range (arity %d, %s %s)", i, c, arity, kind, desc))
		}
	}
	key := ""
	if e.memo != nil && kind == "sched" {
		key = e.globalKey()
		if i >= len(e.prefix) && !e.draining {
			if e.memo.seen(key) {
				e.draining = true
				e.prunedAt = i
			}
		}
	}
	e.Choices = append(e.Choices, c)
	e.Points = append(e.Points, PointInfo{Arity: arity, Preemptive: preemptive, Kind: kind, Key: key, Desc: desc})
	return c
}

func (e *Exec) globalKey() string {
	var sb strings.Builder
	if e.stateKey != nil {
		sb.WriteString(e.stateKey())
	}
	for _, t := range e.threads {
		if t.done {
			fmt.Fprintf(&sb, "|%d:done:%x", t.id, t.obs)
		} else {
			fmt.Fprintf(&sb, "|%d:%d:%x:%s", t.id, t.pos, t.obs, t.op)
		}
	}
	return sb.String()
}

// Options for one execution.
type Options struct {
	Prefix   []int
	Horizon  int           // max scheduling steps (0 = 100000)
	Memo     *Memo         // nil = no state caching
	StateKey func() string // dump of shared state (memo mode)
	Trace    bool
}

// Run executes body as thread 1 under the scheduler with the given choice
// prefix (defaults afterwards) and returns the finished execution.
func Run(body func(), opt Options) *Exec {
	mu.Lock()
	defer mu.Unlock()
	if poisoned.Load() {
		// A thread of an earlier execution is still spinning in this process:
		// nothing can be executed reliably any more. The verdict of that
		// execution is repeated; sharded workers are replaced after the job.
		return &Exec{Livelock: true, NoYield: lastNoYield + " (that thread is still running; this execution was not started)", aborted: true, prunedAt: -1, Choices: append([]int(nil), opt.Prefix...)}
	}
	e := &Exec{parked: make(chan struct{}), prefix: opt.Prefix, horizon: opt.Horizon, memo: opt.Memo, prunedAt: -1, stateKey: opt.StateKey, tracing: opt.Trace}
	if e.horizon == 0 {
		e.horizon = 100000
	}
	active = e
	defer func() { active = nil }()
	watchOnce.Do(func() { go watchNoYield() })
	watchedExec.Store(e)
	defer watchedExec.Store(nil)
	main := e.spawn("main", body)
	_ = main
	var order []*thread
	for {
		order = order[:0]
		unfinished := 0
		curEnabled := false
		for _, t := range e.threads {
			if t.done {
				continue
			}
			if !t.daemon {
				unfinished++
			}
			if t.enabled == nil || t.enabled() {
				if t == e.cur {
					curEnabled = true
				} else {
					order = append(order, t)
				}
			} else if t.inGet > 0 && e.mustNotBlockViolation == "" {
				e.mustNotBlockViolation = fmt.Sprintf("thread %s is blocked at %s inside a call that must not block", t.name, t.op)
			}
		}
		if unfinished == 0 {
			break
		}
		if curEnabled {
			order = append([]*thread{e.cur}, order...)
		}
		if len(order) == 0 {
			e.Deadlock = true
			var sb strings.Builder
			for _, t := range e.threads {
				if !t.done {
					fmt.Fprintf(&sb, "%s blocked at %s; ", t.name, t.op)
				}
			}
			e.DeadlockAt = sb.String()
			e.abort()
			return e
		}
		e.Steps++
		if e.Steps > e.horizon {
			e.Livelock = true
			e.abort()
			return e
		}
		c := 0
		if len(order) > 1 {
			desc := ""
			if e.tracing {
				var sb strings.Builder
				for _, t := range order {
					fmt.Fprintf(&sb, "%s@%s; ", t.name, t.op)
				}
				desc = sb.String()
			}
			c = e.next(len(order), curEnabled, "sched", desc)
		}
		t := order[c]
		if e.tracing {
			e.Trace = append(e.Trace, fmt.Sprintf("%s: %s", t.name, t.op))
		}
		e.cur = t
		t.enabled = nil
		e.waitSeq.Add(1)
		e.waiting.Store(true)
		t.resume <- struct{}{}
		<-e.parked
		e.waiting.Store(false)
		if e.noYield.Load() {
			e.NoYield = fmt.Sprintf("thread %s, resumed at %s, ran for %v without reaching a scheduling point", t.name, t.op, NoYieldAfter)
			e.Livelock = true
			lastNoYield = e.NoYield
			poisoned.Store(true)
			e.abort()
			return e
		}
		if e.PanicVal != nil {
			e.abort()
			return e
		}
	}
	// the execution is over: let parked daemon threads return
	for _, t := range e.threads {
		if !t.done && t.daemon {
			t.quit = true
			for i := 0; !t.done; i++ {
				if i > 100 {
					panic("sched: daemon thread " + t.name + " did not return when told to quit")
				}
				e.cur = t
				t.resume <- struct{}{}
				<-e.parked
			}
		}
	}
	if len(e.Choices) < len(e.prefix) {
		panic(fmt.Sprintf("sched: replay divergence: execution ended after %d decisions, prefix has %d", len(e.Choices), len(e.prefix)))
	}
	return e
}

// abort abandons the threads of a failed execution (deadlock, livelock, panic):
// they stay parked for the rest of the process. They are deliberately not
// unwound: their deferred calls would run shim code while a later execution is
// active. A process that has seen a failure only confirms and reports it.
func (e *Exec) abort() {
	e.aborted = true
}

// MustNotBlockViolation returns a description if some thread was found blocked
// inside a MustNotBlock extent.
func (e *Exec) MustNotBlockViolation() string { return e.mustNotBlockViolation }

// PrunedAt returns the decision index from which branching is suppressed
// because a known global state was reached (-1 if none).
func (e *Exec) PrunedAt() int { return e.prunedAt }

// Memo is a table of global states already expanded.
type Memo struct {
	m map[string]struct{}
}

func NewMemo() *Memo { return &Memo{m: map[string]struct{}{}} }

func (m *Memo) seen(k string) bool {
	if _, ok := m.m[k]; ok {
		return true
	}
	m.m[k] = struct{}{}
	return false
}

func (m *Memo) Len() int {
	if m == nil {
		return 0
	}
	return len(m.m)
}
