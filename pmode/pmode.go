// Package pmode runs the participants of an engine-S scenario as separate OS
// processes: each child executes the real code with the os/flock shim hooked to
// a pipe, parks at every file operation until the coordinating process (which
// runs the ordinary scheduler and explorer) tells it to go, and reports
// harness-level events (acquired, returned ...) as extra messages.
//
// Protocol, one line each way: child -> parent "P kind obj" (at a file
// operation), "B mode" (flock found the lock busy; wait for an unlock/close
// somewhere), "F" (finished), or any other line, handed to the scenario's
// handler; parent -> child "G".
package pmode

import (
	"bufio"
	"fmt"
	"os"
	"os/exec"
	"path/filepath"
	"strconv"
	"strings"
	"syscall"

	"verif/sched"
	"verif/virt/vos"
)

// ---------- child side ----------

type Remote struct {
	out *bufio.Writer
	in  *bufio.Reader
}

// Send writes one message and waits for the coordinator's go-ahead.
func (r *Remote) Send(format string, args ...any) {
	fmt.Fprintf(r.out, strings.ReplaceAll(format, "\n", " ")+"\n", args...)
	r.out.Flush()
	if _, err := r.in.ReadString('\n'); err != nil {
		os.Exit(7)
	}
}

// Finish tells the coordinator that this participant is done.
func (r *Remote) Finish() {
	fmt.Fprintln(r.out, "F")
	r.out.Flush()
}

// Child hooks the os shim of this process to the pipe and returns the remote.
func Child() *Remote {
	r := &Remote{out: bufio.NewWriter(os.Stdout), in: bufio.NewReader(os.Stdin)}
	vos.Reset()
	vos.Hook = func(op *vos.Op) vos.Verdict {
		// a name that holds this process's id differs from run to run
		r.Send("P %s %s", op.Kind, strings.ReplaceAll(filepath.Base(op.Path), strconv.Itoa(os.Getpid()), "<pid>"))
		return vos.Verdict{}
	}
	vos.FlockHook = func(fd int, how int) error {
		mode := "SH"
		if how&syscall.LOCK_EX != 0 {
			mode = "EX"
		}
		r.Send("P flock %s", mode)
		for {
			err := syscall.Flock(fd, how|syscall.LOCK_NB)
			if err == nil {
				return nil
			}
			if err != syscall.EWOULDBLOCK {
				return err
			}
			r.Send("B %s", mode)
		}
	}
	return r
}

// ---------- coordinator side ----------

// Gen counts unlock / close events reported by any child of the current
// execution; reset it at the start of every execution.
var Gen int

// Invisible lists operation kinds that are not scheduling points.
var Invisible = map[string]bool{}

// Proxy runs one participant as a child process (argv = this binary plus args)
// and turns its messages into scheduler calls. handle receives every message
// that is not part of the base protocol. It returns an error text if the child
// ended unexpectedly.
func Proxy(args []string, handle func(kind, rest string)) string {
	cmd := exec.Command(os.Args[0], args...)
	stdin, _ := cmd.StdinPipe()
	stdout, _ := cmd.StdoutPipe()
	cmd.Stderr = os.Stderr
	if err := cmd.Start(); err != nil {
		return "cannot start child: " + err.Error()
	}
	defer func() {
		stdin.Close()
		cmd.Wait()
	}()
	rd := bufio.NewReaderSize(stdout, 1<<16)
	pendingBump := false
	for {
		line, err := rd.ReadString('\n')
		if err != nil {
			return "child process ended unexpectedly: " + err.Error()
		}
		line = strings.TrimSuffix(line, "\n")
		if pendingBump {
			// the child's previous operation (an unlock or a close) has completed
			Gen++
			pendingBump = false
		}
		kind, rest, _ := strings.Cut(line, " ")
		switch kind {
		case "F":
			return ""
		case "P":
			k, obj, _ := strings.Cut(rest, " ")
			if !Invisible[k] {
				sched.Point(sched.Op{Kind: k, Obj: obj})
			}
			if k == "funlock" || k == "close" {
				pendingBump = true
			}
		case "B":
			gen := Gen
			sched.Block(sched.Op{Kind: "flock-wait", Obj: rest}, func() bool { return Gen != gen })
		default:
			handle(kind, rest)
		}
		fmt.Fprintln(stdin, "G")
	}
}
