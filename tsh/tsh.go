// Package tsh is the shared harness for the testscript properties (C01, C02,
// C04, C16, C17): recording implementations of testscript.T in both styles found
// in the wild, helper-program personalities served by the check binary itself
// through testscript.Main (the documented mechanism), and probe commands.
package tsh

import (
	"bytes"
	"fmt"
	"io"
	"os"
	"os/exec"
	"os/signal"
	"path/filepath"
	"regexp"
	"runtime"
	"strconv"
	"sync"
	"syscall"
	"time"

	"github.com/rogpeppe/go-internal/testscript"
)

// ---------- recording T ----------

type Verdict string

const (
	Pass Verdict = "pass"
	Fail Verdict = "fail"
	Skip Verdict = "skip"
	// Panicked: a panic other than the T's own end-of-test mechanism escaped.
	Panicked Verdict = "panic"
)

// Result of one subtest (one script).
type Result struct {
	Name    string
	Verdict Verdict
	Log     string
	Panic   string
}

type sentinel struct{ kind string }

// T implements testscript.T. Style "goexit" ends a test like testing.T does
// (runtime.Goexit); style "panic" panics with a sentinel that Run recovers, like
// cmd/testscript's runT and the repository's own fakeT.
type T struct {
	Style     string
	IsVerbose bool
	name      string
	mu        sync.Mutex
	log       bytes.Buffer
	failed    bool
	skipped   bool
	parent    *T
	Results   []*Result // on the root: one per Run call, in call order
	// RunHook, when set on the root, replaces the default synchronous execution
	// of a subtest: it receives the subtest body and must run it to completion
	// (engine S uses it to make subtests scheduler threads).
	RunHook func(name string, body func())
	// ParallelHook is called by Parallel (engine S: a scheduling point).
	ParallelHook func(name string)
	// Fatal on the root T (RunT set-up errors)
	RootFatal string
}

func NewT(style string, verbose bool) *T { return &T{Style: style, IsVerbose: verbose} }

func (t *T) root() *T {
	for t.parent != nil {
		t = t.parent
	}
	return t
}

func (t *T) Verbose() bool { return t.root().IsVerbose }

func (t *T) Log(args ...any) {
	t.mu.Lock()
	fmt.Fprintln(&t.log, args...)
	t.mu.Unlock()
}

func (t *T) end(kind string) {
	if t.root().Style == "panic" {
		panic(sentinel{kind})
	}
	runtime.Goexit()
}

func (t *T) FailNow() {
	t.failed = true
	t.end("fail")
}

func (t *T) Fatal(args ...any) {
	t.Log(args...)
	if t.parent == nil {
		t.RootFatal = fmt.Sprint(args...)
	}
	t.FailNow()
}

func (t *T) Skip(args ...any) {
	t.Log(args...)
	t.skipped = true
	t.end("skip")
}

func (t *T) Failed() bool { return t.failed }

func (t *T) Parallel() {
	if h := t.root().ParallelHook; h != nil {
		h(t.name)
	}
}

func (t *T) Run(name string, f func(testscript.T)) {
	root := t.root()
	child := &T{name: name, parent: t}
	res := &Result{Name: name}
	root.mu.Lock()
	root.Results = append(root.Results, res)
	root.mu.Unlock()
	body := func() {
		defer func() {
			if r := recover(); r != nil {
				if _, ok := r.(sentinel); !ok {
					// a panic escaping the subtest: testing.T would report it and fail
					// the binary; it is recorded instead of crashing the check
					res.Verdict = Panicked
					res.Panic = fmt.Sprint(r)
					res.Log = child.log.String()
				}
			}
		}()
		defer func() {
			// runs on normal return, on Goexit and while the sentinel panic unwinds
			res.Log = child.log.String()
			switch {
			case child.failed:
				res.Verdict = Fail
			case child.skipped:
				res.Verdict = Skip
			default:
				res.Verdict = Pass
			}
		}()
		f(child)
	}
	if root.RunHook != nil {
		root.RunHook(name, body)
		return
	}
	if root.Style == "panic" {
		body()
		return
	}
	done := make(chan struct{})
	go func() {
		defer close(done)
		body()
	}()
	<-done
}

// RunRoot calls f(t) with the root's own end-of-test handling (RunT may call
// Fatal on the root).
func (t *T) RunRoot(f func()) {
	if t.Style == "panic" {
		func() {
			defer func() {
				if r := recover(); r != nil {
					if _, ok := r.(sentinel); !ok {
						panic(r)
					}
				}
			}()
			f()
		}()
		return
	}
	done := make(chan struct{})
	go func() {
		defer close(done)
		f()
	}()
	<-done
}

// ---------- helper personalities ----------

// Commands returns the helper programs that the check binary serves when it is
// started under one of these names (testscript.Main copies the binary under
// each name into a directory on PATH and registers the names as script commands).
func Commands() map[string]func() {
	return map[string]func(){
		"hexit": func() {
			n := 0
			if len(os.Args) > 1 {
				n, _ = strconv.Atoi(os.Args[1])
			}
			os.Exit(n)
		},
		"hecho": func() {
			if len(os.Args) > 1 {
				fmt.Fprint(os.Stdout, os.Args[1])
			}
			if len(os.Args) > 2 {
				fmt.Fprint(os.Stderr, os.Args[2])
			}
		},
		"hcat": func() { io.Copy(os.Stdout, os.Stdin) },
		"henv": func() {
			for _, kv := range os.Environ() {
				fmt.Printf("%s\x00", kv)
			}
			wd, _ := os.Getwd()
			fmt.Printf("\x01CWD=%s\x00", wd)
		},
		"hargs": func() {
			for _, a := range os.Args[1:] {
				fmt.Printf("%s\x00", a)
			}
		},
		// hpid FILE [exit-status [delay-ms]]: writes its pid, then blocks until SIGINT or SIGQUIT; records
		// the time of the signal in FILE.sig and exits a little later, so that code
		// which forgets to wait for it is caught deterministically
		"hpid": func() {
			c := make(chan os.Signal, 2)
			signal.Notify(c, syscall.SIGINT, syscall.SIGQUIT)
			// the file appears with its content in place (write aside, then rename)
			os.WriteFile(os.Args[1]+".tmp", []byte(strconv.Itoa(os.Getpid())), 0o666)
			os.Rename(os.Args[1]+".tmp", os.Args[1])
			s := <-c
			os.WriteFile(os.Args[1]+".sig", []byte(fmt.Sprintf("%v %d", s, time.Now().UnixNano())), 0o666)
			delay := 250
			if len(os.Args) > 3 {
				if d, err := strconv.Atoi(os.Args[3]); err == nil {
					delay = d
				}
			}
			time.Sleep(time.Duration(delay) * time.Millisecond)
			st := 0
			if len(os.Args) > 2 {
				st, _ = strconv.Atoi(os.Args[2])
			}
			os.Exit(st)
		},
		// hquitproof FILE: writes its pid, ignores SIGQUIT and exits on SIGINT (a
		// program that dumps its threads on SIGQUIT and carries on, as a JVM does)
		"hquitproof": func() {
			signal.Ignore(syscall.SIGQUIT)
			c := make(chan os.Signal, 1)
			signal.Notify(c, syscall.SIGINT)
			os.WriteFile(os.Args[1]+".tmp", []byte(strconv.Itoa(os.Getpid())), 0o666)
			os.Rename(os.Args[1]+".tmp", os.Args[1])
			<-c
			os.Exit(0)
		},
		// hstubborn FILE: writes its pid and ignores SIGINT and SIGQUIT
		"hstubborn": func() {
			signal.Ignore(syscall.SIGINT, syscall.SIGQUIT)
			os.WriteFile(os.Args[1], []byte(strconv.Itoa(os.Getpid())), 0o666)
			for {
				time.Sleep(time.Hour)
			}
		},
		"hsleep": func() {
			d, _ := time.ParseDuration(os.Args[1])
			if len(os.Args) > 2 {
				os.WriteFile(os.Args[2], []byte(strconv.Itoa(os.Getpid())), 0o666)
			}
			time.Sleep(d)
		},
		// hlinger MS: starts a descendant that keeps the inherited standard output
		// and error open for MS milliseconds, prints "started" and exits 0 at once
		// (a launcher: the program has succeeded, its output ends later)
		"hlinger": func() {
			self, err := os.Executable()
			if err != nil {
				os.Exit(9)
			}
			cmd := exec.Command(filepath.Join(filepath.Dir(self), "hsleep"), os.Args[1]+"ms")
			cmd.Stdout = os.Stdout
			cmd.Stderr = os.Stderr
			if err := cmd.Start(); err != nil {
				fmt.Fprintln(os.Stderr, "hlinger:", err)
				os.Exit(9)
			}
			fmt.Println("started")
			os.Exit(0)
		},
		"htouch": func() { os.WriteFile(os.Args[1], []byte("touched\n"), 0o666) },
	}
}

type mainM struct{ run func() int }

func (m mainM) Run() int { return m.run() }

// Main must be called first thing in main(): under a helper name it runs the
// helper and exits; otherwise testscript.Main sets up PATH and the registered
// commands and calls run.
func Main(run func() int) {
	testscript.Main(mainM{run}, Commands())
}

// PidAlive reports whether the process exists (zombies of other parents count
// as alive, which is right: nobody waited for them).
func PidAlive(pid int) bool {
	return syscall.Kill(pid, 0) == nil
}

// ---------- script files ----------

// WriteScript writes a script file (txtar text) and returns its path.
func WriteScript(dir, name, text string) string {
	p := dir + "/" + name
	if err := os.WriteFile(p, []byte(text), 0o666); err != nil {
		panic(err)
	}
	return p
}

// failRe finds a FAIL entry. It need not start its line: the output of a program
// that does not end in a newline is followed directly by the entry.
var failRe = regexp.MustCompile(`FAIL: [^\s:]+:(\d+): `)

// FailLine extracts N from the first "FAIL: <file>:N:" entry of a log (-1 if none).
func FailLine(log string) int {
	if l := AllFailLines(log); len(l) > 0 {
		return l[0]
	}
	return -1
}

// AllFailLines returns the line numbers of all FAIL entries in order.
func AllFailLines(log string) []int {
	var out []int
	for _, m := range failRe.FindAllStringSubmatch(log, -1) {
		if n, err := strconv.Atoi(m[1]); err == nil {
			out = append(out, n)
		}
	}
	return out
}
