#!/bin/bash
# seedcheck.sh <out-dir> <dest-dir-in-repo> <go-test-args...>
#   <out-dir>: directory holding patch.diff and demo file(s) (*_test.go or other .go files)
# Confirms a seeded change in a scratch worktree: applies, builds, runs the whole
# test-suite (only the known baseline failures allowed), runs the demo (must fail),
# reverts, runs the demo (must pass). Prints CONFIRMED or the reason it is not.
set -u
export GOFLAGS=-mod=mod GOPROXY=off GOSUMDB=off GOTOOLCHAIN=local
out=$1; dest=$2; shift 2
wt=$(mktemp -d /tmp/seedwt-XXXXXX); rmdir $wt
git -C /repo worktree add -q --detach $wt HEAD || exit 2
cleanup() { git -C /repo worktree remove --force $wt; }
trap cleanup EXIT
cd $wt
git apply $out/patch.diff || { echo "NOT-CONFIRMED patch does not apply to HEAD"; exit 1; }
go build ./... || { echo "NOT-CONFIRMED does not build"; exit 1; }
go test -vet=off -count=1 ./... > $wt.testlog 2>&1
fails=$(grep -E '^\s*--- FAIL' $wt.testlog | sed 's/ (.*//' | sort -u | grep -v -E 'TestScripts$|TestScripts/env_var_with_go|TestSimple$|TestSimple/cover')
if [ -n "$fails" ]; then
  # timing-sensitive tests (testscript pty) flake now and then: a failure counts only if it repeats
  go test -vet=off -count=1 ./... > $wt.testlog2 2>&1
  fails2=$(grep -E '^\s*--- FAIL' $wt.testlog2 | sed 's/ (.*//' | sort -u | grep -v -E 'TestScripts$|TestScripts/env_var_with_go|TestSimple$|TestSimple/cover')
  both=$(comm -12 <(echo "$fails") <(echo "$fails2"))
  rm -f $wt.testlog2
  if [ -n "$both" ]; then echo "NOT-CONFIRMED existing tests fail with the change (twice):"; echo "$both"; rm -f $wt.testlog; exit 1; fi
  echo "(note: flaky on first run, passed on second: $fails)"
fi
if grep -q -E '^(FAIL|panic)' $wt.testlog && grep -E '^FAIL' $wt.testlog | grep -v -E 'gotooltest|cmd/testscript|^FAIL$' | grep -q .; then echo "NOT-CONFIRMED package failure:"; grep -E '^FAIL' $wt.testlog; rm -f $wt.testlog; exit 1; fi
rm -f $wt.testlog
mkdir -p $dest
for f in $out/*.go; do [ -e "$f" ] && cp $f $dest/; done
for d in $out/*/; do [ -d "$d" ] && cp -r $d $dest/; done
if go test -vet=off -count=1 "$@" > $wt.demo1 2>&1; then echo "NOT-CONFIRMED demo passes WITH the change"; tail -5 $wt.demo1; rm -f $wt.demo1; exit 1; fi
echo "--- demo with change (tail):"; grep -v '^\s*$' $wt.demo1 | tail -6; rm -f $wt.demo1
git apply -R $out/patch.diff || exit 2
if ! go test -vet=off -count=1 "$@" > $wt.demo2 2>&1; then echo "NOT-CONFIRMED demo fails WITHOUT the change"; tail -15 $wt.demo2; rm -f $wt.demo2; exit 1; fi
rm -f $wt.demo2
echo CONFIRMED
