#!/bin/bash
# MANIFEST.setup_cmd: build the framework from files on disk only and warm the build cache.
set -e
cd "$(dirname "$0")"
export GOFLAGS=-mod=mod GOPROXY=off GOSUMDB=off GOTOOLCHAIN=local
mkdir -p bin evidence replays
if [ -d cmd/vinstr ]; then go build -o bin/vinstr ./cmd/vinstr; fi
# warm the cache: plain build of every check that needs no overlay, and of the repository
(cd /repo && go build ./... ) || true
for d in checks/*/; do
  go build -tags verif -o /dev/null "./$d" || true
  if [ -f "$d/racepass" ]; then go build -race -tags verif -o /dev/null "./$d" || true; fi
done
echo setup done
