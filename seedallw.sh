#!/bin/bash
# seedallw.sh [jobs]: the regression over every kept seeded change, several at a
# time, each on a scratch worktree of /repo's HEAD (seedrunw.sh); /repo itself is
# not touched. One line per seed: CAUGHT by <check> / MISSED / NEUTRALISED (a
# seed recorded with an empty caught_by list). VERIF_FAIL_FAST shortens the runs.
# SEED_FILTER=C12 restricts the run to the seeds whose names begin that way.
cd /verif
jobs=${1:-4}
export VERIF_FAIL_FAST=1
one() {
  d=$1; name=$(basename $d)
  checks=$(python3 -c "import json;print(' '.join(json.load(open('$d/meta.json'))['caught_by']))")
  [ -z "$checks" ] && { echo "$name NEUTRALISED"; return; }
  for c in $checks; do
    out=$(./seedrunw.sh /verif/$d/patch.diff $c 2>&1)
    if echo "$out" | grep -q "^== $c rc=1 "; then echo "$name CAUGHT by $c"; return; fi
    last="$(echo "$out" | grep -E '^== |HARNESS|patch does not' | head -2 | tr '\n' ' ' | cut -c1-160)"
  done
  echo "$name MISSED ($last)"
}
export -f one
ls -d seeded/${SEED_FILTER:-}*/ | sed 's|/$||' | xargs -P $jobs -I{} bash -c 'one {}'
