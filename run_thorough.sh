#!/bin/bash
# runs every thorough command once, sequentially, and prints one line per check (for tuning bounds)
cd "$(dirname "$0")"
for id in "$@"; do
  s=$(date +%s)
  ./check $id --tier thorough > /tmp/thorough-$id.log 2>&1; rc=$?
  e=$(date +%s)
  echo "$id rc=$rc $((e-s))s $(tail -1 /tmp/thorough-$id.log | cut -c1-200)"
done
