#!/bin/bash
# seedrun.sh <patch.diff> <check-id>... : apply a seeded change to /repo, run the quick checks, undo.
patch=$1; shift
cd /verif
git -C /repo diff --quiet || { echo "/repo not clean"; exit 2; }
git -C /repo apply $patch || { echo "patch does not apply"; exit 2; }
trap 'git -C /repo checkout -- . ; git -C /repo clean -fdq' EXIT
for id in "$@"; do
  ./check $id --tier ${TIER:-quick} > /tmp/seedrun.$$.log 2>&1; rc=$?
  echo "== $id rc=$rc $(grep -c '^VIOLATION' /tmp/seedrun.$$.log) violation lines"
  grep -E '^(violation:|HARNESS|KNOWN)' /tmp/seedrun.$$.log | head -4
  grep -A1 '^violation:' /tmp/seedrun.$$.log | grep -v '^violation\|^--' | head -2
  tail -1 /tmp/seedrun.$$.log
  rm -f /tmp/seedrun.$$.log
done
